#!/usr/bin/env python3
"""Print Gallina definitions of the token streams used in coq/C01/Examples.v (lexed by the harness)."""
import sys, json, subprocess
sys.path.insert(0, "/verif")
sys.path.insert(0, "/verif/ocaml/c01")
from validate import lex_all, KIND
from checks import coqterm

EX = [
    ("ex1_in", "fn f(a:u8,)->(u8,){match a{1=>{2},_=>3,}}\n"),
    ("ex1_out", "fn f(a: u8) -> (u8,) {\n    match a {\n        1 => 2,\n        _ => 3,\n    }\n}\n"),
    ("ex2_in", "use b::{y, x};\nuse a;\n#[derive(A)]\n#[derive(B)]\nstruct S<>where{}\nextern fn g(){let c=|x,|{((x))};return;}\n"),
    ("ex2_out", "use a;\nuse b::{x, y};\n#[derive(A, B)]\nstruct S {}\nextern \"C\" fn g() {\n    let c = |x| (x);\n    return;\n}\n"),
    # one-element tuples: the comma is significant in pattern, type and expression position, optional in a call
    ("tp_pat_a", "fn g(){let (a,) = f();}"), ("tp_pat_b", "fn g(){let (a) = f();}"),
    ("tp_ty_a", "fn g(){let x: (u8,) = (1,);}"), ("tp_ty_b", "fn g(){let x: (u8) = (1);}"),
    ("tp_arm_a", "fn g(){match t { (a,) => a }}"), ("tp_arm_b", "fn g(){match t { (a) => a }}"),
    ("tp_arg_a", "fn g(){f((a,));}"), ("tp_arg_b", "fn g(){f((a));}"), ("tp_arg_c", "fn g(){f(a);}"),
    ("tp_nest_a", "fn g(){let x = ((a,),);}"), ("tp_nest_b", "fn g(){let x = ((a,));}"), ("tp_nest_c", "fn g(){let x = (a,);}"),
    ("tp_call_a", "fn g(){f(a,);}"),
    # ... also when the element has commas of its own (generic arguments, closure parameters), after an attribute,
    # and after a `>` that is a comparison
    ("th_gen_a", "fn g(){let x: (HashMap<K,V>,) = f();}"), ("th_gen_b", "fn g(){let x: (HashMap<K,V>) = f();}"),
    ("th_clo_a", "fn g(){let x = (|a, b| a,);}"), ("th_clo_b", "fn g(){let x = (|a, b| a);}"),
    ("th_att_a", "fn g(){match x { #[a] (b,) => 1, }}"), ("th_att_b", "fn g(){match x { #[a] (b) => 1, }}"),
    ("th_cmp_a", "fn g(){let x = a > (b,);}"), ("th_cmp_b", "fn g(){let x = a > (b);}"),
    # argument position after generic arguments (turbofish, generic fn with an arrow inside the bounds)
    ("tq_tf_a", "fn g(){f::<A,B>(a,);}"), ("tq_tf_b", "fn g(){f::<A,B>(a);}"),
    ("tq_fn_a", "fn g<T: Fn() -> u8>(a: T,){}"), ("tq_fn_b", "fn g<T: Fn() -> u8>(a: T){}"),
    ("ex3_bad", "fn f(a: u8) -> (u8,) {\n    match a {\n        1 => 2,\n        _ => 4,\n    }\n}\n"),
]
for (name, src), toks in zip(EX, lex_all([s for _, s in EX])):
    print("(* %s *)" % src.replace("\n", " ").replace('"', "''").strip())
    print("Definition %s : list (N * text) :=\n  [%s]." % (name, "; ".join("(%d, %s)" % (KIND.get(k, 12), coqterm.text(t)) for k, t in toks)))
