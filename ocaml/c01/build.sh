#!/bin/sh
# build the extracted C01 normaliser + driver into /verif/.cache/c01/modelrun
# (norm.ml / norm.mli are produced by:  cd /verif/coq && coqc -Q . V C01/Extract.v)
set -e
HERE=$(cd "$(dirname "$0")" && pwd)
OUT=/verif/.cache/c01
mkdir -p "$OUT/build"
cp "$HERE/norm.mli" "$HERE/norm.ml" "$HERE/main.ml" "$OUT/build/"
cd "$OUT/build"
ocamlfind ocamlopt -w -a -c norm.mli
ocamlfind ocamlopt -w -a -c norm.ml
ocamlfind ocamlopt -w -a -c main.ml
ocamlfind ocamlopt -w -a norm.cmx main.cmx -o "$OUT/modelrun"
echo "built $OUT/modelrun"
