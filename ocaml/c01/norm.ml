
(** val negb : bool -> bool **)

let negb = function
| true -> false
| false -> true

type nat =
| O
| S of nat

(** val fst : ('a1 * 'a2) -> 'a1 **)

let fst = function
| (x, _) -> x

(** val snd : ('a1 * 'a2) -> 'a2 **)

let snd = function
| (_, y) -> y

(** val length : 'a1 list -> nat **)

let rec length = function
| [] -> O
| _ :: l' -> S (length l')

(** val app : 'a1 list -> 'a1 list -> 'a1 list **)

let rec app l m =
  match l with
  | [] -> m
  | a :: l1 -> a :: (app l1 m)

type comparison =
| Eq
| Lt
| Gt

(** val pred : nat -> nat **)

let pred n0 = match n0 with
| O -> n0
| S u -> u

module Nat =
 struct
  (** val eqb : nat -> nat -> bool **)

  let rec eqb n0 m =
    match n0 with
    | O -> (match m with
            | O -> true
            | S _ -> false)
    | S n' -> (match m with
               | O -> false
               | S m' -> eqb n' m')

  (** val leb : nat -> nat -> bool **)

  let rec leb n0 m =
    match n0 with
    | O -> true
    | S n' -> (match m with
               | O -> false
               | S m' -> leb n' m')

  (** val ltb : nat -> nat -> bool **)

  let ltb n0 m =
    leb (S n0) m
 end

(** val hd_error : 'a1 list -> 'a1 option **)

let hd_error = function
| [] -> None
| x :: _ -> Some x

(** val tl : 'a1 list -> 'a1 list **)

let tl = function
| [] -> []
| _ :: m -> m

(** val removelast : 'a1 list -> 'a1 list **)

let rec removelast = function
| [] -> []
| a :: l0 -> (match l0 with
              | [] -> []
              | _ :: _ -> a :: (removelast l0))

(** val rev : 'a1 list -> 'a1 list **)

let rec rev = function
| [] -> []
| x :: l' -> app (rev l') (x :: [])

(** val concat : 'a1 list list -> 'a1 list **)

let rec concat = function
| [] -> []
| x :: l0 -> app x (concat l0)

(** val map : ('a1 -> 'a2) -> 'a1 list -> 'a2 list **)

let rec map f = function
| [] -> []
| a :: t0 -> (f a) :: (map f t0)

(** val flat_map : ('a1 -> 'a2 list) -> 'a1 list -> 'a2 list **)

let rec flat_map f = function
| [] -> []
| x :: t0 -> app (f x) (flat_map f t0)

(** val fold_left : ('a1 -> 'a2 -> 'a1) -> 'a2 list -> 'a1 -> 'a1 **)

let rec fold_left f l a0 =
  match l with
  | [] -> a0
  | b :: t0 -> fold_left f t0 (f a0 b)

(** val fold_right : ('a2 -> 'a1 -> 'a1) -> 'a1 -> 'a2 list -> 'a1 **)

let rec fold_right f a0 = function
| [] -> a0
| b :: t0 -> f b (fold_right f a0 t0)

(** val existsb : ('a1 -> bool) -> 'a1 list -> bool **)

let rec existsb f = function
| [] -> false
| a :: l0 -> (||) (f a) (existsb f l0)

(** val filter : ('a1 -> bool) -> 'a1 list -> 'a1 list **)

let rec filter f = function
| [] -> []
| x :: l0 -> if f x then x :: (filter f l0) else filter f l0

type positive =
| XI of positive
| XO of positive
| XH

type n =
| N0
| Npos of positive

module Pos =
 struct
  (** val succ : positive -> positive **)

  let rec succ = function
  | XI p -> XO (succ p)
  | XO p -> XI p
  | XH -> XO XH

  (** val add : positive -> positive -> positive **)

  let rec add x y =
    match x with
    | XI p ->
      (match y with
       | XI q -> XO (add_carry p q)
       | XO q -> XI (add p q)
       | XH -> XO (succ p))
    | XO p ->
      (match y with
       | XI q -> XI (add p q)
       | XO q -> XO (add p q)
       | XH -> XI p)
    | XH -> (match y with
             | XI q -> XO (succ q)
             | XO q -> XI q
             | XH -> XO XH)

  (** val add_carry : positive -> positive -> positive **)

  and add_carry x y =
    match x with
    | XI p ->
      (match y with
       | XI q -> XI (add_carry p q)
       | XO q -> XO (add_carry p q)
       | XH -> XI (succ p))
    | XO p ->
      (match y with
       | XI q -> XO (add_carry p q)
       | XO q -> XI (add p q)
       | XH -> XO (succ p))
    | XH ->
      (match y with
       | XI q -> XI (succ q)
       | XO q -> XO (succ q)
       | XH -> XI XH)

  (** val pred_double : positive -> positive **)

  let rec pred_double = function
  | XI p -> XI (XO p)
  | XO p -> XI (pred_double p)
  | XH -> XH

  (** val pred_N : positive -> n **)

  let pred_N = function
  | XI p -> Npos (XO p)
  | XO p -> Npos (pred_double p)
  | XH -> N0

  (** val mul : positive -> positive -> positive **)

  let rec mul x y =
    match x with
    | XI p -> add y (XO (mul p y))
    | XO p -> XO (mul p y)
    | XH -> y

  (** val compare_cont : comparison -> positive -> positive -> comparison **)

  let rec compare_cont r x y =
    match x with
    | XI p ->
      (match y with
       | XI q -> compare_cont r p q
       | XO q -> compare_cont Gt p q
       | XH -> Gt)
    | XO p ->
      (match y with
       | XI q -> compare_cont Lt p q
       | XO q -> compare_cont r p q
       | XH -> Gt)
    | XH -> (match y with
             | XH -> r
             | _ -> Lt)

  (** val compare : positive -> positive -> comparison **)

  let compare =
    compare_cont Eq

  (** val eqb : positive -> positive -> bool **)

  let rec eqb p q =
    match p with
    | XI p0 -> (match q with
                | XI q0 -> eqb p0 q0
                | _ -> false)
    | XO p0 -> (match q with
                | XO q0 -> eqb p0 q0
                | _ -> false)
    | XH -> (match q with
             | XH -> true
             | _ -> false)

  (** val testbit : positive -> n -> bool **)

  let rec testbit p n0 =
    match p with
    | XI p0 -> (match n0 with
                | N0 -> true
                | Npos n1 -> testbit p0 (pred_N n1))
    | XO p0 -> (match n0 with
                | N0 -> false
                | Npos n1 -> testbit p0 (pred_N n1))
    | XH -> (match n0 with
             | N0 -> true
             | Npos _ -> false)
 end

module N =
 struct
  (** val add : n -> n -> n **)

  let add n0 m =
    match n0 with
    | N0 -> m
    | Npos p -> (match m with
                 | N0 -> n0
                 | Npos q -> Npos (Pos.add p q))

  (** val mul : n -> n -> n **)

  let mul n0 m =
    match n0 with
    | N0 -> N0
    | Npos p -> (match m with
                 | N0 -> N0
                 | Npos q -> Npos (Pos.mul p q))

  (** val compare : n -> n -> comparison **)

  let compare n0 m =
    match n0 with
    | N0 -> (match m with
             | N0 -> Eq
             | Npos _ -> Lt)
    | Npos n' -> (match m with
                  | N0 -> Gt
                  | Npos m' -> Pos.compare n' m')

  (** val eqb : n -> n -> bool **)

  let eqb n0 m =
    match n0 with
    | N0 -> (match m with
             | N0 -> true
             | Npos _ -> false)
    | Npos p -> (match m with
                 | N0 -> false
                 | Npos q -> Pos.eqb p q)

  (** val leb : n -> n -> bool **)

  let leb x y =
    match compare x y with
    | Gt -> false
    | _ -> true

  (** val ltb : n -> n -> bool **)

  let ltb x y =
    match compare x y with
    | Lt -> true
    | _ -> false

  (** val testbit : n -> n -> bool **)

  let testbit a n0 =
    match a with
    | N0 -> false
    | Npos p -> Pos.testbit p n0
 end

type ascii =
| Ascii of bool * bool * bool * bool * bool * bool * bool * bool

(** val n_of_digits : bool list -> n **)

let rec n_of_digits = function
| [] -> N0
| b :: l' ->
  N.add (if b then Npos XH else N0) (N.mul (Npos (XO XH)) (n_of_digits l'))

(** val n_of_ascii : ascii -> n **)

let n_of_ascii = function
| Ascii (a0, a1, a2, a3, a4, a5, a6, a7) ->
  n_of_digits
    (a0 :: (a1 :: (a2 :: (a3 :: (a4 :: (a5 :: (a6 :: (a7 :: []))))))))

type string =
| EmptyString
| String of ascii * string

(** val list_ascii_of_string : string -> ascii list **)

let rec list_ascii_of_string = function
| EmptyString -> []
| String (ch, s0) -> ch :: (list_ascii_of_string s0)

type char = n

type text = char list

(** val lF : char **)

let lF =
  Npos (XO (XI (XO XH)))

(** val cR : char **)

let cR =
  Npos (XI (XO (XI XH)))

(** val sP : char **)

let sP =
  Npos (XO (XO (XO (XO (XO XH)))))

(** val is_lf : char -> bool **)

let is_lf c =
  N.eqb c lF

(** val is_cr : char -> bool **)

let is_cr c =
  N.eqb c cR

(** val is_whitespace : char -> bool **)

let is_whitespace c =
  (||)
    ((||)
      ((||)
        ((||)
          ((||)
            ((||)
              ((||)
                ((||)
                  ((||)
                    ((||)
                      ((&&) (N.leb (Npos (XI (XO (XO XH)))) c)
                        (N.leb c (Npos (XI (XO (XI XH))))))
                      (N.eqb c (Npos (XO (XO (XO (XO (XO XH))))))))
                    (N.eqb c (Npos (XI (XO (XI (XO (XO (XO (XO XH))))))))))
                  (N.eqb c (Npos (XO (XO (XO (XO (XO (XI (XO XH))))))))))
                (N.eqb c (Npos (XO (XO (XO (XO (XO (XO (XO (XI (XO (XI (XI
                  (XO XH)))))))))))))))
              ((&&)
                (N.leb (Npos (XO (XO (XO (XO (XO (XO (XO (XO (XO (XO (XO (XO
                  (XO XH)))))))))))))) c)
                (N.leb c (Npos (XO (XI (XO (XI (XO (XO (XO (XO (XO (XO (XO
                  (XO (XO XH)))))))))))))))))
            (N.eqb c (Npos (XO (XO (XO (XI (XO (XI (XO (XO (XO (XO (XO (XO
              (XO XH))))))))))))))))
          (N.eqb c (Npos (XI (XO (XO (XI (XO (XI (XO (XO (XO (XO (XO (XO (XO
            XH))))))))))))))))
        (N.eqb c (Npos (XI (XI (XI (XI (XO (XI (XO (XO (XO (XO (XO (XO (XO
          XH))))))))))))))))
      (N.eqb c (Npos (XI (XI (XI (XI (XI (XO (XI (XO (XO (XO (XO (XO (XO
        XH))))))))))))))))
    (N.eqb c (Npos (XO (XO (XO (XO (XO (XO (XO (XO (XO (XO (XO (XO (XI
      XH)))))))))))))))

(** val eqb_text : text -> text -> bool **)

let rec eqb_text a b =
  match a with
  | [] -> (match b with
           | [] -> true
           | _ :: _ -> false)
  | x :: a' ->
    (match b with
     | [] -> false
     | y :: b' -> (&&) (N.eqb x y) (eqb_text a' b'))

(** val t : string -> text **)

let t s =
  map n_of_ascii (list_ascii_of_string s)

(** val s_semi : text **)

let s_semi =
  (Npos (XI (XI (XO (XI (XI XH)))))) :: []

(** val s_comma : text **)

let s_comma =
  (Npos (XO (XO (XI (XI (XO XH)))))) :: []

(** val s_colon : text **)

let s_colon =
  (Npos (XO (XI (XO (XI (XI XH)))))) :: []

(** val s_coloncolon : text **)

let s_coloncolon =
  (Npos (XO (XI (XO (XI (XI XH)))))) :: ((Npos (XO (XI (XO (XI (XI
    XH)))))) :: [])

(** val s_arrow : text **)

let s_arrow =
  (Npos (XI (XO (XI (XI (XO XH)))))) :: ((Npos (XO (XI (XI (XI (XI
    XH)))))) :: [])

(** val s_fatarrow : text **)

let s_fatarrow =
  (Npos (XI (XO (XI (XI (XI XH)))))) :: ((Npos (XO (XI (XI (XI (XI
    XH)))))) :: [])

(** val s_lt : text **)

let s_lt =
  (Npos (XO (XO (XI (XI (XI XH)))))) :: []

(** val s_gt : text **)

let s_gt =
  (Npos (XO (XI (XI (XI (XI XH)))))) :: []

(** val s_eq : text **)

let s_eq =
  (Npos (XI (XO (XI (XI (XI XH)))))) :: []

(** val s_bang : text **)

let s_bang =
  (Npos (XI (XO (XO (XO (XO XH)))))) :: []

(** val s_quest : text **)

let s_quest =
  (Npos (XI (XI (XI (XI (XI XH)))))) :: []

(** val s_dollar : text **)

let s_dollar =
  (Npos (XO (XO (XI (XO (XO XH)))))) :: []

(** val s_hash : text **)

let s_hash =
  (Npos (XI (XI (XO (XO (XO XH)))))) :: []

(** val s_pipe : text **)

let s_pipe =
  (Npos (XO (XO (XI (XI (XI (XI XH))))))) :: []

(** val s_dot : text **)

let s_dot =
  (Npos (XO (XI (XI (XI (XO XH)))))) :: []

(** val s_star : text **)

let s_star =
  (Npos (XO (XI (XO (XI (XO XH)))))) :: []

(** val s_lparen : text **)

let s_lparen =
  (Npos (XO (XO (XO (XI (XO XH)))))) :: []

(** val s_rparen : text **)

let s_rparen =
  (Npos (XI (XO (XO (XI (XO XH)))))) :: []

(** val s_lbrack : text **)

let s_lbrack =
  (Npos (XI (XI (XO (XI (XI (XO XH))))))) :: []

(** val s_rbrack : text **)

let s_rbrack =
  (Npos (XI (XO (XI (XI (XI (XO XH))))))) :: []

(** val s_lbrace : text **)

let s_lbrace =
  (Npos (XI (XI (XO (XI (XI (XI XH))))))) :: []

(** val s_rbrace : text **)

let s_rbrace =
  (Npos (XI (XO (XI (XI (XI (XI XH))))))) :: []

(** val s_andand : text **)

let s_andand =
  (Npos (XO (XI (XI (XO (XO XH)))))) :: ((Npos (XO (XI (XI (XO (XO
    XH)))))) :: [])

(** val s_oror : text **)

let s_oror =
  (Npos (XO (XO (XI (XI (XI (XI XH))))))) :: ((Npos (XO (XO (XI (XI (XI (XI
    XH))))))) :: [])

(** val s_where : text **)

let s_where =
  (Npos (XI (XI (XI (XO (XI (XI XH))))))) :: ((Npos (XO (XO (XO (XI (XO (XI
    XH))))))) :: ((Npos (XI (XO (XI (XO (XO (XI XH))))))) :: ((Npos (XO (XI
    (XO (XO (XI (XI XH))))))) :: ((Npos (XI (XO (XI (XO (XO (XI
    XH))))))) :: []))))

(** val s_for : text **)

let s_for =
  (Npos (XO (XI (XI (XO (XO (XI XH))))))) :: ((Npos (XI (XI (XI (XI (XO (XI
    XH))))))) :: ((Npos (XO (XI (XO (XO (XI (XI XH))))))) :: []))

(** val s_extern : text **)

let s_extern =
  (Npos (XI (XO (XI (XO (XO (XI XH))))))) :: ((Npos (XO (XO (XO (XI (XI (XI
    XH))))))) :: ((Npos (XO (XO (XI (XO (XI (XI XH))))))) :: ((Npos (XI (XO
    (XI (XO (XO (XI XH))))))) :: ((Npos (XO (XI (XO (XO (XI (XI
    XH))))))) :: ((Npos (XO (XI (XI (XI (XO (XI XH))))))) :: [])))))

(** val s_crate : text **)

let s_crate =
  (Npos (XI (XI (XO (XO (XO (XI XH))))))) :: ((Npos (XO (XI (XO (XO (XI (XI
    XH))))))) :: ((Npos (XI (XO (XO (XO (XO (XI XH))))))) :: ((Npos (XO (XO
    (XI (XO (XI (XI XH))))))) :: ((Npos (XI (XO (XI (XO (XO (XI
    XH))))))) :: []))))

(** val s_self : text **)

let s_self =
  (Npos (XI (XI (XO (XO (XI (XI XH))))))) :: ((Npos (XI (XO (XI (XO (XO (XI
    XH))))))) :: ((Npos (XO (XO (XI (XI (XO (XI XH))))))) :: ((Npos (XO (XI
    (XI (XO (XO (XI XH))))))) :: [])))

(** val s_Self : text **)

let s_Self =
  (Npos (XI (XI (XO (XO (XI (XO XH))))))) :: ((Npos (XI (XO (XI (XO (XO (XI
    XH))))))) :: ((Npos (XO (XO (XI (XI (XO (XI XH))))))) :: ((Npos (XO (XI
    (XI (XO (XO (XI XH))))))) :: [])))

(** val s_super : text **)

let s_super =
  (Npos (XI (XI (XO (XO (XI (XI XH))))))) :: ((Npos (XI (XO (XI (XO (XI (XI
    XH))))))) :: ((Npos (XO (XO (XO (XO (XI (XI XH))))))) :: ((Npos (XI (XO
    (XI (XO (XO (XI XH))))))) :: ((Npos (XO (XI (XO (XO (XI (XI
    XH))))))) :: []))))

(** val s_fn : text **)

let s_fn =
  (Npos (XO (XI (XI (XO (XO (XI XH))))))) :: ((Npos (XO (XI (XI (XI (XO (XI
    XH))))))) :: [])

(** val s_pub : text **)

let s_pub =
  (Npos (XO (XO (XO (XO (XI (XI XH))))))) :: ((Npos (XI (XO (XI (XO (XI (XI
    XH))))))) :: ((Npos (XO (XI (XO (XO (XO (XI XH))))))) :: []))

(** val s_in : text **)

let s_in =
  (Npos (XI (XO (XO (XI (XO (XI XH))))))) :: ((Npos (XO (XI (XI (XI (XO (XI
    XH))))))) :: [])

(** val s_use : text **)

let s_use =
  (Npos (XI (XO (XI (XO (XI (XI XH))))))) :: ((Npos (XI (XI (XO (XO (XI (XI
    XH))))))) :: ((Npos (XI (XO (XI (XO (XO (XI XH))))))) :: []))

(** val s_mod : text **)

let s_mod =
  (Npos (XI (XO (XI (XI (XO (XI XH))))))) :: ((Npos (XI (XI (XI (XI (XO (XI
    XH))))))) :: ((Npos (XO (XO (XI (XO (XO (XI XH))))))) :: []))

(** val s_as : text **)

let s_as =
  (Npos (XI (XO (XO (XO (XO (XI XH))))))) :: ((Npos (XI (XI (XO (XO (XI (XI
    XH))))))) :: [])

(** val s_let : text **)

let s_let =
  (Npos (XO (XO (XI (XI (XO (XI XH))))))) :: ((Npos (XI (XO (XI (XO (XO (XI
    XH))))))) :: ((Npos (XO (XO (XI (XO (XI (XI XH))))))) :: []))

(** val s_struct : text **)

let s_struct =
  (Npos (XI (XI (XO (XO (XI (XI XH))))))) :: ((Npos (XO (XO (XI (XO (XI (XI
    XH))))))) :: ((Npos (XO (XI (XO (XO (XI (XI XH))))))) :: ((Npos (XI (XO
    (XI (XO (XI (XI XH))))))) :: ((Npos (XI (XI (XO (XO (XO (XI
    XH))))))) :: ((Npos (XO (XO (XI (XO (XI (XI XH))))))) :: [])))))

(** val s_enum : text **)

let s_enum =
  (Npos (XI (XO (XI (XO (XO (XI XH))))))) :: ((Npos (XO (XI (XI (XI (XO (XI
    XH))))))) :: ((Npos (XI (XO (XI (XO (XI (XI XH))))))) :: ((Npos (XI (XO
    (XI (XI (XO (XI XH))))))) :: [])))

(** val s_impl : text **)

let s_impl =
  (Npos (XI (XO (XO (XI (XO (XI XH))))))) :: ((Npos (XI (XO (XI (XI (XO (XI
    XH))))))) :: ((Npos (XO (XO (XO (XO (XI (XI XH))))))) :: ((Npos (XO (XO
    (XI (XI (XO (XI XH))))))) :: [])))

(** val s_trait : text **)

let s_trait =
  (Npos (XO (XO (XI (XO (XI (XI XH))))))) :: ((Npos (XO (XI (XO (XO (XI (XI
    XH))))))) :: ((Npos (XI (XO (XO (XO (XO (XI XH))))))) :: ((Npos (XI (XO
    (XO (XI (XO (XI XH))))))) :: ((Npos (XO (XO (XI (XO (XI (XI
    XH))))))) :: []))))

(** val s_type : text **)

let s_type =
  (Npos (XO (XO (XI (XO (XI (XI XH))))))) :: ((Npos (XI (XO (XO (XI (XI (XI
    XH))))))) :: ((Npos (XO (XO (XO (XO (XI (XI XH))))))) :: ((Npos (XI (XO
    (XI (XO (XO (XI XH))))))) :: [])))

(** val s_const : text **)

let s_const =
  (Npos (XI (XI (XO (XO (XO (XI XH))))))) :: ((Npos (XI (XI (XI (XI (XO (XI
    XH))))))) :: ((Npos (XO (XI (XI (XI (XO (XI XH))))))) :: ((Npos (XI (XI
    (XO (XO (XI (XI XH))))))) :: ((Npos (XO (XO (XI (XO (XI (XI
    XH))))))) :: []))))

(** val s_static : text **)

let s_static =
  (Npos (XI (XI (XO (XO (XI (XI XH))))))) :: ((Npos (XO (XO (XI (XO (XI (XI
    XH))))))) :: ((Npos (XI (XO (XO (XO (XO (XI XH))))))) :: ((Npos (XO (XO
    (XI (XO (XI (XI XH))))))) :: ((Npos (XI (XO (XO (XI (XO (XI
    XH))))))) :: ((Npos (XI (XI (XO (XO (XO (XI XH))))))) :: [])))))

(** val s_move : text **)

let s_move =
  (Npos (XI (XO (XI (XI (XO (XI XH))))))) :: ((Npos (XI (XI (XI (XI (XO (XI
    XH))))))) :: ((Npos (XO (XI (XI (XO (XI (XI XH))))))) :: ((Npos (XI (XO
    (XI (XO (XO (XI XH))))))) :: [])))

(** val s_return : text **)

let s_return =
  (Npos (XO (XI (XO (XO (XI (XI XH))))))) :: ((Npos (XI (XO (XI (XO (XO (XI
    XH))))))) :: ((Npos (XO (XO (XI (XO (XI (XI XH))))))) :: ((Npos (XI (XO
    (XI (XO (XI (XI XH))))))) :: ((Npos (XO (XI (XO (XO (XI (XI
    XH))))))) :: ((Npos (XO (XI (XI (XI (XO (XI XH))))))) :: [])))))

(** val s_break : text **)

let s_break =
  (Npos (XO (XI (XO (XO (XO (XI XH))))))) :: ((Npos (XO (XI (XO (XO (XI (XI
    XH))))))) :: ((Npos (XI (XO (XI (XO (XO (XI XH))))))) :: ((Npos (XI (XO
    (XO (XO (XO (XI XH))))))) :: ((Npos (XI (XI (XO (XI (XO (XI
    XH))))))) :: []))))

(** val s_continue : text **)

let s_continue =
  (Npos (XI (XI (XO (XO (XO (XI XH))))))) :: ((Npos (XI (XI (XI (XI (XO (XI
    XH))))))) :: ((Npos (XO (XI (XI (XI (XO (XI XH))))))) :: ((Npos (XO (XO
    (XI (XO (XI (XI XH))))))) :: ((Npos (XI (XO (XO (XI (XO (XI
    XH))))))) :: ((Npos (XO (XI (XI (XI (XO (XI XH))))))) :: ((Npos (XI (XO
    (XI (XO (XI (XI XH))))))) :: ((Npos (XI (XO (XI (XO (XO (XI
    XH))))))) :: [])))))))

(** val s_async : text **)

let s_async =
  (Npos (XI (XO (XO (XO (XO (XI XH))))))) :: ((Npos (XI (XI (XO (XO (XI (XI
    XH))))))) :: ((Npos (XI (XO (XO (XI (XI (XI XH))))))) :: ((Npos (XO (XI
    (XI (XI (XO (XI XH))))))) :: ((Npos (XI (XI (XO (XO (XO (XI
    XH))))))) :: []))))

(** val s_macro_rules : text **)

let s_macro_rules =
  (Npos (XI (XO (XI (XI (XO (XI XH))))))) :: ((Npos (XI (XO (XO (XO (XO (XI
    XH))))))) :: ((Npos (XI (XI (XO (XO (XO (XI XH))))))) :: ((Npos (XO (XI
    (XO (XO (XI (XI XH))))))) :: ((Npos (XI (XI (XI (XI (XO (XI
    XH))))))) :: ((Npos (XI (XI (XI (XI (XI (XO XH))))))) :: ((Npos (XO (XI
    (XO (XO (XI (XI XH))))))) :: ((Npos (XI (XO (XI (XO (XI (XI
    XH))))))) :: ((Npos (XO (XO (XI (XI (XO (XI XH))))))) :: ((Npos (XI (XO
    (XI (XO (XO (XI XH))))))) :: ((Npos (XI (XI (XO (XO (XI (XI
    XH))))))) :: []))))))))))

(** val s_macro_use : text **)

let s_macro_use =
  (Npos (XI (XO (XI (XI (XO (XI XH))))))) :: ((Npos (XI (XO (XO (XO (XO (XI
    XH))))))) :: ((Npos (XI (XI (XO (XO (XO (XI XH))))))) :: ((Npos (XO (XI
    (XO (XO (XI (XI XH))))))) :: ((Npos (XI (XI (XI (XI (XO (XI
    XH))))))) :: ((Npos (XI (XI (XI (XI (XI (XO XH))))))) :: ((Npos (XI (XO
    (XI (XO (XI (XI XH))))))) :: ((Npos (XI (XI (XO (XO (XI (XI
    XH))))))) :: ((Npos (XI (XO (XI (XO (XO (XI XH))))))) :: []))))))))

(** val s_derive : text **)

let s_derive =
  (Npos (XO (XO (XI (XO (XO (XI XH))))))) :: ((Npos (XI (XO (XI (XO (XO (XI
    XH))))))) :: ((Npos (XO (XI (XO (XO (XI (XI XH))))))) :: ((Npos (XI (XO
    (XO (XI (XO (XI XH))))))) :: ((Npos (XO (XI (XI (XO (XI (XI
    XH))))))) :: ((Npos (XI (XO (XI (XO (XO (XI XH))))))) :: [])))))

(** val s_abiC : text **)

let s_abiC =
  (Npos (XO (XI (XO (XO (XO XH)))))) :: ((Npos (XI (XI (XO (XO (XO (XO
    XH))))))) :: ((Npos (XO (XI (XO (XO (XO XH)))))) :: []))

(** val s_DOC : text **)

let s_DOC =
  (Npos (XO (XO (XI (XO (XO (XO XH))))))) :: ((Npos (XI (XI (XI (XI (XO (XO
    XH))))))) :: ((Npos (XI (XI (XO (XO (XO (XO XH))))))) :: ((Npos (XO (XI
    (XO (XI (XI XH)))))) :: [])))

(** val s_DOCdli : text **)

let s_DOCdli =
  (Npos (XO (XO (XI (XO (XO (XO XH))))))) :: ((Npos (XI (XI (XI (XI (XO (XO
    XH))))))) :: ((Npos (XI (XI (XO (XO (XO (XO XH))))))) :: ((Npos (XO (XI
    (XO (XI (XI XH)))))) :: ((Npos (XO (XO (XI (XO (XO (XI
    XH))))))) :: ((Npos (XO (XO (XI (XI (XO (XI XH))))))) :: ((Npos (XI (XO
    (XO (XI (XO (XI XH))))))) :: []))))))

(** val s_DOCdbi : text **)

let s_DOCdbi =
  (Npos (XO (XO (XI (XO (XO (XO XH))))))) :: ((Npos (XI (XI (XI (XI (XO (XO
    XH))))))) :: ((Npos (XI (XI (XO (XO (XO (XO XH))))))) :: ((Npos (XO (XI
    (XO (XI (XI XH)))))) :: ((Npos (XO (XO (XI (XO (XO (XI
    XH))))))) :: ((Npos (XO (XI (XO (XO (XO (XI XH))))))) :: ((Npos (XI (XO
    (XO (XI (XO (XI XH))))))) :: []))))))

(** val s_DOCdlo : text **)

let s_DOCdlo =
  (Npos (XO (XO (XI (XO (XO (XO XH))))))) :: ((Npos (XI (XI (XI (XI (XO (XO
    XH))))))) :: ((Npos (XI (XI (XO (XO (XO (XO XH))))))) :: ((Npos (XO (XI
    (XO (XI (XI XH)))))) :: ((Npos (XO (XO (XI (XO (XO (XI
    XH))))))) :: ((Npos (XO (XO (XI (XI (XO (XI XH))))))) :: ((Npos (XI (XI
    (XI (XI (XO (XI XH))))))) :: []))))))

(** val s_DOCdbo : text **)

let s_DOCdbo =
  (Npos (XO (XO (XI (XO (XO (XO XH))))))) :: ((Npos (XI (XI (XI (XI (XO (XO
    XH))))))) :: ((Npos (XI (XI (XO (XO (XO (XO XH))))))) :: ((Npos (XO (XI
    (XO (XI (XI XH)))))) :: ((Npos (XO (XO (XI (XO (XO (XI
    XH))))))) :: ((Npos (XO (XI (XO (XO (XO (XI XH))))))) :: ((Npos (XI (XI
    (XI (XI (XO (XI XH))))))) :: []))))))

(** val s_starslash : text **)

let s_starslash =
  (Npos (XO (XI (XO (XI (XO XH)))))) :: ((Npos (XI (XI (XI (XI (XO
    XH)))))) :: [])

(** val s_0x : text **)

let s_0x =
  (Npos (XO (XO (XO (XO (XI XH)))))) :: ((Npos (XO (XO (XO (XI (XI (XI
    XH))))))) :: [])

(** val s_sp_as_sp : text **)

let s_sp_as_sp =
  (Npos (XO (XO (XO (XO (XO XH)))))) :: ((Npos (XI (XO (XO (XO (XO (XI
    XH))))))) :: ((Npos (XI (XI (XO (XO (XI (XI XH))))))) :: ((Npos (XO (XO
    (XO (XO (XO XH)))))) :: [])))

(** val s_USE : text **)

let s_USE =
  (Npos (XI (XO (XI (XO (XI (XO XH))))))) :: ((Npos (XI (XI (XO (XO (XI (XO
    XH))))))) :: ((Npos (XI (XO (XI (XO (XO (XO XH))))))) :: ((Npos (XI (XI
    (XO (XI (XI (XO XH))))))) :: [])))

(** val s_ITEM : text **)

let s_ITEM =
  (Npos (XI (XO (XO (XI (XO (XO XH))))))) :: ((Npos (XO (XO (XI (XO (XI (XO
    XH))))))) :: ((Npos (XI (XO (XI (XO (XO (XO XH))))))) :: ((Npos (XI (XO
    (XI (XI (XO (XO XH))))))) :: ((Npos (XI (XI (XO (XI (XI (XO
    XH))))))) :: []))))

(** val s_rb_lb : text **)

let s_rb_lb =
  (Npos (XI (XO (XI (XI (XI (XO XH))))))) :: ((Npos (XI (XI (XO (XI (XI (XI
    XH))))))) :: [])

(** val s_semi_sp : text **)

let s_semi_sp =
  (Npos (XI (XI (XO (XI (XI XH)))))) :: ((Npos (XO (XO (XO (XO (XO
    XH)))))) :: [])

(** val kEYWORDS : text list **)

let kEYWORDS =
  ((Npos (XI (XO (XO (XO (XO (XI XH))))))) :: ((Npos (XI (XI (XO (XO (XI (XI
    XH))))))) :: [])) :: (((Npos (XO (XI (XO (XO (XO (XI XH))))))) :: ((Npos
    (XO (XI (XO (XO (XI (XI XH))))))) :: ((Npos (XI (XO (XI (XO (XO (XI
    XH))))))) :: ((Npos (XI (XO (XO (XO (XO (XI XH))))))) :: ((Npos (XI (XI
    (XO (XI (XO (XI XH))))))) :: []))))) :: (((Npos (XI (XI (XO (XO (XO (XI
    XH))))))) :: ((Npos (XI (XI (XI (XI (XO (XI XH))))))) :: ((Npos (XO (XI
    (XI (XI (XO (XI XH))))))) :: ((Npos (XI (XI (XO (XO (XI (XI
    XH))))))) :: ((Npos (XO (XO (XI (XO (XI (XI
    XH))))))) :: []))))) :: (((Npos (XI (XI (XO (XO (XO (XI
    XH))))))) :: ((Npos (XI (XI (XI (XI (XO (XI XH))))))) :: ((Npos (XO (XI
    (XI (XI (XO (XI XH))))))) :: ((Npos (XO (XO (XI (XO (XI (XI
    XH))))))) :: ((Npos (XI (XO (XO (XI (XO (XI XH))))))) :: ((Npos (XO (XI
    (XI (XI (XO (XI XH))))))) :: ((Npos (XI (XO (XI (XO (XI (XI
    XH))))))) :: ((Npos (XI (XO (XI (XO (XO (XI
    XH))))))) :: [])))))))) :: (((Npos (XI (XI (XO (XO (XO (XI
    XH))))))) :: ((Npos (XO (XI (XO (XO (XI (XI XH))))))) :: ((Npos (XI (XO
    (XO (XO (XO (XI XH))))))) :: ((Npos (XO (XO (XI (XO (XI (XI
    XH))))))) :: ((Npos (XI (XO (XI (XO (XO (XI
    XH))))))) :: []))))) :: (((Npos (XI (XO (XI (XO (XO (XI
    XH))))))) :: ((Npos (XO (XO (XI (XI (XO (XI XH))))))) :: ((Npos (XI (XI
    (XO (XO (XI (XI XH))))))) :: ((Npos (XI (XO (XI (XO (XO (XI
    XH))))))) :: [])))) :: (((Npos (XI (XO (XI (XO (XO (XI
    XH))))))) :: ((Npos (XO (XI (XI (XI (XO (XI XH))))))) :: ((Npos (XI (XO
    (XI (XO (XI (XI XH))))))) :: ((Npos (XI (XO (XI (XI (XO (XI
    XH))))))) :: [])))) :: (((Npos (XI (XO (XI (XO (XO (XI
    XH))))))) :: ((Npos (XO (XO (XO (XI (XI (XI XH))))))) :: ((Npos (XO (XO
    (XI (XO (XI (XI XH))))))) :: ((Npos (XI (XO (XI (XO (XO (XI
    XH))))))) :: ((Npos (XO (XI (XO (XO (XI (XI XH))))))) :: ((Npos (XO (XI
    (XI (XI (XO (XI XH))))))) :: [])))))) :: (((Npos (XO (XI (XI (XO (XO (XI
    XH))))))) :: ((Npos (XI (XO (XO (XO (XO (XI XH))))))) :: ((Npos (XO (XO
    (XI (XI (XO (XI XH))))))) :: ((Npos (XI (XI (XO (XO (XI (XI
    XH))))))) :: ((Npos (XI (XO (XI (XO (XO (XI
    XH))))))) :: []))))) :: (((Npos (XO (XI (XI (XO (XO (XI
    XH))))))) :: ((Npos (XO (XI (XI (XI (XO (XI XH))))))) :: [])) :: (((Npos
    (XO (XI (XI (XO (XO (XI XH))))))) :: ((Npos (XI (XI (XI (XI (XO (XI
    XH))))))) :: ((Npos (XO (XI (XO (XO (XI (XI XH))))))) :: []))) :: (((Npos
    (XI (XO (XO (XI (XO (XI XH))))))) :: ((Npos (XO (XI (XI (XO (XO (XI
    XH))))))) :: [])) :: (((Npos (XI (XO (XO (XI (XO (XI XH))))))) :: ((Npos
    (XI (XO (XI (XI (XO (XI XH))))))) :: ((Npos (XO (XO (XO (XO (XI (XI
    XH))))))) :: ((Npos (XO (XO (XI (XI (XO (XI
    XH))))))) :: [])))) :: (((Npos (XI (XO (XO (XI (XO (XI
    XH))))))) :: ((Npos (XO (XI (XI (XI (XO (XI XH))))))) :: [])) :: (((Npos
    (XO (XO (XI (XI (XO (XI XH))))))) :: ((Npos (XI (XO (XI (XO (XO (XI
    XH))))))) :: ((Npos (XO (XO (XI (XO (XI (XI XH))))))) :: []))) :: (((Npos
    (XO (XO (XI (XI (XO (XI XH))))))) :: ((Npos (XI (XI (XI (XI (XO (XI
    XH))))))) :: ((Npos (XI (XI (XI (XI (XO (XI XH))))))) :: ((Npos (XO (XO
    (XO (XO (XI (XI XH))))))) :: [])))) :: (((Npos (XI (XO (XI (XI (XO (XI
    XH))))))) :: ((Npos (XI (XO (XO (XO (XO (XI XH))))))) :: ((Npos (XO (XO
    (XI (XO (XI (XI XH))))))) :: ((Npos (XI (XI (XO (XO (XO (XI
    XH))))))) :: ((Npos (XO (XO (XO (XI (XO (XI
    XH))))))) :: []))))) :: (((Npos (XI (XO (XI (XI (XO (XI
    XH))))))) :: ((Npos (XI (XI (XI (XI (XO (XI XH))))))) :: ((Npos (XO (XO
    (XI (XO (XO (XI XH))))))) :: []))) :: (((Npos (XI (XO (XI (XI (XO (XI
    XH))))))) :: ((Npos (XI (XI (XI (XI (XO (XI XH))))))) :: ((Npos (XO (XI
    (XI (XO (XI (XI XH))))))) :: ((Npos (XI (XO (XI (XO (XO (XI
    XH))))))) :: [])))) :: (((Npos (XI (XO (XI (XI (XO (XI
    XH))))))) :: ((Npos (XI (XO (XI (XO (XI (XI XH))))))) :: ((Npos (XO (XO
    (XI (XO (XI (XI XH))))))) :: []))) :: (((Npos (XO (XO (XO (XO (XI (XI
    XH))))))) :: ((Npos (XI (XO (XI (XO (XI (XI XH))))))) :: ((Npos (XO (XI
    (XO (XO (XO (XI XH))))))) :: []))) :: (((Npos (XO (XI (XO (XO (XI (XI
    XH))))))) :: ((Npos (XI (XO (XI (XO (XO (XI XH))))))) :: ((Npos (XO (XI
    (XI (XO (XO (XI XH))))))) :: []))) :: (((Npos (XO (XI (XO (XO (XI (XI
    XH))))))) :: ((Npos (XI (XO (XI (XO (XO (XI XH))))))) :: ((Npos (XO (XO
    (XI (XO (XI (XI XH))))))) :: ((Npos (XI (XO (XI (XO (XI (XI
    XH))))))) :: ((Npos (XO (XI (XO (XO (XI (XI XH))))))) :: ((Npos (XO (XI
    (XI (XI (XO (XI XH))))))) :: [])))))) :: (((Npos (XI (XI (XO (XO (XI (XI
    XH))))))) :: ((Npos (XI (XO (XI (XO (XO (XI XH))))))) :: ((Npos (XO (XO
    (XI (XI (XO (XI XH))))))) :: ((Npos (XO (XI (XI (XO (XO (XI
    XH))))))) :: [])))) :: (((Npos (XI (XI (XO (XO (XI (XO
    XH))))))) :: ((Npos (XI (XO (XI (XO (XO (XI XH))))))) :: ((Npos (XO (XO
    (XI (XI (XO (XI XH))))))) :: ((Npos (XO (XI (XI (XO (XO (XI
    XH))))))) :: [])))) :: (((Npos (XI (XI (XO (XO (XI (XI
    XH))))))) :: ((Npos (XO (XO (XI (XO (XI (XI XH))))))) :: ((Npos (XI (XO
    (XO (XO (XO (XI XH))))))) :: ((Npos (XO (XO (XI (XO (XI (XI
    XH))))))) :: ((Npos (XI (XO (XO (XI (XO (XI XH))))))) :: ((Npos (XI (XI
    (XO (XO (XO (XI XH))))))) :: [])))))) :: (((Npos (XI (XI (XO (XO (XI (XI
    XH))))))) :: ((Npos (XO (XO (XI (XO (XI (XI XH))))))) :: ((Npos (XO (XI
    (XO (XO (XI (XI XH))))))) :: ((Npos (XI (XO (XI (XO (XI (XI
    XH))))))) :: ((Npos (XI (XI (XO (XO (XO (XI XH))))))) :: ((Npos (XO (XO
    (XI (XO (XI (XI XH))))))) :: [])))))) :: (((Npos (XI (XI (XO (XO (XI (XI
    XH))))))) :: ((Npos (XI (XO (XI (XO (XI (XI XH))))))) :: ((Npos (XO (XO
    (XO (XO (XI (XI XH))))))) :: ((Npos (XI (XO (XI (XO (XO (XI
    XH))))))) :: ((Npos (XO (XI (XO (XO (XI (XI
    XH))))))) :: []))))) :: (((Npos (XO (XO (XI (XO (XI (XI
    XH))))))) :: ((Npos (XO (XI (XO (XO (XI (XI XH))))))) :: ((Npos (XI (XO
    (XO (XO (XO (XI XH))))))) :: ((Npos (XI (XO (XO (XI (XO (XI
    XH))))))) :: ((Npos (XO (XO (XI (XO (XI (XI
    XH))))))) :: []))))) :: (((Npos (XO (XO (XI (XO (XI (XI
    XH))))))) :: ((Npos (XO (XI (XO (XO (XI (XI XH))))))) :: ((Npos (XI (XO
    (XI (XO (XI (XI XH))))))) :: ((Npos (XI (XO (XI (XO (XO (XI
    XH))))))) :: [])))) :: (((Npos (XO (XO (XI (XO (XI (XI
    XH))))))) :: ((Npos (XI (XO (XO (XI (XI (XI XH))))))) :: ((Npos (XO (XO
    (XO (XO (XI (XI XH))))))) :: ((Npos (XI (XO (XI (XO (XO (XI
    XH))))))) :: [])))) :: (((Npos (XI (XO (XI (XO (XI (XI
    XH))))))) :: ((Npos (XO (XI (XI (XI (XO (XI XH))))))) :: ((Npos (XI (XI
    (XO (XO (XI (XI XH))))))) :: ((Npos (XI (XO (XO (XO (XO (XI
    XH))))))) :: ((Npos (XO (XI (XI (XO (XO (XI XH))))))) :: ((Npos (XI (XO
    (XI (XO (XO (XI XH))))))) :: [])))))) :: (((Npos (XI (XO (XI (XO (XI (XI
    XH))))))) :: ((Npos (XI (XI (XO (XO (XI (XI XH))))))) :: ((Npos (XI (XO
    (XI (XO (XO (XI XH))))))) :: []))) :: (((Npos (XI (XI (XI (XO (XI (XI
    XH))))))) :: ((Npos (XO (XO (XO (XI (XO (XI XH))))))) :: ((Npos (XI (XO
    (XI (XO (XO (XI XH))))))) :: ((Npos (XO (XI (XO (XO (XI (XI
    XH))))))) :: ((Npos (XI (XO (XI (XO (XO (XI
    XH))))))) :: []))))) :: (((Npos (XI (XI (XI (XO (XI (XI
    XH))))))) :: ((Npos (XO (XO (XO (XI (XO (XI XH))))))) :: ((Npos (XI (XO
    (XO (XI (XO (XI XH))))))) :: ((Npos (XO (XO (XI (XI (XO (XI
    XH))))))) :: ((Npos (XI (XO (XI (XO (XO (XI
    XH))))))) :: []))))) :: (((Npos (XI (XO (XO (XO (XO (XI
    XH))))))) :: ((Npos (XI (XI (XO (XO (XI (XI XH))))))) :: ((Npos (XI (XO
    (XO (XI (XI (XI XH))))))) :: ((Npos (XO (XI (XI (XI (XO (XI
    XH))))))) :: ((Npos (XI (XI (XO (XO (XO (XI
    XH))))))) :: []))))) :: (((Npos (XI (XO (XO (XO (XO (XI
    XH))))))) :: ((Npos (XI (XI (XI (XO (XI (XI XH))))))) :: ((Npos (XI (XO
    (XO (XO (XO (XI XH))))))) :: ((Npos (XI (XO (XO (XI (XO (XI
    XH))))))) :: ((Npos (XO (XO (XI (XO (XI (XI
    XH))))))) :: []))))) :: (((Npos (XO (XO (XI (XO (XO (XI
    XH))))))) :: ((Npos (XI (XO (XO (XI (XI (XI XH))))))) :: ((Npos (XO (XI
    (XI (XI (XO (XI XH))))))) :: []))) :: (((Npos (XI (XO (XO (XO (XO (XI
    XH))))))) :: ((Npos (XO (XI (XO (XO (XO (XI XH))))))) :: ((Npos (XI (XI
    (XO (XO (XI (XI XH))))))) :: ((Npos (XO (XO (XI (XO (XI (XI
    XH))))))) :: ((Npos (XO (XI (XO (XO (XI (XI XH))))))) :: ((Npos (XI (XO
    (XO (XO (XO (XI XH))))))) :: ((Npos (XI (XI (XO (XO (XO (XI
    XH))))))) :: ((Npos (XO (XO (XI (XO (XI (XI
    XH))))))) :: [])))))))) :: (((Npos (XO (XI (XO (XO (XO (XI
    XH))))))) :: ((Npos (XI (XO (XI (XO (XO (XI XH))))))) :: ((Npos (XI (XI
    (XO (XO (XO (XI XH))))))) :: ((Npos (XI (XI (XI (XI (XO (XI
    XH))))))) :: ((Npos (XI (XO (XI (XI (XO (XI XH))))))) :: ((Npos (XI (XO
    (XI (XO (XO (XI XH))))))) :: [])))))) :: (((Npos (XO (XI (XO (XO (XO (XI
    XH))))))) :: ((Npos (XI (XI (XI (XI (XO (XI XH))))))) :: ((Npos (XO (XO
    (XO (XI (XI (XI XH))))))) :: []))) :: (((Npos (XO (XO (XI (XO (XO (XI
    XH))))))) :: ((Npos (XI (XI (XI (XI (XO (XI XH))))))) :: [])) :: (((Npos
    (XO (XI (XI (XO (XO (XI XH))))))) :: ((Npos (XI (XO (XO (XI (XO (XI
    XH))))))) :: ((Npos (XO (XI (XI (XI (XO (XI XH))))))) :: ((Npos (XI (XO
    (XO (XO (XO (XI XH))))))) :: ((Npos (XO (XO (XI (XI (XO (XI
    XH))))))) :: []))))) :: (((Npos (XI (XO (XI (XI (XO (XI
    XH))))))) :: ((Npos (XI (XO (XO (XO (XO (XI XH))))))) :: ((Npos (XI (XI
    (XO (XO (XO (XI XH))))))) :: ((Npos (XO (XI (XO (XO (XI (XI
    XH))))))) :: ((Npos (XI (XI (XI (XI (XO (XI
    XH))))))) :: []))))) :: (((Npos (XI (XI (XI (XI (XO (XI
    XH))))))) :: ((Npos (XO (XI (XI (XO (XI (XI XH))))))) :: ((Npos (XI (XO
    (XI (XO (XO (XI XH))))))) :: ((Npos (XO (XI (XO (XO (XI (XI
    XH))))))) :: ((Npos (XO (XI (XO (XO (XI (XI XH))))))) :: ((Npos (XI (XO
    (XO (XI (XO (XI XH))))))) :: ((Npos (XO (XO (XI (XO (XO (XI
    XH))))))) :: ((Npos (XI (XO (XI (XO (XO (XI
    XH))))))) :: [])))))))) :: (((Npos (XO (XO (XO (XO (XI (XI
    XH))))))) :: ((Npos (XO (XI (XO (XO (XI (XI XH))))))) :: ((Npos (XI (XO
    (XO (XI (XO (XI XH))))))) :: ((Npos (XO (XI (XI (XO (XI (XI
    XH))))))) :: [])))) :: (((Npos (XO (XO (XI (XO (XI (XI
    XH))))))) :: ((Npos (XI (XO (XO (XI (XI (XI XH))))))) :: ((Npos (XO (XO
    (XO (XO (XI (XI XH))))))) :: ((Npos (XI (XO (XI (XO (XO (XI
    XH))))))) :: ((Npos (XI (XI (XI (XI (XO (XI XH))))))) :: ((Npos (XO (XI
    (XI (XO (XO (XI XH))))))) :: [])))))) :: (((Npos (XI (XO (XI (XO (XI (XI
    XH))))))) :: ((Npos (XO (XI (XI (XI (XO (XI XH))))))) :: ((Npos (XI (XI
    (XO (XO (XI (XI XH))))))) :: ((Npos (XI (XO (XO (XI (XO (XI
    XH))))))) :: ((Npos (XO (XI (XO (XI (XI (XI XH))))))) :: ((Npos (XI (XO
    (XI (XO (XO (XI XH))))))) :: ((Npos (XO (XO (XI (XO (XO (XI
    XH))))))) :: []))))))) :: (((Npos (XO (XI (XI (XO (XI (XI
    XH))))))) :: ((Npos (XI (XO (XO (XI (XO (XI XH))))))) :: ((Npos (XO (XI
    (XO (XO (XI (XI XH))))))) :: ((Npos (XO (XO (XI (XO (XI (XI
    XH))))))) :: ((Npos (XI (XO (XI (XO (XI (XI XH))))))) :: ((Npos (XI (XO
    (XO (XO (XO (XI XH))))))) :: ((Npos (XO (XO (XI (XI (XO (XI
    XH))))))) :: []))))))) :: (((Npos (XI (XO (XO (XI (XI (XI
    XH))))))) :: ((Npos (XI (XO (XO (XI (XO (XI XH))))))) :: ((Npos (XI (XO
    (XI (XO (XO (XI XH))))))) :: ((Npos (XO (XO (XI (XI (XO (XI
    XH))))))) :: ((Npos (XO (XO (XI (XO (XO (XI
    XH))))))) :: []))))) :: (((Npos (XO (XO (XI (XO (XI (XI
    XH))))))) :: ((Npos (XO (XI (XO (XO (XI (XI XH))))))) :: ((Npos (XI (XO
    (XO (XI (XI (XI XH))))))) :: []))) :: (((Npos (XI (XO (XI (XO (XI (XI
    XH))))))) :: ((Npos (XO (XI (XI (XI (XO (XI XH))))))) :: ((Npos (XI (XO
    (XO (XI (XO (XI XH))))))) :: ((Npos (XI (XI (XI (XI (XO (XI
    XH))))))) :: ((Npos (XO (XI (XI (XI (XO (XI
    XH))))))) :: []))))) :: (((Npos (XO (XI (XO (XO (XI (XI
    XH))))))) :: ((Npos (XI (XO (XO (XO (XO (XI XH))))))) :: ((Npos (XI (XI
    (XI (XO (XI (XI XH))))))) :: []))) :: (((Npos (XI (XI (XO (XO (XI (XI
    XH))))))) :: ((Npos (XI (XO (XO (XO (XO (XI XH))))))) :: ((Npos (XO (XI
    (XI (XO (XO (XI XH))))))) :: ((Npos (XI (XO (XI (XO (XO (XI
    XH))))))) :: [])))) :: (((Npos (XI (XI (XI (XO (XO (XI
    XH))))))) :: ((Npos (XI (XO (XI (XO (XO (XI XH))))))) :: ((Npos (XO (XI
    (XI (XI (XO (XI
    XH))))))) :: []))) :: []))))))))))))))))))))))))))))))))))))))))))))))))))))))

(** val mem_text : text -> text list -> bool **)

let rec mem_text t0 = function
| [] -> false
| x :: l' -> (||) (eqb_text t0 x) (mem_text t0 l')

(** val starts_with : text -> text -> bool **)

let rec starts_with p t0 =
  match p with
  | [] -> true
  | a :: p' ->
    (match t0 with
     | [] -> false
     | b :: t' -> (&&) (N.eqb a b) (starts_with p' t'))

(** val is_digit : char -> bool **)

let is_digit c =
  (&&) (N.leb (Npos (XO (XO (XO (XO (XI XH)))))) c)
    (N.leb c (Npos (XI (XO (XO (XI (XI XH)))))))

(** val is_upper : char -> bool **)

let is_upper c =
  (&&) (N.leb (Npos (XI (XO (XO (XO (XO (XO XH))))))) c)
    (N.leb c (Npos (XO (XI (XO (XI (XI (XO XH))))))))

(** val is_lower : char -> bool **)

let is_lower c =
  (&&) (N.leb (Npos (XI (XO (XO (XO (XO (XI XH))))))) c)
    (N.leb c (Npos (XO (XI (XO (XI (XI (XI XH))))))))

(** val is_alpha_ : char -> bool **)

let is_alpha_ c =
  (||) ((||) (is_upper c) (is_lower c))
    (N.eqb c (Npos (XI (XI (XI (XI (XI (XO XH))))))))

(** val is_alnum_ : char -> bool **)

let is_alnum_ c =
  (||) (is_alpha_ c) (is_digit c)

(** val is_digit_ : char -> bool **)

let is_digit_ c =
  (||) (is_digit c) (N.eqb c (Npos (XI (XI (XI (XI (XI (XO XH))))))))

(** val is_hex_ : char -> bool **)

let is_hex_ c =
  (||)
    ((||)
      ((||) (is_digit c)
        ((&&) (N.leb (Npos (XI (XO (XO (XO (XO (XI XH))))))) c)
          (N.leb c (Npos (XO (XI (XI (XO (XO (XI XH))))))))))
      ((&&) (N.leb (Npos (XI (XO (XO (XO (XO (XO XH))))))) c)
        (N.leb c (Npos (XO (XI (XI (XO (XO (XO XH))))))))))
    (N.eqb c (Npos (XI (XI (XI (XI (XI (XO XH))))))))

(** val lower_ascii : char -> char **)

let lower_ascii c =
  if is_upper c then N.add c (Npos (XO (XO (XO (XO (XO XH)))))) else c

(** val py_isspace : char -> bool **)

let py_isspace c =
  (||) (is_whitespace c)
    ((&&) (N.leb (Npos (XO (XO (XI (XI XH))))) c)
      (N.leb c (Npos (XI (XI (XI (XI XH)))))))

(** val drop_while : (char -> bool) -> text -> text **)

let rec drop_while p t0 = match t0 with
| [] -> []
| c :: t' -> if p c then drop_while p t' else t0

(** val span : (char -> bool) -> text -> text * text **)

let rec span p t0 = match t0 with
| [] -> ([], [])
| c :: t' -> if p c then let (a, b) = span p t' in ((c :: a), b) else ([], t0)

(** val rstrip_by : (char -> bool) -> text -> text **)

let rstrip_by p t0 =
  rev (drop_while p (rev t0))

(** val py_rstrip : text -> text **)

let py_rstrip t0 =
  rstrip_by py_isspace t0

(** val py_strip : text -> text **)

let py_strip t0 =
  py_rstrip (drop_while py_isspace t0)

(** val crlf_to_lf : text -> text **)

let rec crlf_to_lf = function
| [] -> []
| c :: t' ->
  (match t' with
   | [] -> c :: []
   | d :: t'' ->
     if (&&) (is_cr c) (is_lf d)
     then lF :: (crlf_to_lf t'')
     else c :: (crlf_to_lf t'))

(** val split_lf_aux : text -> text -> text list **)

let rec split_lf_aux cur = function
| [] -> (rev cur) :: []
| c :: t' ->
  if is_lf c
  then (rev cur) :: (split_lf_aux [] t')
  else split_lf_aux (c :: cur) t'

(** val split_lf : text -> text list **)

let split_lf t0 =
  split_lf_aux [] t0

(** val join : text -> text list -> text **)

let rec join sep = function
| [] -> []
| x :: l' -> (match l' with
              | [] -> x
              | _ :: _ -> app x (app sep (join sep l')))

(** val dotstar_dollar : text -> bool **)

let rec dotstar_dollar = function
| [] -> true
| c :: t' ->
  if is_lf c
  then (match t' with
        | [] -> true
        | _ :: _ -> false)
  else dotstar_dollar t'

(** val at_dollar : text -> bool **)

let at_dollar = function
| [] -> true
| c :: l -> (match l with
             | [] -> is_lf c
             | _ :: _ -> false)

(** val ident_tail : text -> bool **)

let rec ident_tail t0 = match t0 with
| [] -> true
| c :: t' -> if is_alnum_ c then ident_tail t' else at_dollar t0

(** val ident_plain : text -> bool **)

let ident_plain = function
| [] -> false
| c :: t' -> (&&) (is_alpha_ c) (ident_tail t')

(** val is_ident_text : text -> bool **)

let is_ident_text t0 = match t0 with
| [] -> ident_plain t0
| c :: l ->
  (match c with
   | N0 -> ident_plain t0
   | Npos p ->
     (match p with
      | XO p0 ->
        (match p0 with
         | XI p1 ->
           (match p1 with
            | XO p2 ->
              (match p2 with
               | XO p3 ->
                 (match p3 with
                  | XI p4 ->
                    (match p4 with
                     | XI p5 ->
                       (match p5 with
                        | XH ->
                          (match l with
                           | [] -> ident_plain t0
                           | c0 :: t' ->
                             (match c0 with
                              | N0 -> ident_plain t0
                              | Npos p6 ->
                                (match p6 with
                                 | XI p7 ->
                                   (match p7 with
                                    | XI p8 ->
                                      (match p8 with
                                       | XO p9 ->
                                         (match p9 with
                                          | XO p10 ->
                                            (match p10 with
                                             | XO p11 ->
                                               (match p11 with
                                                | XH ->
                                                  (||) (ident_plain t')
                                                    (ident_plain t0)
                                                | _ -> ident_plain t0)
                                             | _ -> ident_plain t0)
                                          | _ -> ident_plain t0)
                                       | _ -> ident_plain t0)
                                    | _ -> ident_plain t0)
                                 | _ -> ident_plain t0)))
                        | _ -> ident_plain t0)
                     | _ -> ident_plain t0)
                  | _ -> ident_plain t0)
               | _ -> ident_plain t0)
            | _ -> ident_plain t0)
         | _ -> ident_plain t0)
      | _ -> ident_plain t0))

(** val starts_with_digit : text -> bool **)

let starts_with_digit = function
| [] -> false
| c :: _ -> is_digit c

(** val starts_str_lit : text -> bool **)

let starts_str_lit = function
| [] -> false
| c :: t' ->
  (match c with
   | N0 -> false
   | Npos p ->
     (match p with
      | XO p0 ->
        (match p0 with
         | XI p1 ->
           (match p1 with
            | XO p2 ->
              (match p2 with
               | XO p3 ->
                 (match p3 with
                  | XI p4 ->
                    (match p4 with
                     | XI p5 ->
                       (match p5 with
                        | XH ->
                          (match drop_while (fun c0 ->
                                   N.eqb c0 (Npos (XI (XI (XO (XO (XO XH)))))))
                                   t' with
                           | [] -> false
                           | c0 :: _ ->
                             (match c0 with
                              | N0 -> false
                              | Npos p6 ->
                                (match p6 with
                                 | XO p7 ->
                                   (match p7 with
                                    | XI p8 ->
                                      (match p8 with
                                       | XO p9 ->
                                         (match p9 with
                                          | XO p10 ->
                                            (match p10 with
                                             | XO p11 ->
                                               (match p11 with
                                                | XH -> true
                                                | _ -> false)
                                             | _ -> false)
                                          | _ -> false)
                                       | _ -> false)
                                    | _ -> false)
                                 | _ -> false)))
                        | _ -> false)
                     | _ -> false)
                  | XO p4 -> (match p4 with
                              | XH -> true
                              | _ -> false)
                  | XH -> false)
               | _ -> false)
            | _ -> false)
         | _ -> false)
      | _ -> false))

type litkind =
| LInt
| LFloat
| LChar
| LByte
| LStr
| LBStr
| LCStr
| LRStr
| LRBStr
| LRCStr

type kind =
| Kws
| Klc
| Kbc
| Kshebang
| Kdlo
| Kdli
| Kdbo
| Kdbi
| Kid
| Krid
| Klt
| Klit of litkind
| Kp
| Kunk

type tok = kind * text

type opts = { o_remove_nested_parens : bool; o_force_explicit_abi : bool;
              o_hex_case : bool; o_float_zero : bool; o_merge_derives : 
              bool; o_edition2015 : bool; o_macro_def : bool }

(** val set_macro_def : opts -> opts **)

let set_macro_def o =
  { o_remove_nested_parens = o.o_remove_nested_parens; o_force_explicit_abi =
    o.o_force_explicit_abi; o_hex_case = o.o_hex_case; o_float_zero =
    o.o_float_zero; o_merge_derives = o.o_merge_derives; o_edition2015 =
    o.o_edition2015; o_macro_def = true }

(** val is_trivia : kind -> bool **)

let is_trivia = function
| Kws -> true
| Klc -> true
| Kbc -> true
| Kshebang -> true
| _ -> false

(** val significant : tok list -> tok list **)

let significant ts =
  filter (fun t0 -> negb (is_trivia (fst t0))) ts

(** val doc_kind_name : kind -> text **)

let doc_kind_name = function
| Kdlo ->
  t (String ((Ascii (false, false, true, false, false, true, true, false)),
    (String ((Ascii (false, false, true, true, false, true, true, false)),
    (String ((Ascii (true, true, true, true, false, true, true, false)),
    EmptyString))))))
| Kdli ->
  t (String ((Ascii (false, false, true, false, false, true, true, false)),
    (String ((Ascii (false, false, true, true, false, true, true, false)),
    (String ((Ascii (true, false, false, true, false, true, true, false)),
    EmptyString))))))
| Kdbo ->
  t (String ((Ascii (false, false, true, false, false, true, true, false)),
    (String ((Ascii (false, true, false, false, false, true, true, false)),
    (String ((Ascii (true, true, true, true, false, true, true, false)),
    EmptyString))))))
| Kdbi ->
  t (String ((Ascii (false, false, true, false, false, true, true, false)),
    (String ((Ascii (false, true, false, false, false, true, true, false)),
    (String ((Ascii (true, false, false, true, false, true, true, false)),
    EmptyString))))))
| _ -> []

(** val doc_block_line : bool -> text -> text **)

let doc_block_line first l =
  let s = py_strip l in
  if (&&) ((&&) (negb first) (starts_with s_star s))
       (negb (starts_with s_starslash s))
  then py_strip (tl s)
  else s

(** val doc_block_lines : text list -> text list **)

let doc_block_lines = function
| [] -> []
| l :: ls' -> (doc_block_line true l) :: (map (doc_block_line false) ls')

(** val doc_norm : kind -> text -> text **)

let doc_norm k t0 =
  let lines = split_lf (crlf_to_lf t0) in
  let body =
    match k with
    | Kdbo -> doc_block_lines lines
    | Kdbi -> doc_block_lines lines
    | _ -> map py_rstrip lines
  in
  app s_DOC (app (doc_kind_name k) (app s_colon (join (lF :: []) body)))

(** val is_cont_blank : char -> bool **)

let is_cont_blank c =
  (||)
    ((||)
      ((||) (N.eqb c (Npos (XO (XO (XO (XO (XO XH)))))))
        (N.eqb c (Npos (XI (XO (XO XH))))))
      (N.eqb c (Npos (XI (XO (XI XH)))))) (N.eqb c (Npos (XO (XI (XO XH)))))

(** val str_cont : bool -> text -> text **)

let rec str_cont skip = function
| [] -> []
| c :: t' ->
  if (&&) skip (is_cont_blank c)
  then str_cont true t'
  else if N.eqb c (Npos (XO (XO (XI (XI (XI (XO XH)))))))
       then (match t' with
             | [] -> c :: (str_cont false t')
             | c0 :: t'' ->
               (match c0 with
                | N0 -> c :: (str_cont false t')
                | Npos p ->
                  (match p with
                   | XI p0 ->
                     (match p0 with
                      | XO p1 ->
                        (match p1 with
                         | XI p2 ->
                           (match p2 with
                            | XH ->
                              (match t'' with
                               | [] -> c :: (str_cont false t')
                               | c1 :: t''0 ->
                                 (match c1 with
                                  | N0 -> c :: (str_cont false t')
                                  | Npos p3 ->
                                    (match p3 with
                                     | XO p4 ->
                                       (match p4 with
                                        | XI p5 ->
                                          (match p5 with
                                           | XO p6 ->
                                             (match p6 with
                                              | XH -> str_cont true t''0
                                              | _ -> c :: (str_cont false t'))
                                           | _ -> c :: (str_cont false t'))
                                        | _ -> c :: (str_cont false t'))
                                     | _ -> c :: (str_cont false t'))))
                            | _ -> c :: (str_cont false t'))
                         | _ -> c :: (str_cont false t'))
                      | _ -> c :: (str_cont false t'))
                   | XO p0 ->
                     (match p0 with
                      | XI p1 ->
                        (match p1 with
                         | XO p2 ->
                           (match p2 with
                            | XH -> str_cont true t''
                            | _ -> c :: (str_cont false t'))
                         | _ -> c :: (str_cont false t'))
                      | _ -> c :: (str_cont false t'))
                   | XH -> c :: (str_cont false t'))))
       else c :: (str_cont false t')

(** val hex_lower : text -> text **)

let hex_lower t0 = match t0 with
| [] -> t0
| c :: l ->
  (match c with
   | N0 -> t0
   | Npos p ->
     (match p with
      | XO p0 ->
        (match p0 with
         | XO p1 ->
           (match p1 with
            | XO p2 ->
              (match p2 with
               | XO p3 ->
                 (match p3 with
                  | XI p4 ->
                    (match p4 with
                     | XH ->
                       (match l with
                        | [] -> t0
                        | c0 :: t' ->
                          (match c0 with
                           | N0 -> t0
                           | Npos p5 ->
                             (match p5 with
                              | XO p6 ->
                                (match p6 with
                                 | XO p7 ->
                                   (match p7 with
                                    | XO p8 ->
                                      (match p8 with
                                       | XI p9 ->
                                         (match p9 with
                                          | XI p10 ->
                                            (match p10 with
                                             | XI p11 ->
                                               (match p11 with
                                                | XH ->
                                                  let (h, r) = span is_hex_ t'
                                                  in
                                                  (match h with
                                                   | [] -> t0
                                                   | _ :: _ ->
                                                     if dotstar_dollar r
                                                     then app s_0x
                                                            (app
                                                              (map
                                                                lower_ascii h)
                                                              r)
                                                     else t0)
                                                | _ -> t0)
                                             | _ -> t0)
                                          | _ -> t0)
                                       | _ -> t0)
                                    | _ -> t0)
                                 | _ -> t0)
                              | _ -> t0)))
                     | _ -> t0)
                  | _ -> t0)
               | _ -> t0)
            | _ -> t0)
         | _ -> t0)
      | _ -> t0))

(** val float_strip : text -> text **)

let float_strip t0 =
  let (a, r) = span is_digit_ t0 in
  (match a with
   | [] -> t0
   | _ :: _ ->
     let (frac, r') =
       match r with
       | [] -> ([], r)
       | c :: r1 ->
         (match c with
          | N0 -> ([], r)
          | Npos p ->
            (match p with
             | XI _ -> ([], r)
             | XO p0 ->
               (match p0 with
                | XI p1 ->
                  (match p1 with
                   | XI p2 ->
                     (match p2 with
                      | XI p3 ->
                        (match p3 with
                         | XI _ -> ([], r)
                         | XO p4 ->
                           (match p4 with
                            | XI _ -> ([], r)
                            | XO _ -> ([], r)
                            | XH -> span is_digit_ r1)
                         | XH -> ([], r))
                      | _ -> ([], r))
                   | _ -> ([], r))
                | _ -> ([], r))
             | XH -> ([], r)))
     in
     if dotstar_dollar r'
     then let f =
            rstrip_by (fun c ->
              (||) (N.eqb c (Npos (XO (XO (XO (XO (XI XH)))))))
                (N.eqb c (Npos (XI (XI (XI (XI (XI (XO XH))))))))) frac
          in
          app a
            (app
              (match f with
               | [] -> []
               | _ :: _ -> (Npos (XO (XI (XI (XI (XO XH)))))) :: f) r')
     else t0)

(** val lit_norm : opts -> litkind -> text -> text **)

let lit_norm o l t0 =
  match l with
  | LInt -> if o.o_hex_case then hex_lower t0 else t0
  | LFloat -> if o.o_float_zero then float_strip t0 else t0
  | LStr -> str_cont false t0
  | LBStr -> str_cont false t0
  | LCStr -> str_cont false t0
  | _ -> t0

(** val atom : opts -> kind -> text -> text **)

let atom o k t0 =
  let t' = crlf_to_lf t0 in
  (match k with
   | Kdlo -> doc_norm k t'
   | Kdli -> doc_norm k t'
   | Kdbo -> doc_norm k t'
   | Kdbi -> doc_norm k t'
   | Klit l -> lit_norm o l t'
   | _ -> t')

type delim =
| DParen
| DBrack
| DBrace

type item =
| Tok of text
| Grp of delim * item list

(** val delim_eqb : delim -> delim -> bool **)

let delim_eqb a b =
  match a with
  | DParen -> (match b with
               | DParen -> true
               | _ -> false)
  | DBrack -> (match b with
               | DBrack -> true
               | _ -> false)
  | DBrace -> (match b with
               | DBrace -> true
               | _ -> false)

(** val open_text : delim -> text **)

let open_text = function
| DParen -> s_lparen
| DBrack -> s_lbrack
| DBrace -> s_lbrace

(** val close_text : delim -> text **)

let close_text = function
| DParen -> s_rparen
| DBrack -> s_rbrack
| DBrace -> s_rbrace

(** val open_of : text -> delim option **)

let open_of = function
| [] -> None
| c :: l ->
  (match c with
   | N0 -> None
   | Npos p ->
     (match p with
      | XI p0 ->
        (match p0 with
         | XI p1 ->
           (match p1 with
            | XO p2 ->
              (match p2 with
               | XI p3 ->
                 (match p3 with
                  | XI p4 ->
                    (match p4 with
                     | XI p5 ->
                       (match p5 with
                        | XH ->
                          (match l with
                           | [] -> Some DBrace
                           | _ :: _ -> None)
                        | _ -> None)
                     | XO p5 ->
                       (match p5 with
                        | XH ->
                          (match l with
                           | [] -> Some DBrack
                           | _ :: _ -> None)
                        | _ -> None)
                     | XH -> None)
                  | _ -> None)
               | _ -> None)
            | _ -> None)
         | _ -> None)
      | XO p0 ->
        (match p0 with
         | XO p1 ->
           (match p1 with
            | XO p2 ->
              (match p2 with
               | XI p3 ->
                 (match p3 with
                  | XO p4 ->
                    (match p4 with
                     | XH -> (match l with
                              | [] -> Some DParen
                              | _ :: _ -> None)
                     | _ -> None)
                  | _ -> None)
               | _ -> None)
            | _ -> None)
         | _ -> None)
      | XH -> None))

(** val is_tok : item -> text -> bool **)

let is_tok x s =
  match x with
  | Tok t0 -> eqb_text t0 s
  | Grp (_, _) -> false

(** val is_tok_o : item option -> text -> bool **)

let is_tok_o x s =
  match x with
  | Some y -> is_tok y s
  | None -> false

(** val is_ident : item -> bool **)

let is_ident = function
| Tok t0 -> is_ident_text t0
| Grp (_, _) -> false

(** val is_grp : item -> delim -> bool **)

let is_grp x d =
  match x with
  | Tok _ -> false
  | Grp (d', _) -> delim_eqb d' d

(** val is_grp_o : item option -> delim -> bool **)

let is_grp_o x d =
  match x with
  | Some y -> is_grp y d
  | None -> false

(** val tok_in : item -> text list -> bool **)

let tok_in x l =
  match x with
  | Tok t0 -> mem_text t0 l
  | Grp (_, _) -> false

(** val float_split : text -> (text * text) option **)

let float_split t0 =
  let (a, r) = span is_digit t0 in
  (match a with
   | [] -> None
   | _ :: _ ->
     (match r with
      | [] -> None
      | c0 :: b ->
        (match c0 with
         | N0 -> None
         | Npos p ->
           (match p with
            | XO p0 ->
              (match p0 with
               | XI p1 ->
                 (match p1 with
                  | XI p2 ->
                    (match p2 with
                     | XI p3 ->
                       (match p3 with
                        | XO p4 ->
                          (match p4 with
                           | XH ->
                             let (b1, r2) = span is_digit b in
                             (match b1 with
                              | [] -> None
                              | _ :: _ ->
                                if at_dollar r2 then Some (a, b) else None)
                           | _ -> None)
                        | _ -> None)
                     | _ -> None)
                  | _ -> None)
               | _ -> None)
            | _ -> None))))

(** val tree_step :
    opts -> (item list * (delim * item list) list) -> tok -> item
    list * (delim * item list) list **)

let tree_step o st kt =
  let (cur, stack) = st in
  let (k, t0) = kt in
  let plain = (((Tok (match k with
                      | Kp -> t0
                      | _ -> atom o k t0)) :: cur), stack)
  in
  (match k with
   | Klit l ->
     (match l with
      | LFloat ->
        (match float_split t0 with
         | Some p ->
           let (a, b) = p in
           (match cur with
            | [] -> plain
            | p1 :: more ->
              if (&&) (is_tok p1 s_dot)
                   (negb
                     (match more with
                      | [] -> false
                      | p2 :: _ -> is_tok p2 s_dot))
              then (((Tok b) :: ((Tok s_dot) :: ((Tok a) :: cur))), stack)
              else plain)
         | None -> plain)
      | _ -> plain)
   | Kp ->
     (match open_of t0 with
      | Some d -> ([], ((d, cur) :: stack))
      | None ->
        (match stack with
         | [] -> plain
         | p :: stack' ->
           let (d, parent) = p in
           if eqb_text (close_text d) t0
           then (((Grp (d, (rev cur))) :: parent), stack')
           else plain))
   | _ -> plain)

(** val tree_unwind : item list -> (delim * item list) list -> item list **)

let rec tree_unwind cur = function
| [] -> cur
| p :: stack' ->
  let (d, parent) = p in
  tree_unwind (app cur ((Tok (open_text d)) :: parent)) stack'

(** val tree : opts -> tok list -> item list **)

let tree o toks =
  let (cur, stack) = fold_left (tree_step o) toks ([], []) in
  rev (tree_unwind cur stack)

(** val split_on : ('a1 -> bool) -> 'a1 list -> 'a1 list -> 'a1 list list **)

let rec split_on p cur = function
| [] -> (rev cur) :: []
| x :: l' ->
  if p x then (rev cur) :: (split_on p [] l') else split_on p (x :: cur) l'

(** val call_like : item option -> bool **)

let call_like = function
| Some i ->
  (match i with
   | Tok t0 ->
     (||)
       ((||) ((&&) (is_ident_text t0) (negb (mem_text t0 kEYWORDS)))
         (mem_text t0
           (s_self :: (s_Self :: (s_super :: (s_crate :: (s_fn :: [])))))))
       (mem_text t0 (s_gt :: (s_quest :: (s_bang :: []))))
   | Grp (d, _) -> (match d with
                    | DBrace -> false
                    | _ -> true))
| None -> false

(** val glue_pair : text -> text -> bool **)

let glue_pair a b =
  mem_text (app a b) (s_coloncolon :: (s_arrow :: (s_fatarrow :: [])))

(** val glue : item list -> item list **)

let rec glue = function
| [] -> []
| x :: tl0 ->
  (match x with
   | Tok a ->
     (match tl0 with
      | [] -> x :: (glue tl0)
      | i :: rest ->
        (match i with
         | Tok b ->
           if glue_pair a b
           then (Tok (app a b)) :: (glue rest)
           else x :: (glue tl0)
         | Grp (_, _) -> x :: (glue tl0)))
   | Grp (_, _) -> x :: (glue tl0))

(** val last_stmt_first : item list -> item option -> item option **)

let rec last_stmt_first r acc =
  match r with
  | [] -> acc
  | y :: r' ->
    if (||) (is_tok y s_semi) (is_grp y DBrace)
    then acc
    else last_stmt_first r' (Some y)

(** val drops_tail_semi : item list -> bool **)

let drops_tail_semi items =
  match rev items with
  | [] -> false
  | y :: r ->
    (&&) (is_tok y s_semi)
      (match last_stmt_first r None with
       | Some x -> tok_in x (s_return :: (s_break :: (s_continue :: [])))
       | None -> false)

(** val block_tail : item -> item **)

let block_tail x = match x with
| Tok _ -> x
| Grp (d, items) ->
  (match d with
   | DBrace ->
     if drops_tail_semi items then Grp (DBrace, (removelast items)) else x
   | _ -> x)

(** val block_tails : item list -> item list **)

let block_tails seq =
  map block_tail seq

(** val item_keywords : text list **)

let item_keywords =
  s_let :: (s_fn :: (s_struct :: (s_enum :: (s_use :: (s_mod :: (s_impl :: (s_trait :: (s_type :: (s_const :: (s_static :: (s_macro_rules :: [])))))))))))

(** val single_expr_block : item -> bool **)

let single_expr_block = function
| Tok _ -> false
| Grp (d, items) ->
  (match d with
   | DBrace ->
     (match items with
      | [] -> false
      | first :: more ->
        if existsb (fun x -> is_tok x s_semi) (first :: more)
        then false
        else if (&&) (is_tok first s_use)
                  (match more with
                   | [] -> false
                   | y :: _ -> is_tok y s_pipe)
             then true
             else if (&&) (is_tok first s_hash)
                       (match more with
                        | [] -> false
                        | y :: _ -> is_grp y DBrack)
                  then true
                  else (match first with
                        | Tok t0 ->
                          negb
                            ((||)
                              ((||) (starts_with s_DOC t0)
                                (eqb_text t0 s_hash))
                              (mem_text t0 item_keywords))
                        | Grp (_, _) -> true))
   | _ -> false)

(** val unwrap : item -> item list **)

let rec unwrap x =
  if single_expr_block x
  then (match x with
        | Tok _ -> x :: []
        | Grp (_, its) ->
          (match its with
           | [] -> its
           | y :: l -> (match l with
                        | [] -> unwrap y
                        | _ :: _ -> its)))
  else x :: []

(** val arms : bool -> item list -> item list **)

let rec arms brace = function
| [] -> []
| x :: rest ->
  (match rest with
   | [] -> x :: []
   | nxt :: rest2 ->
     if (&&) ((&&) (is_tok x s_fatarrow) brace) (is_grp nxt DBrace)
     then let rest3 =
            match rest2 with
            | [] -> rest2
            | a :: r3 -> if is_tok a s_comma then r3 else rest2
          in
          x :: (app (unwrap nxt)
                 (app
                   (match rest3 with
                    | [] -> []
                    | _ :: _ -> (Tok s_comma) :: []) (arms brace rest3)))
     else x :: (arms brace rest))

(** val closure_prev : text list **)

let closure_prev =
  s_eq :: (s_comma :: (s_lparen :: (s_move :: (s_return :: (s_fatarrow :: (s_colon :: (s_semi :: (s_async :: (s_static :: (s_andand :: (s_oror :: (s_bang :: []))))))))))))

(** val starts_expr : item option -> bool **)

let starts_expr = function
| Some i ->
  (match i with
   | Tok t0 -> (||) (mem_text t0 closure_prev) (mem_text t0 kEYWORDS)
   | Grp (_, _) -> false)
| None -> true

(** val find_close :
    item list -> item list -> (item list * item list) option **)

let rec find_close l acc =
  match l with
  | [] -> None
  | y :: l' ->
    if is_tok y s_pipe
    then Some (acc, l')
    else if (||) (is_tok y s_semi) (is_tok y s_fatarrow)
         then None
         else find_close l' (y :: acc)

(** val closures : nat -> item list -> item list -> item list **)

let rec closures fuel res l =
  match fuel with
  | O -> app (rev res) l
  | S f ->
    (match l with
     | [] -> rev res
     | x :: rest ->
       if (&&) (is_tok x s_pipe) (starts_expr (hd_error res))
       then (match find_close rest [] with
             | Some p ->
               let (params_rev, after) = p in
               let params_rev' =
                 match params_rev with
                 | [] -> []
                 | y :: p' -> if is_tok y s_comma then p' else params_rev
               in
               (match after with
                | [] ->
                  closures f (x :: res)
                    (app (rev params_rev') ((Tok s_pipe) :: []))
                | b :: after' ->
                  if (&&) (single_expr_block b)
                       (negb
                         (existsb (fun t0 -> is_tok t0 s_fatarrow)
                           (x :: (rev params_rev'))))
                  then closures f
                         (app (rev (unwrap b)) ((Tok
                           s_pipe) :: (app params_rev' (x :: res)))) after'
                  else closures f (x :: res)
                         (app (rev params_rev') ((Tok s_pipe) :: after)))
             | None -> closures f (x :: res) rest)
       else closures f (x :: res) rest)

(** val closures_run : item list -> item list **)

let closures_run l =
  closures (S (length l)) [] l

(** val arrow_before_comma : item list -> bool **)

let rec arrow_before_comma = function
| [] -> false
| y :: l' ->
  if is_tok y s_comma
  then false
  else if is_tok y s_fatarrow then true else arrow_before_comma l'

(** val arm_start : item list -> bool **)

let arm_start = function
| [] -> true
| p :: f' ->
  (||) ((||) (is_tok p s_comma) (is_grp p DBrace))
    ((&&) (is_grp p DBrack)
      (match f' with
       | [] -> false
       | q :: _ -> is_tok q s_hash))

(** val lead_pipes : bool -> item list -> item list -> item list **)

let rec lead_pipes brace final = function
| [] -> rev final
| x :: rest ->
  if (&&) ((&&) ((&&) (is_tok x s_pipe) brace) (arm_start final))
       (arrow_before_comma rest)
  then lead_pipes brace final rest
  else lead_pipes brace (x :: final) rest

(** val drop_arm_commas : item option -> item list -> item list **)

let rec drop_arm_commas prev = function
| [] -> []
| x :: r ->
  if (&&) (is_tok x s_comma) (is_grp_o prev DBrace)
  then drop_arm_commas (Some x) r
  else x :: (drop_arm_commas (Some x) r)

(** val is_brace : delim option -> bool **)

let is_brace = function
| Some d -> (match d with
             | DBrace -> true
             | _ -> false)
| None -> false

(** val arms_and_closures : delim option -> item list -> item list **)

let arms_and_closures ctx seq =
  let brace = is_brace ctx in
  let final = lead_pipes brace [] (closures_run (arms brace seq)) in
  if (&&) brace (existsb (fun t0 -> is_tok t0 s_fatarrow) final)
  then drop_arm_commas None final
  else final

(** val last_is : item list -> text -> bool **)

let last_is items s =
  match rev items with
  | [] -> false
  | y :: _ -> is_tok y s

(** val count_commas : item list -> nat **)

let count_commas items =
  length (filter (fun t0 -> is_tok t0 s_comma) items)

(** val trim_group : item option -> item -> item **)

let trim_group prev x = match x with
| Tok _ -> x
| Grp (d, items) ->
  let items1 =
    if last_is items s_comma
    then if (||)
              ((||) (negb (delim_eqb d DParen))
                (Nat.leb (S (S O)) (count_commas items))) (call_like prev)
         then removelast items
         else items
    else items
  in
  let items2 =
    match d with
    | DBrace -> if drops_tail_semi items1 then removelast items1 else items1
    | _ -> items1
  in
  Grp (d, items2)

(** val trim_groups : item option -> item list -> item list **)

let rec trim_groups prev = function
| [] -> []
| x :: r -> let x' = trim_group prev x in x' :: (trim_groups (Some x') r)

(** val ends_where : item -> bool **)

let ends_where x =
  (||) ((||) (is_tok x s_semi) (is_tok x s_eq)) (is_grp x DBrace)

(** val where_commas : bool -> nat -> item list -> item list **)

let rec where_commas in_where angle = function
| [] -> []
| x :: r ->
  let nxt = hd_error r in
  let w = is_tok x s_where in
  let in_where1 = (||) w in_where in
  let angle1 = if w then O else angle in
  let angle2 = if (&&) in_where1 (is_tok x s_lt) then S angle1 else angle1 in
  let angle3 =
    if (&&) ((&&) in_where1 (is_tok x s_gt)) (Nat.ltb O angle2)
    then pred angle2
    else angle2
  in
  if (&&) (is_tok x s_comma) (is_tok_o nxt s_gt)
  then where_commas in_where1 angle3 r
  else if (&&) ((&&) ((&&) (is_tok x s_comma) in_where1) (Nat.eqb angle3 O))
            (match nxt with
             | Some y -> ends_where y
             | None -> true)
       then where_commas in_where1 angle3 r
       else let in_where2 =
              if (&&) ((&&) in_where1 (Nat.eqb angle3 O)) (ends_where x)
              then false
              else in_where1
            in
            x :: (where_commas in_where2 angle3 r)

(** val trailing_seps : item list -> item list **)

let trailing_seps seq =
  where_commas false O (trim_groups None seq)

(** val vis_kw : item -> bool **)

let vis_kw x =
  tok_in x (s_crate :: (s_self :: (s_super :: [])))

(** val rewrite_loop : delim option -> item list -> item list -> item list **)

let rec rewrite_loop ctx out = function
| [] -> rev out
| x :: rest ->
  let nxt = hd_error rest in
  let prev = hd_error out in
  if (&&) (is_tok x s_semi)
       ((||) (is_tok_o prev s_semi)
         (match prev with
          | Some _ -> false
          | None -> is_brace ctx))
  then rewrite_loop ctx out rest
  else if (&&) (is_tok x s_where)
            (match nxt with
             | Some y ->
               (||) ((||) (is_grp y DBrace) (is_tok y s_semi)) (is_tok y s_eq)
             | None -> true)
       then rewrite_loop ctx out rest
       else if (&&)
                 ((&&)
                   ((&&) (is_tok x s_colon)
                     (match prev with
                      | Some p -> is_ident p
                      | None -> false))
                   (match nxt with
                    | Some y ->
                      tok_in y
                        (s_comma :: (s_gt :: (s_eq :: (s_where :: []))))
                    | None -> true)) (negb (is_brace ctx))
            then rewrite_loop ctx out rest
            else if (&&)
                      ((&&) (is_tok x s_extern) (negb (is_tok_o nxt s_crate)))
                      (negb
                        (match nxt with
                         | Some i ->
                           (match i with
                            | Tok t0 -> starts_str_lit t0
                            | Grp (_, _) -> false)
                         | None -> false))
                 then rewrite_loop ctx ((Tok s_abiC) :: (x :: out)) rest
                 else (match rest with
                       | [] -> rewrite_loop ctx (x :: out) rest
                       | i :: rest' ->
                         (match i with
                          | Tok _ -> rewrite_loop ctx (x :: out) rest
                          | Grp (d, items) ->
                            (match d with
                             | DParen ->
                               (match items with
                                | [] -> rewrite_loop ctx (x :: out) rest
                                | a :: l ->
                                  (match l with
                                   | [] -> rewrite_loop ctx (x :: out) rest
                                   | b :: l0 ->
                                     (match l0 with
                                      | [] ->
                                        if (&&)
                                             ((&&) (is_tok x s_pub)
                                               (is_tok a s_in)) (vis_kw b)
                                        then rewrite_loop ctx ((Grp (DParen,
                                               (b :: []))) :: (x :: out))
                                               rest'
                                        else rewrite_loop ctx (x :: out) rest
                                      | c :: more ->
                                        if (&&)
                                             ((&&) (is_tok x s_pub)
                                               (is_tok a s_in))
                                             (is_tok b s_coloncolon)
                                        then rewrite_loop ctx ((Grp (DParen,
                                               (a :: (c :: more)))) :: (x :: out))
                                               rest'
                                        else rewrite_loop ctx (x :: out) rest)))
                             | _ -> rewrite_loop ctx (x :: out) rest)))

(** val rewrite : opts -> delim option -> item list -> item list **)

let rewrite o ctx seq =
  let out = block_tails (rewrite_loop ctx [] seq) in
  let out0 = if o.o_macro_def then out else arms_and_closures ctx out in
  trailing_seps out0

type mitem = item * item list

(** val glue2 : mitem list -> mitem list **)

let rec glue2 = function
| [] -> []
| x :: tl0 ->
  let (i, _) = x in
  (match i with
   | Tok a ->
     (match tl0 with
      | [] -> x :: (glue2 tl0)
      | m :: rest ->
        let (i0, _) = m in
        (match i0 with
         | Tok b ->
           if glue_pair a b
           then ((Tok (app a b)), []) :: (glue2 rest)
           else x :: (glue2 tl0)
         | Grp (_, _) -> x :: (glue2 tl0)))
   | Grp (_, _) -> x :: (glue2 tl0))

(** val macro_arm : mitem list -> item list **)

let macro_arm arm = match arm with
| [] -> []
| _ :: _ ->
  (match arm with
   | [] -> app (map fst arm) ((Tok s_semi) :: [])
   | m0 :: l ->
     let (i, _) = m0 in
     (match i with
      | Tok _ -> app (map fst arm) ((Tok s_semi) :: [])
      | Grp (_, m) ->
        (match l with
         | [] -> app (map fst arm) ((Tok s_semi) :: [])
         | m1 :: l1 ->
           let (a, _) = m1 in
           (match l1 with
            | [] -> app (map fst arm) ((Tok s_semi) :: [])
            | m2 :: l3 ->
              let (i0, nb) = m2 in
              (match i0 with
               | Tok _ -> app (map fst arm) ((Tok s_semi) :: [])
               | Grp (_, _) ->
                 (match l3 with
                  | [] ->
                    if is_tok a s_fatarrow
                    then (Grp (DParen, m)) :: ((Tok s_fatarrow) :: ((Grp
                           (DBrace, nb)) :: ((Tok s_semi) :: [])))
                    else app (map fst arm) ((Tok s_semi) :: [])
                  | _ :: _ -> app (map fst arm) ((Tok s_semi) :: [])))))))

(** val macro_def : mitem list -> item list **)

let macro_def items =
  concat
    (map macro_arm
      (split_on (fun x -> is_tok (fst x) s_semi) [] (glue2 items)))

(** val macro_rules_head : item list -> bool **)

let macro_rules_head = function
| [] -> false
| a :: l ->
  (match l with
   | [] -> false
   | b :: l0 ->
     (match l0 with
      | [] -> false
      | c :: more ->
        (&&) (is_ident a)
          ((||) ((&&) (is_tok b s_bang) (is_tok c s_macro_rules))
            (match more with
             | [] -> false
             | d :: _ ->
               (&&) ((&&) (is_tok c s_bang) (is_tok d s_macro_rules))
                 (is_tok b s_dollar)))))

(** val collapse_parens : item -> item **)

let rec collapse_parens g = match g with
| Tok _ -> g
| Grp (d, items) ->
  (match d with
   | DParen ->
     (match items with
      | [] -> g
      | y :: l ->
        (match y with
         | Tok _ -> g
         | Grp (d0, _) ->
           (match d0 with
            | DParen -> (match l with
                         | [] -> collapse_parens y
                         | _ :: _ -> g)
            | _ -> g)))
   | _ -> g)

(** val norm_loop :
    (opts -> delim option -> item -> item list) -> opts -> delim option ->
    item list -> bool -> item list -> item list **)

let rec norm_loop rec0 o ctx out skip = function
| [] -> rewrite o ctx (glue (rev out))
| x :: rest ->
  if (&&) skip (is_tok x s_semi)
  then norm_loop rec0 o ctx out true rest
  else (match x with
        | Tok t0 ->
          (match rest with
           | [] -> norm_loop rec0 o ctx (x :: out) false rest
           | y :: rest' ->
             if (&&) (eqb_text t0 s_lt) (is_tok y s_gt)
             then let out' =
                    match out with
                    | [] -> out
                    | p :: out1 ->
                      if (||) (is_tok p s_coloncolon) (is_tok p s_for)
                      then out1
                      else out
                  in
                  norm_loop rec0 o ctx out' false rest'
             else norm_loop rec0 o ctx (x :: out) false rest)
        | Grp (d, sub) ->
          if macro_rules_head out
          then let o2 = set_macro_def o in
               let sub2 = map (fun c -> (c, (rec0 o2 (Some DBrace) c))) sub in
               norm_loop rec0 o ctx ((Grp (DBrace, (macro_def sub2))) :: out)
                 true rest
          else let inner = rec0 o (Some d) x in
               let prev = hd_error out in
               let cl = call_like prev in
               let g =
                 if (&&) o.o_remove_nested_parens (negb cl)
                 then collapse_parens (Grp (d, inner))
                 else Grp (d, inner)
               in
               let lit =
                 match g with
                 | Tok _ -> None
                 | Grp (d0, items0) ->
                   (match d0 with
                    | DParen ->
                      (match items0 with
                       | [] -> None
                       | i :: l ->
                         (match i with
                          | Tok t0 ->
                            (match l with
                             | [] ->
                               if (&&) (starts_with_digit t0) (negb cl)
                               then Some t0
                               else None
                             | _ :: _ -> None)
                          | Grp (_, _) -> None))
                    | _ -> None)
               in
               (match lit with
                | Some t0 -> norm_loop rec0 o ctx ((Tok t0) :: out) false rest
                | None ->
                  if (&&) (is_tok_o prev s_bang)
                       (match out with
                        | [] -> false
                        | _ :: l ->
                          (match l with
                           | [] -> false
                           | y :: _ -> is_ident y))
                  then norm_loop rec0 o ctx
                         ((match g with
                           | Tok _ -> g
                           | Grp (_, its) -> Grp (DParen, its)) :: out) true
                         rest
                  else norm_loop rec0 o ctx (g :: out) false rest))

(** val norm_in : opts -> delim option -> item -> item list **)

let rec norm_in o ctx = function
| Tok _ -> []
| Grp (_, sub) -> norm_loop norm_in o ctx [] false sub

(** val norm_seq : opts -> delim option -> item list -> item list **)

let norm_seq o ctx items =
  norm_loop norm_in o ctx [] false items

(** val flatten_item : item -> text list **)

let rec flatten_item = function
| Tok t0 -> t0 :: []
| Grp (d, its) ->
  (open_text d) :: (app (flat_map flatten_item its) ((close_text d) :: []))

(** val flatten : item list -> text list **)

let flatten seq =
  flat_map flatten_item seq

(** val text_leb : text -> text -> bool **)

let rec text_leb a b =
  match a with
  | [] -> true
  | x :: a' ->
    (match b with
     | [] -> false
     | y :: b' ->
       if N.ltb x y then true else if N.ltb y x then false else text_leb a' b')

(** val texts_leb : text list -> text list -> bool **)

let rec texts_leb a b =
  match a with
  | [] -> true
  | x :: a' ->
    (match b with
     | [] -> false
     | y :: b' -> if eqb_text x y then texts_leb a' b' else text_leb x y)

(** val eqb_texts : text list -> text list -> bool **)

let rec eqb_texts a b =
  match a with
  | [] -> (match b with
           | [] -> true
           | _ :: _ -> false)
  | x :: a' ->
    (match b with
     | [] -> false
     | y :: b' -> (&&) (eqb_text x y) (eqb_texts a' b'))

(** val insert_sorted : text -> text list -> text list **)

let rec insert_sorted x l = match l with
| [] -> x :: []
| y :: l' -> if text_leb x y then x :: l else y :: (insert_sorted x l')

(** val sort_texts : text list -> text list **)

let sort_texts l =
  fold_right insert_sorted [] l

(** val insert_uniq : text -> text list -> text list **)

let rec insert_uniq x l = match l with
| [] -> x :: []
| y :: l' ->
  if eqb_text x y
  then l
  else if text_leb x y then x :: l else y :: (insert_uniq x l')

(** val sort_uniq : text list -> text list **)

let sort_uniq l =
  fold_right insert_uniq [] l

type uentry = text list * text option

type pstate =
| PScan of text list * bool
| PAlias of text list
| PDone of uentry list

(** val leaf : text list -> text list -> text option -> uentry list **)

let leaf prefix segs alias =
  let path = app prefix (rev segs) in
  let path0 =
    match rev path with
    | [] -> path
    | l :: l0 ->
      (match l0 with
       | [] -> path
       | _ :: _ -> if eqb_text l s_self then removelast path else path)
  in
  (match rev path0 with
   | [] -> []
   | l :: _ ->
     let alias0 =
       match alias with
       | Some a -> if eqb_text a l then None else alias
       | None -> None
     in
     (path0, alias0) :: [])

(** val render_leaf : uentry -> text **)

let render_leaf e =
  app (join s_coloncolon (fst e))
    (match snd e with
     | Some t0 -> (match t0 with
                   | [] -> []
                   | c :: a -> app s_sp_as_sp (c :: a))
     | None -> [])

(** val pfinish : text list -> pstate -> uentry list **)

let pfinish prefix = function
| PScan (segs, first) -> if first then [] else leaf prefix segs None
| PAlias segs -> leaf prefix segs None
| PDone ls -> ls

(** val parse_loop :
    (text list -> item -> uentry list) -> bool -> text list -> pstate -> item
    list -> uentry list **)

let rec parse_loop rec0 drop_root prefix st = function
| [] -> pfinish prefix st
| t0 :: ts' ->
  if is_tok t0 s_comma
  then app (pfinish prefix st)
         (parse_loop rec0 drop_root prefix (PScan ([], true)) ts')
  else (match st with
        | PScan (segs, first) ->
          (match t0 with
           | Tok s ->
             if eqb_text s s_as
             then parse_loop rec0 drop_root prefix (PAlias segs) ts'
             else if eqb_text s s_coloncolon
                  then parse_loop rec0 drop_root prefix (PScan
                         ((if (&&)
                                ((&&) first
                                  (match prefix with
                                   | [] -> true
                                   | _ :: _ -> false)) (negb drop_root)
                           then [] :: segs
                           else segs), false)) ts'
                  else parse_loop rec0 drop_root prefix (PScan ((s :: segs),
                         false)) ts'
           | Grp (_, _) ->
             parse_loop rec0 drop_root prefix (PDone
               (rec0 (app prefix (rev segs)) t0)) ts')
        | PAlias segs ->
          parse_loop rec0 drop_root prefix (PDone
            (leaf prefix segs
              (match t0 with
               | Tok a -> Some a
               | Grp (_, _) -> None))) ts'
        | PDone _ -> parse_loop rec0 drop_root prefix st ts')

(** val parse_grp : bool -> text list -> item -> uentry list **)

let rec parse_grp drop_root prefix = function
| Tok _ -> []
| Grp (_, sub) ->
  parse_loop (parse_grp drop_root) drop_root prefix (PScan ([], true)) sub

(** val parse_entries : bool -> item list -> uentry list **)

let parse_entries drop_root items =
  parse_loop (parse_grp drop_root) drop_root [] (PScan ([], true)) items

(** val parse_use : bool -> item list -> text list **)

let parse_use drop_root items =
  map render_leaf (parse_entries drop_root items)

(** val is_inner_doc : item -> bool **)

let is_inner_doc = function
| Tok t0 -> (||) (starts_with s_DOCdli t0) (starts_with s_DOCdbi t0)
| Grp (_, _) -> false

(** val is_outer_doc : item -> bool **)

let is_outer_doc = function
| Tok t0 -> (||) (starts_with s_DOCdlo t0) (starts_with s_DOCdbo t0)
| Grp (_, _) -> false

(** val stmts_split : item list -> item list -> item list list * item list **)

let rec stmts_split cur = function
| [] -> ([], (rev cur))
| x :: r ->
  if is_inner_doc x
  then let (ss, tl0) = stmts_split [] r in
       ((app (match cur with
              | [] -> []
              | _ :: _ -> (rev cur) :: []) ((x :: []) :: ss)), tl0)
  else let cur' = x :: cur in
       let ends =
         (||)
           ((||) (is_tok x s_semi)
             ((&&) (is_grp x DBrack)
               (match cur with
                | [] -> false
                | b :: l ->
                  (match l with
                   | [] -> false
                   | a :: l0 ->
                     (match l0 with
                      | [] -> (&&) (is_tok a s_hash) (is_tok b s_bang)
                      | _ :: _ -> false)))))
           ((&&) (is_grp x DBrace)
             (negb (existsb (fun t0 -> is_tok t0 s_use) cur)))
       in
       if ends
       then let (ss, tl0) = stmts_split [] r in (((rev cur') :: ss), tl0)
       else stmts_split cur' r

type rkind =
| RUse
| RMod
| RExtern

(** val rkind_eqb : rkind -> rkind -> bool **)

let rkind_eqb a b =
  match a with
  | RUse -> (match b with
             | RUse -> true
             | _ -> false)
  | RMod -> (match b with
             | RMod -> true
             | _ -> false)
  | RExtern -> (match b with
                | RExtern -> true
                | _ -> false)

(** val attr_split : bool -> item list -> item list * item list **)

let rec attr_split prev_hash l = match l with
| [] -> ([], [])
| x :: l' ->
  if is_tok x s_hash
  then let (a, b) = attr_split true l' in ((x :: a), b)
  else if (||) ((&&) (is_grp x DBrack) prev_hash) (is_outer_doc x)
       then let (a, b) = attr_split false l' in ((x :: a), b)
       else ([], l)

(** val vis_split : item list -> item list * item list **)

let vis_split l = match l with
| [] -> ([], [])
| x :: l' ->
  if is_tok x s_pub
  then (match l' with
        | [] -> ((x :: []), l')
        | y :: l'' ->
          if is_grp y DParen then ((x :: (y :: [])), l'') else ((x :: []), l'))
  else ([], l)

(** val has_macro_use : item list -> bool **)

let has_macro_use attrs =
  existsb (fun g ->
    match g with
    | Tok _ -> false
    | Grp (d, items) ->
      (match d with
       | DBrack ->
         (match items with
          | [] -> false
          | y :: _ -> is_tok y s_macro_use)
       | _ -> false)) attrs

(** val stmt_kind : item list -> ((rkind * item list) * item list) option **)

let stmt_kind st =
  let (attrs, r1) = attr_split false st in
  let (vis, body) = vis_split r1 in
  let head = app attrs vis in
  (match body with
   | [] -> None
   | b0 :: body' ->
     if (&&) (is_tok b0 s_use) (last_is st s_semi)
     then Some ((RUse, head), body)
     else if (&&) ((&&) (is_tok b0 s_mod) (last_is st s_semi))
               (Nat.eqb (length body) (S (S (S O))))
          then if has_macro_use attrs then None else Some ((RMod, head), body)
          else if (&&) (is_tok b0 s_extern)
                    (match body' with
                     | [] -> false
                     | b1 :: _ -> is_tok b1 s_crate)
               then if has_macro_use attrs
                    then None
                    else Some ((RExtern, head), body)
               else None)

(** val add_class :
    text list -> text list -> (text list * text list) list -> (text
    list * text list) list **)

let rec add_class head leaves = function
| [] -> (head, (sort_uniq leaves)) :: []
| p :: cs' ->
  let (h, ls) = p in
  if eqb_texts h head
  then (h, (fold_right insert_uniq ls leaves)) :: cs'
  else (h, ls) :: (add_class head leaves cs')

(** val insert_class :
    (text list * text list) -> (text list * text list) list -> (text
    list * text list) list **)

let rec insert_class c l = match l with
| [] -> c :: []
| y :: l' ->
  if texts_leb (fst c) (fst y) then c :: l else y :: (insert_class c l')

(** val use_string : (text list * text list) -> text **)

let use_string c =
  app s_USE
    (app (join (sP :: []) (fst c))
      (app s_rb_lb (app (join s_semi_sp (snd c)) s_rbrace)))

(** val item_string : text -> text **)

let item_string s =
  app s_ITEM (app s s_rbrack)

type run = rkind * ((item list * item list) * item list) list

(** val flush_run : opts -> run option -> item list **)

let flush_run o = function
| Some r0 ->
  let (r1, sts) = r0 in
  (match r1 with
   | RUse ->
     let classes =
       fold_left (fun cs e ->
         let (y, _) = e in
         let (head, body) = y in
         add_class (flatten head)
           (parse_use o.o_edition2015 (removelast (tl body))) cs) (rev sts) []
     in
     map (fun c -> Tok (use_string c)) (fold_right insert_class [] classes)
   | _ ->
     map (fun s -> Tok (item_string s))
       (sort_texts
         (map (fun e -> let (_, st) = e in join (sP :: []) (flatten st))
           (rev sts))))
| None -> []

(** val runs : opts -> run option -> item list list -> item list **)

let rec runs o cur = function
| [] -> flush_run o cur
| st :: r ->
  (match stmt_kind st with
   | Some p ->
     let (p0, body) = p in
     let (k, head) = p0 in
     (match cur with
      | Some r0 ->
        let (k0, sts) = r0 in
        if rkind_eqb k0 k
        then runs o (Some (k0, (((head, body), st) :: sts))) r
        else app (flush_run o cur)
               (runs o (Some (k, (((head, body), st) :: []))) r)
      | None -> runs o (Some (k, (((head, body), st) :: []))) r)
   | None -> app (flush_run o cur) (app st (runs o None r)))

(** val reorder_runs : opts -> item list -> item list **)

let reorder_runs o seq =
  let (stmts, tail) = stmts_split [] seq in app (runs o None stmts) tail

(** val norm_tree_item : opts -> item -> item **)

let rec norm_tree_item o x = match x with
| Tok _ -> x
| Grp (d, its) -> Grp (d, (reorder_runs o (map (norm_tree_item o) its)))

(** val norm_tree : opts -> item list -> item list **)

let norm_tree o seq =
  reorder_runs o (map (norm_tree_item o) seq)

(** val nonempty : 'a1 list -> bool **)

let nonempty = function
| [] -> false
| _ :: _ -> true

(** val md_loop : (item -> item) -> item list -> item list -> item list **)

let rec md_loop rec0 out = function
| [] -> rev out
| x :: rest ->
  let x' = rec0 x in
  (match x' with
   | Tok _ -> md_loop rec0 (x' :: out) rest
   | Grp (d, items) ->
     (match d with
      | DBrack ->
        (match items with
         | [] -> md_loop rec0 (x' :: out) rest
         | dv :: l ->
           (match l with
            | [] -> md_loop rec0 (x' :: out) rest
            | i :: l0 ->
              (match i with
               | Tok _ -> md_loop rec0 (x' :: out) rest
               | Grp (_, b) ->
                 (match l0 with
                  | [] ->
                    (match out with
                     | [] -> md_loop rec0 (x' :: out) rest
                     | h1 :: l1 ->
                       (match l1 with
                        | [] -> md_loop rec0 (x' :: out) rest
                        | i0 :: l2 ->
                          (match i0 with
                           | Tok _ -> md_loop rec0 (x' :: out) rest
                           | Grp (d1, items0) ->
                             (match d1 with
                              | DBrack ->
                                (match items0 with
                                 | [] -> md_loop rec0 (x' :: out) rest
                                 | dv0 :: l3 ->
                                   (match l3 with
                                    | [] -> md_loop rec0 (x' :: out) rest
                                    | i1 :: l4 ->
                                      (match i1 with
                                       | Tok _ ->
                                         md_loop rec0 (x' :: out) rest
                                       | Grp (_, a) ->
                                         (match l4 with
                                          | [] ->
                                            (match l2 with
                                             | [] ->
                                               md_loop rec0 (x' :: out) rest
                                             | h3 :: out' ->
                                               if (&&)
                                                    ((&&)
                                                      ((&&)
                                                        (is_tok dv s_derive)
                                                        (is_tok h1 s_hash))
                                                      (is_tok dv0 s_derive))
                                                    (is_tok h3 s_hash)
                                               then md_loop rec0 ((Grp
                                                      (DBrack, ((Tok
                                                      s_derive) :: ((Grp
                                                      (DParen,
                                                      (app a
                                                        (app
                                                          (if (&&)
                                                                (nonempty a)
                                                                (nonempty b)
                                                           then (Tok
                                                                  s_comma) :: []
                                                           else []) b)))) :: [])))) :: (h3 :: out'))
                                                      rest
                                               else md_loop rec0 (x' :: out)
                                                      rest)
                                          | _ :: _ ->
                                            md_loop rec0 (x' :: out) rest))))
                              | _ -> md_loop rec0 (x' :: out) rest))))
                  | _ :: _ -> md_loop rec0 (x' :: out) rest))))
      | _ -> md_loop rec0 (x' :: out) rest))

(** val md_item : item -> item **)

let rec md_item x = match x with
| Tok _ -> x
| Grp (d, its) -> Grp (d, (md_loop md_item [] its))

(** val merge_derives : item list -> item list **)

let merge_derives seq =
  md_loop md_item [] seq

(** val norm_items : opts -> tok list -> item list **)

let norm_items o ts =
  let t0 = tree o (significant ts) in
  let t1 = norm_seq o None t0 in
  let t2 = if o.o_merge_derives then merge_derives t1 else t1 in
  norm_tree o t2

(** val norm : opts -> tok list -> text list **)

let norm o ts =
  flatten (norm_items o ts)

(** val kind_of_code : n -> kind **)

let kind_of_code = function
| N0 -> Kws
| Npos p ->
  (match p with
   | XI p0 ->
     (match p0 with
      | XI p1 ->
        (match p1 with
         | XI p2 ->
           (match p2 with
            | XO p3 -> (match p3 with
                        | XH -> Klit LByte
                        | _ -> Kunk)
            | _ -> Kunk)
         | XO p2 ->
           (match p2 with
            | XI p3 -> (match p3 with
                        | XH -> Klit LRStr
                        | _ -> Kunk)
            | XO _ -> Kunk
            | XH -> Kp)
         | XH -> Kdbi)
      | XO p1 ->
        (match p1 with
         | XI p2 ->
           (match p2 with
            | XI p3 -> (match p3 with
                        | XH -> Klit LRCStr
                        | _ -> Kunk)
            | XO p3 -> (match p3 with
                        | XH -> Klit LFloat
                        | _ -> Kunk)
            | XH -> Kunk)
         | XO p2 ->
           (match p2 with
            | XI p3 -> (match p3 with
                        | XH -> Klit LBStr
                        | _ -> Kunk)
            | XO _ -> Kunk
            | XH -> Krid)
         | XH -> Kdli)
      | XH -> Kshebang)
   | XO p0 ->
     (match p0 with
      | XI p1 ->
        (match p1 with
         | XI p2 ->
           (match p2 with
            | XO p3 -> (match p3 with
                        | XH -> Klit LChar
                        | _ -> Kunk)
            | _ -> Kunk)
         | XO p2 ->
           (match p2 with
            | XI p3 -> (match p3 with
                        | XH -> Klit LCStr
                        | _ -> Kunk)
            | XO _ -> Kunk
            | XH -> Klt)
         | XH -> Kdbo)
      | XO p1 ->
        (match p1 with
         | XI p2 ->
           (match p2 with
            | XI p3 -> (match p3 with
                        | XH -> Klit LRBStr
                        | _ -> Kunk)
            | XO p3 -> (match p3 with
                        | XH -> Klit LInt
                        | _ -> Kunk)
            | XH -> Kunk)
         | XO p2 ->
           (match p2 with
            | XI p3 -> (match p3 with
                        | XH -> Klit LStr
                        | _ -> Kunk)
            | XO _ -> Kunk
            | XH -> Kid)
         | XH -> Kdlo)
      | XH -> Kbc)
   | XH -> Klc)

(** val opts_of_code : n -> opts **)

let opts_of_code c =
  { o_remove_nested_parens = (N.testbit c N0); o_force_explicit_abi =
    (N.testbit c (Npos XH)); o_hex_case = (N.testbit c (Npos (XO XH)));
    o_float_zero = (N.testbit c (Npos (XI XH))); o_merge_derives =
    (N.testbit c (Npos (XO (XO XH)))); o_edition2015 =
    (N.testbit c (Npos (XI (XO XH)))); o_macro_def = false }

(** val decode : (n * text) list -> tok list **)

let decode toks =
  map (fun p -> ((kind_of_code (fst p)), (snd p))) toks

(** val run_norm : n -> (n * text) list -> text list **)

let run_norm oc toks =
  norm (opts_of_code oc) (decode toks)
