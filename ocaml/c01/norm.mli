
val negb : bool -> bool

type nat =
| O
| S of nat

val fst : ('a1 * 'a2) -> 'a1

val snd : ('a1 * 'a2) -> 'a2

val length : 'a1 list -> nat

val app : 'a1 list -> 'a1 list -> 'a1 list

type comparison =
| Eq
| Lt
| Gt

val pred : nat -> nat

module Nat :
 sig
  val eqb : nat -> nat -> bool

  val leb : nat -> nat -> bool

  val ltb : nat -> nat -> bool
 end

val hd_error : 'a1 list -> 'a1 option

val tl : 'a1 list -> 'a1 list

val removelast : 'a1 list -> 'a1 list

val rev : 'a1 list -> 'a1 list

val concat : 'a1 list list -> 'a1 list

val map : ('a1 -> 'a2) -> 'a1 list -> 'a2 list

val flat_map : ('a1 -> 'a2 list) -> 'a1 list -> 'a2 list

val fold_left : ('a1 -> 'a2 -> 'a1) -> 'a2 list -> 'a1 -> 'a1

val fold_right : ('a2 -> 'a1 -> 'a1) -> 'a1 -> 'a2 list -> 'a1

val existsb : ('a1 -> bool) -> 'a1 list -> bool

val filter : ('a1 -> bool) -> 'a1 list -> 'a1 list

type positive =
| XI of positive
| XO of positive
| XH

type n =
| N0
| Npos of positive

module Pos :
 sig
  val succ : positive -> positive

  val add : positive -> positive -> positive

  val add_carry : positive -> positive -> positive

  val pred_double : positive -> positive

  val pred_N : positive -> n

  val mul : positive -> positive -> positive

  val compare_cont : comparison -> positive -> positive -> comparison

  val compare : positive -> positive -> comparison

  val eqb : positive -> positive -> bool

  val testbit : positive -> n -> bool
 end

module N :
 sig
  val add : n -> n -> n

  val mul : n -> n -> n

  val compare : n -> n -> comparison

  val eqb : n -> n -> bool

  val leb : n -> n -> bool

  val ltb : n -> n -> bool

  val testbit : n -> n -> bool
 end

type ascii =
| Ascii of bool * bool * bool * bool * bool * bool * bool * bool

val n_of_digits : bool list -> n

val n_of_ascii : ascii -> n

type string =
| EmptyString
| String of ascii * string

val list_ascii_of_string : string -> ascii list

type char = n

type text = char list

val lF : char

val cR : char

val sP : char

val is_lf : char -> bool

val is_cr : char -> bool

val is_whitespace : char -> bool

val eqb_text : text -> text -> bool

val t : string -> text

val s_semi : text

val s_comma : text

val s_colon : text

val s_coloncolon : text

val s_arrow : text

val s_fatarrow : text

val s_lt : text

val s_gt : text

val s_eq : text

val s_bang : text

val s_quest : text

val s_dollar : text

val s_hash : text

val s_pipe : text

val s_dot : text

val s_star : text

val s_lparen : text

val s_rparen : text

val s_lbrack : text

val s_rbrack : text

val s_lbrace : text

val s_rbrace : text

val s_andand : text

val s_oror : text

val s_where : text

val s_for : text

val s_extern : text

val s_crate : text

val s_self : text

val s_Self : text

val s_super : text

val s_fn : text

val s_pub : text

val s_in : text

val s_use : text

val s_mod : text

val s_as : text

val s_let : text

val s_struct : text

val s_enum : text

val s_impl : text

val s_trait : text

val s_type : text

val s_const : text

val s_static : text

val s_move : text

val s_return : text

val s_break : text

val s_continue : text

val s_async : text

val s_macro_rules : text

val s_macro_use : text

val s_derive : text

val s_abiC : text

val s_DOC : text

val s_DOCdli : text

val s_DOCdbi : text

val s_DOCdlo : text

val s_DOCdbo : text

val s_starslash : text

val s_0x : text

val s_sp_as_sp : text

val s_USE : text

val s_ITEM : text

val s_rb_lb : text

val s_semi_sp : text

val kEYWORDS : text list

val mem_text : text -> text list -> bool

val starts_with : text -> text -> bool

val is_digit : char -> bool

val is_upper : char -> bool

val is_lower : char -> bool

val is_alpha_ : char -> bool

val is_alnum_ : char -> bool

val is_digit_ : char -> bool

val is_hex_ : char -> bool

val lower_ascii : char -> char

val py_isspace : char -> bool

val drop_while : (char -> bool) -> text -> text

val span : (char -> bool) -> text -> text * text

val rstrip_by : (char -> bool) -> text -> text

val py_rstrip : text -> text

val py_strip : text -> text

val crlf_to_lf : text -> text

val split_lf_aux : text -> text -> text list

val split_lf : text -> text list

val join : text -> text list -> text

val dotstar_dollar : text -> bool

val at_dollar : text -> bool

val ident_tail : text -> bool

val ident_plain : text -> bool

val is_ident_text : text -> bool

val starts_with_digit : text -> bool

val starts_str_lit : text -> bool

type litkind =
| LInt
| LFloat
| LChar
| LByte
| LStr
| LBStr
| LCStr
| LRStr
| LRBStr
| LRCStr

type kind =
| Kws
| Klc
| Kbc
| Kshebang
| Kdlo
| Kdli
| Kdbo
| Kdbi
| Kid
| Krid
| Klt
| Klit of litkind
| Kp
| Kunk

type tok = kind * text

type opts = { o_remove_nested_parens : bool; o_force_explicit_abi : bool;
              o_hex_case : bool; o_float_zero : bool; o_merge_derives : 
              bool; o_edition2015 : bool; o_macro_def : bool }

val set_macro_def : opts -> opts

val is_trivia : kind -> bool

val significant : tok list -> tok list

val doc_kind_name : kind -> text

val doc_block_line : bool -> text -> text

val doc_block_lines : text list -> text list

val doc_norm : kind -> text -> text

val is_cont_blank : char -> bool

val str_cont : bool -> text -> text

val hex_lower : text -> text

val float_strip : text -> text

val lit_norm : opts -> litkind -> text -> text

val atom : opts -> kind -> text -> text

type delim =
| DParen
| DBrack
| DBrace

type item =
| Tok of text
| Grp of delim * item list

val delim_eqb : delim -> delim -> bool

val open_text : delim -> text

val close_text : delim -> text

val open_of : text -> delim option

val is_tok : item -> text -> bool

val is_tok_o : item option -> text -> bool

val is_ident : item -> bool

val is_grp : item -> delim -> bool

val is_grp_o : item option -> delim -> bool

val tok_in : item -> text list -> bool

val float_split : text -> (text * text) option

val tree_step :
  opts -> (item list * (delim * item list) list) -> tok -> item
  list * (delim * item list) list

val tree_unwind : item list -> (delim * item list) list -> item list

val tree : opts -> tok list -> item list

val split_on : ('a1 -> bool) -> 'a1 list -> 'a1 list -> 'a1 list list

val call_like : item option -> bool

val glue_pair : text -> text -> bool

val glue : item list -> item list

val last_stmt_first : item list -> item option -> item option

val drops_tail_semi : item list -> bool

val block_tail : item -> item

val block_tails : item list -> item list

val item_keywords : text list

val single_expr_block : item -> bool

val unwrap : item -> item list

val arms : bool -> item list -> item list

val closure_prev : text list

val starts_expr : item option -> bool

val find_close : item list -> item list -> (item list * item list) option

val closures : nat -> item list -> item list -> item list

val closures_run : item list -> item list

val arrow_before_comma : item list -> bool

val arm_start : item list -> bool

val lead_pipes : bool -> item list -> item list -> item list

val drop_arm_commas : item option -> item list -> item list

val is_brace : delim option -> bool

val arms_and_closures : delim option -> item list -> item list

val last_is : item list -> text -> bool

val count_commas : item list -> nat

val trim_group : item option -> item -> item

val trim_groups : item option -> item list -> item list

val ends_where : item -> bool

val where_commas : bool -> nat -> item list -> item list

val trailing_seps : item list -> item list

val vis_kw : item -> bool

val rewrite_loop : delim option -> item list -> item list -> item list

val rewrite : opts -> delim option -> item list -> item list

type mitem = item * item list

val glue2 : mitem list -> mitem list

val macro_arm : mitem list -> item list

val macro_def : mitem list -> item list

val macro_rules_head : item list -> bool

val collapse_parens : item -> item

val norm_loop :
  (opts -> delim option -> item -> item list) -> opts -> delim option -> item
  list -> bool -> item list -> item list

val norm_in : opts -> delim option -> item -> item list

val norm_seq : opts -> delim option -> item list -> item list

val flatten_item : item -> text list

val flatten : item list -> text list

val text_leb : text -> text -> bool

val texts_leb : text list -> text list -> bool

val eqb_texts : text list -> text list -> bool

val insert_sorted : text -> text list -> text list

val sort_texts : text list -> text list

val insert_uniq : text -> text list -> text list

val sort_uniq : text list -> text list

type uentry = text list * text option

type pstate =
| PScan of text list * bool
| PAlias of text list
| PDone of uentry list

val leaf : text list -> text list -> text option -> uentry list

val render_leaf : uentry -> text

val pfinish : text list -> pstate -> uentry list

val parse_loop :
  (text list -> item -> uentry list) -> bool -> text list -> pstate -> item
  list -> uentry list

val parse_grp : bool -> text list -> item -> uentry list

val parse_entries : bool -> item list -> uentry list

val parse_use : bool -> item list -> text list

val is_inner_doc : item -> bool

val is_outer_doc : item -> bool

val stmts_split : item list -> item list -> item list list * item list

type rkind =
| RUse
| RMod
| RExtern

val rkind_eqb : rkind -> rkind -> bool

val attr_split : bool -> item list -> item list * item list

val vis_split : item list -> item list * item list

val has_macro_use : item list -> bool

val stmt_kind : item list -> ((rkind * item list) * item list) option

val add_class :
  text list -> text list -> (text list * text list) list -> (text list * text
  list) list

val insert_class :
  (text list * text list) -> (text list * text list) list -> (text
  list * text list) list

val use_string : (text list * text list) -> text

val item_string : text -> text

type run = rkind * ((item list * item list) * item list) list

val flush_run : opts -> run option -> item list

val runs : opts -> run option -> item list list -> item list

val reorder_runs : opts -> item list -> item list

val norm_tree_item : opts -> item -> item

val norm_tree : opts -> item list -> item list

val nonempty : 'a1 list -> bool

val md_loop : (item -> item) -> item list -> item list -> item list

val md_item : item -> item

val merge_derives : item list -> item list

val norm_items : opts -> tok list -> item list

val norm : opts -> tok list -> text list

val kind_of_code : n -> kind

val opts_of_code : n -> opts

val decode : (n * text) list -> tok list

val run_norm : n -> (n * text) list -> text list
