#!/usr/bin/env python3
"""Validate the Gallina normaliser (coq/C01, `run_norm`) against the python prototype checks/tokens.py.

usage: validate.py [--n N] [--offset K] [--mode coq|ocaml] [--per-file M] [--files f1 f2 ..]
Lexes N pool programs (source and target side) with the harness, runs checks.tokens.norm and the Coq
`run_norm` (Eval vm_compute in generated case files, or the extracted binary with --mode ocaml) and reports
every file whose two normal forms differ, with the first differing atom."""
import sys, os, json, re, glob, time, subprocess, argparse, random
sys.path.insert(0, "/verif")
from checks import tokens, common, coqterm

KIND = {"ws": 0, "lc": 1, "bc": 2, "shebang": 3, "dlo": 4, "dli": 5, "dbo": 6, "dbi": 7, "id": 8, "rid": 9, "lt": 10,
        "p": 11, "unk": 12, "lit:int": 20, "lit:float": 21, "lit:char": 22, "lit:byte": 23, "lit:str": 24,
        "lit:bstr": 25, "lit:cstr": 26, "lit:rstr": 27, "lit:rbstr": 28, "lit:rcstr": 29}
MODELRUN = "/verif/.cache/c01/modelrun"


def header_opts(text):
    o = {}
    for line in text.split("\n"):
        m = re.match(r"^\s*//\s*rustfmt-([A-Za-z_0-9]+)\s*:\s*(\S+)", line)
        if m:
            o[m.group(1)] = m.group(2)
    return o


def opts_code(o):
    c = 0
    if o.get("remove_nested_parens", "true") == "true":
        c |= 1
    if o.get("force_explicit_abi", "true") == "true":
        c |= 2
    if o.get("hex_literal_case", "Preserve") != "Preserve":
        c |= 4
    if o.get("float_literal_trailing_zero", "Preserve") != "Preserve":
        c |= 8
    if o.get("merge_derives", "true") == "true":
        c |= 16
    if o.get("edition", "2015") == "2015":
        c |= 32
    return c


def lex_all(texts):
    inp = "".join(json.dumps({"text": t}) + "\n" for t in texts)
    r = subprocess.run(["/verif/vhrun", "lex"], input=inp.encode(), stdout=subprocess.PIPE, stderr=subprocess.PIPE, timeout=600)
    lines = r.stdout.decode().split("\n")
    out = [json.loads(l) for l in lines if l.strip()]
    assert len(out) == len(texts), (len(out), len(texts), r.stderr[-500:])
    return out


def coq_tokens(toks):
    return "[" + "; ".join("(%d, %s)" % (KIND.get(k, 12), coqterm.text(t)) for k, t in toks) + "]"


def ocaml_input(code, toks):
    lines = ["OPTS %d" % code]
    for k, t in toks:
        lines.append("%d\t%s" % (KIND.get(k, 12), t.encode("utf-8", "surrogatepass").hex()))
    lines.append("")
    return "\n".join(lines) + "\n"


def run_ocaml(cases):
    inp = "".join(ocaml_input(c, t) for c, t in cases)
    r = subprocess.run([MODELRUN, "--full"], input=inp.encode(), stdout=subprocess.PIPE, timeout=3600)
    res = []
    for line in r.stdout.decode().split("\n"):
        if not line.strip():
            continue
        parts = line.split(" ")
        atoms = [bytes.fromhex(h).decode("utf-8", "surrogatepass") for h in parts[2:]] if len(parts) > 2 else []
        res.append(atoms)
    assert len(res) == len(cases), (len(res), len(cases))
    return res


def mutate(toks, rnd):
    """token-level noise: deletions, duplications, swaps, insertions of delimiters / separators / CRLF"""
    toks = list(toks)
    extra = [("p", c) for c in "(){}[]<>,;|:=!#$.-"] + [("id", w) for w in ("where", "for", "extern", "pub", "in", "crate", "use", "mod", "macro_rules", "derive", "return", "as", "self", "move", "match")] \
        + [("lit:int", "0xAbC_u8"), ("lit:int", "7"), ("lit:float", "1.50_0e3"), ("lit:float", "2.0"), ("lit:float", "3.25"), ("lit:str", '"a\\\r\n   b"'), ("lit:str", '"C"'),
           ("dlo", "/// x  \r"), ("dbo", "/** a\r\n   * b\n */"), ("dli", "//! i "), ("ws", "\r\n"), ("lt", "'a")]
    n = max(3, len(toks) // 12)
    for _ in range(n):
        if not toks:
            break
        i = rnd.randrange(len(toks))
        r = rnd.random()
        if r < 0.3:
            del toks[i]
        elif r < 0.4:
            toks.insert(i, toks[i])
        elif r < 0.5 and i + 1 < len(toks):
            toks[i], toks[i + 1] = toks[i + 1], toks[i]
        else:
            toks.insert(i, rnd.choice(extra))
    return toks


def main():
    ap = argparse.ArgumentParser()
    ap.add_argument("--n", type=int, default=300)
    ap.add_argument("--offset", type=int, default=0)
    ap.add_argument("--mode", default="coq")
    ap.add_argument("--per-file", type=int, default=6)
    ap.add_argument("--files", nargs="*")
    ap.add_argument("--fuzz", type=int, default=0, help="mutate each token stream with this seed (0 = off)")
    a = ap.parse_args()
    files = a.files or (sorted(glob.glob("/verif/corpus/pool/source/*.rs")) + sorted(glob.glob("/verif/corpus/pool/target/*.rs")))
    if not a.files:
        # interleave source / target so that any prefix has both sides
        src = [f for f in files if "/source/" in f]
        tgt = [f for f in files if "/target/" in f]
        files = []
        for i in range(max(len(src), len(tgt))):
            if i < len(src):
                files.append(src[i])
            if i < len(tgt):
                files.append(tgt[i])
        files = files[a.offset:a.offset + a.n]
    texts = [open(f, encoding="utf-8", errors="surrogateescape").read() for f in files]
    t0 = time.time()
    lexed = lex_all(texts)
    t1 = time.time()
    cases = []
    expect = []
    for f, text, toks in zip(files, texts, lexed):
        o = header_opts(text)
        toks = [(k, t) for k, t in toks]
        if a.fuzz:
            toks = mutate(toks, random.Random(a.fuzz * 1000003 + len(cases)))
            o = dict(o)
            rnd = random.Random(a.fuzz * 7 + len(cases))
            for k, vs in (("remove_nested_parens", ["true", "false"]), ("hex_literal_case", ["Preserve", "Upper", "Lower"]),
                          ("float_literal_trailing_zero", ["Preserve", "Always", "IfNoPostfix", "Never"]), ("merge_derives", ["true", "false"]),
                          ("edition", ["2015", "2018", "2021"])):
                o[k] = rnd.choice(vs)
        expect.append(tokens.norm(toks, o))
        cases.append((opts_code(o), toks))
    t2 = time.time()
    if a.mode == "coq":
        exprs = ["run_norm %d %s" % (c, coq_tokens(t)) for c, t in cases]
        vals = common.run_coq_cases("From V Require Import Base.Text C01.Model C01.Run.\nOpen Scope N_scope.", "", exprs, "c01_validate",
                                    per_file=a.per_file, timeout=3000)
        got = [[coqterm.untext(x) for x in v] for v in vals]
    else:
        got = run_ocaml(cases)
    t3 = time.time()
    bad = 0
    ntok = 0
    for f, e, g, (c, t) in zip(files, expect, got, cases):
        ntok += len(t)
        if e != g:
            bad += 1
            print("MISMATCH", f, tokens.first_diff(e, g))
    print("files=%d tokens=%d mismatches=%d lex=%.1fs python=%.1fs %s=%.1fs" % (len(files), ntok, bad, t1 - t0, t2 - t1, a.mode, t3 - t2))
    return 1 if bad else 0


if __name__ == "__main__":
    sys.exit(main())
