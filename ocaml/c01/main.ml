(* main.ml — driver of the extracted C01 normaliser (norm.ml, extracted from coq/C01/Run.v run_norm).

   INPUT (stdin), a sequence of programs, each:
       OPTS <n>            decimal option mask (coq/C01/Run.v: 1 remove_nested_parens, 2 force_explicit_abi,
                           4 hex_literal_case<>Preserve, 8 float_literal_trailing_zero<>Preserve,
                           16 merge_derives, 32 edition 2015)
       <kind>TAB<hex>      one line per token: decimal kind code (coq/C01/Run.v) and the token text as
                           hex-encoded UTF-8 (may be empty)
       (blank line)        end of program
   OUTPUT (stdout), one line per program:
       <number of atoms> <md5 of the line's atom list>             (default)
       <number of atoms> <md5> <hex atom> <hex atom> ...           (with --full: atoms as hex-encoded UTF-8)
   Two programs have the same normal form iff their lines are equal; with --full the first differing atom is
   the first differing field.
   Trusted here: the conversion int <-> N / positive, UTF-8 decoding/encoding, hex, line reading. *)

let rec pos_of_int (i : int) : Norm.positive =
  if i = 1 then Norm.XH else if i land 1 = 0 then Norm.XO (pos_of_int (i lsr 1)) else Norm.XI (pos_of_int (i lsr 1))
let n_of_int (i : int) : Norm.n = if i = 0 then Norm.N0 else Norm.Npos (pos_of_int i)
let rec int_of_pos = function Norm.XH -> 1 | Norm.XO p -> 2 * int_of_pos p | Norm.XI p -> 2 * int_of_pos p + 1
let int_of_n = function Norm.N0 -> 0 | Norm.Npos p -> int_of_pos p

let hexval c = match c with
  | '0'..'9' -> Char.code c - 48 | 'a'..'f' -> Char.code c - 87 | 'A'..'F' -> Char.code c - 55
  | _ -> failwith "bad hex"
let bytes_of_hex (s : string) : string =
  let n = String.length s / 2 in
  String.init n (fun i -> Char.chr (hexval s.[2*i] * 16 + hexval s.[2*i+1]))

(* UTF-8 -> code points (lenient: a malformed byte is taken as its own value) *)
let decode_utf8 (s : string) : int list =
  let n = String.length s in
  let rec go i acc =
    if i >= n then List.rev acc else
    let b = Char.code s.[i] in
    let cont k = if i + k < n then Char.code s.[i+k] land 0x3f else 0 in
    if b < 0x80 then go (i+1) (b :: acc)
    else if b land 0xe0 = 0xc0 && i + 1 < n then go (i+2) ((((b land 0x1f) lsl 6) lor cont 1) :: acc)
    else if b land 0xf0 = 0xe0 && i + 2 < n then go (i+3) ((((b land 0x0f) lsl 12) lor (cont 1 lsl 6) lor cont 2) :: acc)
    else if b land 0xf8 = 0xf0 && i + 3 < n then
      go (i+4) ((((b land 0x07) lsl 18) lor (cont 1 lsl 12) lor (cont 2 lsl 6) lor cont 3) :: acc)
    else go (i+1) (b :: acc)
  in go 0 []

let encode_utf8 (b : Buffer.t) (c : int) : unit =
  let h x = Buffer.add_string b (Printf.sprintf "%02x" x) in
  if c < 0x80 then h c
  else if c < 0x800 then (h (0xc0 lor (c lsr 6)); h (0x80 lor (c land 0x3f)))
  else if c < 0x10000 then (h (0xe0 lor (c lsr 12)); h (0x80 lor ((c lsr 6) land 0x3f)); h (0x80 lor (c land 0x3f)))
  else (h (0xf0 lor (c lsr 18)); h (0x80 lor ((c lsr 12) land 0x3f)); h (0x80 lor ((c lsr 6) land 0x3f)); h (0x80 lor (c land 0x3f)))

let text_of_hex (s : string) : Norm.n list = List.map n_of_int (decode_utf8 (bytes_of_hex s))

let () =
  let full = Array.length Sys.argv > 1 && Sys.argv.(1) = "--full" in
  let opts = ref 0 and toks = ref [] and active = ref false in
  let flush_prog () =
    if !active then begin
      let nf = Norm.run_norm (n_of_int !opts) (List.rev !toks) in
      let b = Buffer.create 4096 in
      List.iter (fun atom -> Buffer.add_char b ' '; List.iter (fun c -> encode_utf8 b (int_of_n c)) atom) nf;
      let body = Buffer.contents b in
      print_string (string_of_int (List.length nf)); print_char ' ';
      print_string (Digest.to_hex (Digest.string body));
      if full then print_string body;
      print_newline ();
      opts := 0; toks := []; active := false
    end in
  (try
    while true do
      let line = input_line stdin in
      let line = if String.length line > 0 && line.[String.length line - 1] = '\r' then String.sub line 0 (String.length line - 1) else line in
      if line = "" then flush_prog ()
      else if String.length line >= 5 && String.sub line 0 5 = "OPTS " then begin
        flush_prog ();
        opts := int_of_string (String.trim (String.sub line 5 (String.length line - 5))); active := true
      end else begin
        active := true;
        match String.index_opt line '\t' with
        | Some i ->
            let k = int_of_string (String.sub line 0 i) in
            let h = String.sub line (i+1) (String.length line - i - 1) in
            toks := (n_of_int k, text_of_hex h) :: !toks
        | None -> toks := (n_of_int (int_of_string line), []) :: !toks
      end
    done
  with End_of_file -> ());
  flush_prog ()
