"""Prototype of C01's token-stream normaliser (the Gallina version in coq/C01 is the one that is proved;
this python version is the executable reference the Coq port is validated against, and the one the pool
runs use for speed).

Input: [(kind, text)] from the harness lexer (rustc_lexer): ws, lc, bc, dlo/dli/dbo/dbi (doc comments),
id, rid, lt, lit:<k>, p (one punctuation char or delimiter), unk, shebang.
norm(tokens, opts) returns a canonical list of strings; two programs are equivalent modulo the closed set
of style normalisations of property C01 iff their normal forms are equal."""
import re

KEYWORDS = set("""as break const continue crate else enum extern false fn for if impl in let loop match mod move mut
pub ref return self Self static struct super trait true type unsafe use where while async await dyn abstract become
box do final macro override priv typeof unsized virtual yield try union raw safe gen""".split())
OPEN = {"(": ")", "[": "]", "{": "}"}
CLOSE = {")", "]", "}"}


class G:
    """a delimited group"""
    __slots__ = ("d", "items")

    def __init__(self, d, items):
        self.d = d
        self.items = items


def significant(tokens):
    out = []
    for k, t in tokens:
        if k in ("ws", "lc", "bc", "shebang"):
            continue
        out.append((k, t))
    return out


def doc_norm(kind, text):
    """doc comments: equal modulo leading blanks of each line (re-indentation) and trailing blanks"""
    lines = text.replace("\r\n", "\n").split("\n")
    if kind in ("dbo", "dbi"):
        ls = []
        for i, l in enumerate(lines):
            s = l.strip()
            if i > 0 and s.startswith("*") and not s.startswith("*/"):
                s = s[1:].strip()
            ls.append(s)
        return "DOC:" + kind + ":" + "\n".join(ls)
    return "DOC:" + kind + ":" + "\n".join(l.rstrip() for l in lines)


def atom(k, t, opts):
    t = t.replace("\r\n", "\n")
    if k in ("dlo", "dli", "dbo", "dbi"):
        return doc_norm(k, t)
    if k.startswith("lit:"):
        return lit_norm(k, t, opts)
    return t


def lit_norm(k, t, opts):
    kind = k[4:]
    if kind in ("str", "bstr", "cstr"):
        # a backslash-newline continuation skips the following white space: compare the value
        return re.sub(r"\\\r?\n[ \t\r\n]*", "", t)
    if kind == "int" and opts.get("hex_literal_case", "Preserve") != "Preserve":
        m = re.match(r"^(0x)([0-9a-fA-F_]+)(.*)$", t)
        if m:
            return m.group(1) + m.group(2).lower() + m.group(3)
    if kind == "float" and opts.get("float_literal_trailing_zero", "Preserve") != "Preserve":
        m = re.match(r"^([0-9_]+)(?:\.([0-9_]*))?((?:[eE][+-]?[0-9_]+)?)(.*)$", t)
        if m:
            frac = (m.group(2) or "").rstrip("0_")
            return m.group(1) + ("." + frac if frac else "") + m.group(3) + m.group(4)
    return t


def tree(toks, opts):
    """nest delimiters; unbalanced input: best effort (returns a flat-ish tree)"""
    stack = [[]]
    opens = []
    for k, t in toks:
        if k == "p" and t in OPEN:
            opens.append(t)
            stack.append([])
        elif k == "p" and t in CLOSE and opens and OPEN[opens[-1]] == t:
            items = stack.pop()
            d = opens.pop()
            stack[-1].append(G(d, items))
        elif k == "lit:float" and re.match(r"^[0-9]+\.[0-9]+$", t) and stack[-1] and is_tok(stack[-1][-1], ".") and not (len(stack[-1]) >= 2 and is_tok(stack[-1][-2], ".")):
            a, b = t.split(".")
            stack[-1].extend([a, ".", b])
        else:
            stack[-1].append(atom(k, t, opts) if k != "p" else t)
    while len(stack) > 1:
        items = stack.pop()
        d = opens.pop()
        stack[-1].append(d)
        stack[-1].extend(items)
    return stack[0]


def is_tok(x, s):
    return isinstance(x, str) and x == s


def is_ident(x):
    return isinstance(x, str) and re.match(r"^(r#)?[A-Za-z_][A-Za-z0-9_]*$", x) is not None


def split_top(items, sep):
    out, cur = [], []
    for x in items:
        if is_tok(x, sep):
            out.append(cur)
            cur = []
        else:
            cur.append(x)
    out.append(cur)
    return out


def call_like(prev):
    """is a `(` group after `prev` an argument / parameter list (trailing comma optional) rather than a
    parenthesised expression or tuple?"""
    if prev is None:
        return False
    if isinstance(prev, G):
        return prev.d in ("(", "[")         # f(a)(b), a[i](b)
    if is_ident(prev) and prev not in KEYWORDS:
        return True
    if prev in ("self", "Self", "super", "crate", "fn"):
        return True
    return prev in (">", "?", "!")


def angle_closes(out):
    """out[-1] is `>`: does it close generic arguments opened in the same statement?  (an arrow still in two
    characters is skipped: norm_seq runs before glue)"""
    if len(out) >= 2 and (is_tok(out[-2], "-") or is_tok(out[-2], "=")):
        return False
    depth = 0
    j = len(out) - 2
    while j >= 0:
        x = out[j]
        if is_tok(x, ";"):
            return False
        if is_tok(x, ">"):
            if not (j >= 1 and (is_tok(out[j - 1], "-") or is_tok(out[j - 1], "="))):
                depth += 1
        elif is_tok(x, "<"):
            if depth == 0:
                return True
            depth -= 1
        j -= 1
    return False


def arg_like(out):
    """is a `(` group that follows the items `out` an argument / parameter list (trailing comma optional, nested
    parentheses significant) rather than a parenthesised expression / pattern / type or a tuple?  As call_like on
    the previous item, except that a `]` group which is an attribute and a `>` that closes nothing do not count"""
    if not out:
        return False
    prev = out[-1]
    if isinstance(prev, G) and prev.d == "[" and len(out) >= 2 and (
            is_tok(out[-2], "#") or (is_tok(out[-2], "!") and len(out) >= 3 and is_tok(out[-3], "#"))):
        return False
    if is_tok(prev, ">"):
        return angle_closes(out)
    return call_like(prev)


def starts_expr(prev):
    """can a `|` after prev open a closure's parameter list?"""
    return prev is None or (isinstance(prev, str) and (prev in ("=", ",", "(", "move", "return", "=>", ":", ";", "async", "static", "&&", "||", "!") or prev in KEYWORDS))


def tuple_commas(items):
    """the commas that separate the elements of a parenthesised list: not those inside matched `<`..`>` (generic
    arguments) nor those between the pipes of a closure's parameter list"""
    visible = 0
    stack = []          # commas seen since each unclosed `<`
    pipe = None         # commas seen since the opening pipe of a closure parameter list
    prev = None
    for x in items:
        if pipe is not None:
            if is_tok(x, ","):
                pipe += 1
            elif is_tok(x, "|"):
                pipe = None
        elif is_tok(x, "|") and starts_expr(prev):
            pipe = 0
        elif is_tok(x, "<"):
            stack.append(0)
        elif is_tok(x, ">") and stack:
            stack.pop()
        elif is_tok(x, ","):
            if stack:
                stack[-1] += 1
            else:
                visible += 1
        prev = x
    return visible + sum(stack) + (pipe or 0)


def norm_seq(items, opts, ctx):
    """normalise a sequence of items (strings and groups) at one nesting level; ctx = enclosing delimiter"""
    # recursive normalisation of sub-groups first
    out = []
    i = 0
    n = len(items)
    while i < n:
        x = items[i]
        prev = out[-1] if out else None
        if isinstance(x, G) and ((len(out) >= 3 and is_tok(out[-2], "!") and is_tok(out[-3], "macro_rules") and is_ident(out[-1]))
                                 or (len(out) >= 4 and is_tok(out[-3], "!") and is_tok(out[-4], "macro_rules") and is_tok(out[-2], "$") and is_ident(out[-1]))):
            out.append(G("{", macro_def(x.items, opts)))
            i += 1
            while i < n and is_tok(items[i], ";"):
                i += 1
            continue
        if isinstance(x, G):
            inner = norm_seq(x.items, opts, x.d)
            g = G(x.d, inner)
            # redundant nested parentheses ((X)) -> (X)
            if opts.get("remove_nested_parens", "true") == "true":
                while g.d == "(" and len(g.items) == 1 and isinstance(g.items[0], G) and g.items[0].d == "(" and not arg_like(out):
                    g = g.items[0]
            if g.d == "(" and len(g.items) == 1 and isinstance(g.items[0], str) and re.match(r"^[0-9]", g.items[0]) and not arg_like(out):
                out.append(g.items[0])
                i += 1
                continue
            # the delimiter of a macro call: name ! ( .. ) / [ .. ] / { .. }
            if is_tok(prev, "!") and len(out) >= 2 and is_ident(out[-2]):
                g = G("(", g.items)
                out.append(g)
                i += 1
                # `m! { .. }` as a statement has no `;`, `m!( .. );` has one (and further `;` are redundant)
                while i < n and is_tok(items[i], ";"):
                    i += 1
                continue
            out.append(g)
            i += 1
            continue
        # empty generic lists / binders:  < >  disappears
        if is_tok(x, "<") and i + 1 < n and is_tok(items[i + 1], ">"):
            i += 2
            if out and (is_tok(out[-1], "::") or is_tok(out[-1], "for")):
                out.pop()
            continue
        out.append(x)
        i += 1
    out = glue(out)
    out = rewrite(out, opts, ctx)
    return out


def macro_def(items, opts):
    """arms `(matcher) => {body}` separated by `;` (trailing one optional); matchers are compared verbatim,
    bodies as code; the delimiters of matcher and body are not significant"""
    out = []
    arms = split_top(glue(list(items)), ";")
    for arm in arms:
        if not arm:
            continue
        if len(arm) == 3 and isinstance(arm[0], G) and is_tok(arm[1], "=>") and isinstance(arm[2], G):
            out.append(G("(", raw(arm[0].items)))
            out.append("=>")
            o2 = dict(opts)
            o2["_macro_def"] = True
            out.append(G("{", norm_seq(arm[2].items, o2, "{")))
        else:
            out.extend(raw(arm))
        out.append(";")
    return out


def raw(items):
    res = []
    for x in items:
        if isinstance(x, G):
            res.append(G(x.d, raw(x.items)))
        else:
            res.append(x)
    return res


def glue(seq):
    """`::` `->` `=>` `..` as single tokens (adjacent punctuation chars)"""
    out = []
    i = 0
    n = len(seq)
    while i < n:
        x = seq[i]
        if isinstance(x, str) and i + 1 < n and isinstance(seq[i + 1], str):
            two = x + seq[i + 1]
            if two in ("::", "->", "=>"):
                out.append(two)
                i += 2
                continue
        out.append(x)
        i += 1
    return out


def rewrite(seq, opts, ctx):
    out = []
    i = 0
    n = len(seq)
    while i < n:
        x = seq[i]
        nxt = seq[i + 1] if i + 1 < n else None
        prev = out[-1] if out else None
        # redundant semicolons
        if is_tok(x, ";") and (is_tok(prev, ";") or (prev is None and ctx == "{")):
            i += 1
            continue
        # `where` with no predicates
        if is_tok(x, "where") and (nxt is None or (isinstance(nxt, G) and nxt.d == "{") or is_tok(nxt, ";") or is_tok(nxt, "=")):
            i += 1
            continue
        # empty bound list  `T:` before , > = { ; ) where
        if is_tok(x, ":") and is_ident(prev) and (nxt is None or is_tok(nxt, ",") or is_tok(nxt, ">") or is_tok(nxt, "=") or is_tok(nxt, "where")) and ctx != "{":
            i += 1
            continue
        # for<> binder already removed `<>`: drop the dangling `for`
        # explicit ABI: `extern` <-> `extern "C"` (canonical form: with the ABI)
        if is_tok(x, "extern") and not is_tok(nxt, "crate") and not (isinstance(nxt, str) and re.match(r'^(r#*)?"', nxt)):
            out.append(x)
            out.append('"C"')
            i += 1
            continue
        # pub(in crate|self|super) -> pub(crate|self|super)
        if is_tok(x, "pub") and isinstance(nxt, G) and nxt.d == "(" and len(nxt.items) == 2 and is_tok(nxt.items[0], "in") and nxt.items[1] in ("crate", "self", "super"):
            out.append(x)
            out.append(G("(", [nxt.items[1]]))
            i += 2
            continue
        if is_tok(x, "pub") and isinstance(nxt, G) and nxt.d == "(" and len(nxt.items) >= 3 and is_tok(nxt.items[0], "in") and is_tok(nxt.items[1], "::"):
            out.append(x)
            out.append(G("(", [nxt.items[0]] + nxt.items[2:]))
            i += 2
            continue
        out.append(x)
        i += 1
    out = block_tails(out)
    if not opts.get("_macro_def"):
        out = arms_and_closures(out, opts, ctx)
    out = trailing_seps(out, ctx)
    return out


def block_tails(seq):
    """`return;` / `break;` / `continue;` as the last statement of a block: the `;` is optional"""
    out = []
    for x in seq:
        if isinstance(x, G) and x.d == "{" and x.items and is_tok(x.items[-1], ";"):
            items = x.items
            j = len(items) - 2
            while j >= 0 and not is_tok(items[j], ";") and not (isinstance(items[j], G) and items[j].d == "{"):
                j -= 1
            last = items[j + 1:-1]
            if last and isinstance(last[0], str) and last[0] in ("return", "break", "continue"):
                x = G("{", items[:-1])
        out.append(x)
    return out


def single_expr_block(g):
    """a `{ e }` block whose body is one expression: non-empty, no top-level `;`, no inner attributes/items"""
    if not isinstance(g, G) or g.d != "{" or not g.items:
        return False
    for x in g.items:
        if is_tok(x, ";"):
            return False
    first = g.items[0]
    if is_tok(first, "use") and len(g.items) > 1 and is_tok(g.items[1], "|"):
        return True
    if is_tok(first, "#") and len(g.items) > 1 and isinstance(g.items[1], G) and g.items[1].d == "[":
        return True
    if isinstance(first, str) and (first.startswith("DOC:") or first == "#" or first in ("let", "fn", "struct", "enum", "use", "mod", "impl", "trait", "type", "const", "static", "macro_rules")):
        return False
    return True


def arms_and_closures(seq, opts, ctx):
    out = []
    i = 0
    n = len(seq)
    while i < n:
        x = seq[i]
        nxt = seq[i + 1] if i + 1 < n else None
        # match arm body: `=> { e }` [,]  <->  `=> e ,`
        if is_tok(x, "=>") and ctx == "{" and isinstance(nxt, G) and nxt.d == "{":
            after = seq[i + 2] if i + 2 < n else None
            out.append(x)
            body = [nxt]
            while len(body) == 1 and single_expr_block(body[0]):
                body = body[0].items
            out.extend(body)
            i += 2
            if is_tok(after, ","):
                i += 1
            if i < n:
                out.append(",")
            continue
        out.append(x)
        i += 1
    # closures: |args| { e }  <->  |args| e
    res = []
    i = 0
    n = len(out)
    while i < n:
        x = out[i]
        if is_tok(x, "|"):
            prev = res[-1] if res else None
            if starts_expr(prev):
                # find the closing pipe of the parameter list
                j = i + 1
                if j < n and is_tok(out[j], "|"):
                    close = j
                else:
                    close = None
                    while j < n:
                        if is_tok(out[j], "|"):
                            close = j
                            break
                        if is_tok(out[j], ";") or is_tok(out[j], "=>"):
                            break
                        j += 1
                if close is not None and close > i + 1 and is_tok(out[close - 1], ","):
                    del out[close - 1]
                    n -= 1
                    close -= 1
                if close is not None and close + 1 < n and single_expr_block(out[close + 1]) and not any(is_tok(t, "=>") for t in out[i:close]):
                    res.extend(out[i:close + 1])
                    body = [out[close + 1]]
                    while len(body) == 1 and single_expr_block(body[0]):
                        body = body[0].items
                    res.extend(body)
                    i = close + 2
                    continue
        res.append(x)
        i += 1
    # leading pipe of a match arm pattern
    final = []
    i = 0
    n = len(res)
    while i < n:
        x = res[i]
        if is_tok(x, "|") and ctx == "{":
            prev = final[-1] if final else None
            after_attr = isinstance(prev, G) and prev.d == "[" and len(final) >= 2 and is_tok(final[-2], "#")
            if prev is None or is_tok(prev, ",") or (isinstance(prev, G) and prev.d == "{") or after_attr:
                # an arm (not a closure statement) iff a top-level `=>` comes before the next `,`
                j = i + 1
                arrow = False
                while j < n and not is_tok(res[j], ","):
                    if is_tok(res[j], "=>"):
                        arrow = True
                        break
                    j += 1
                if arrow:
                    i += 1
                    continue
        final.append(x)
        i += 1
    if ctx == "{" and any(is_tok(t, "=>") for t in final):
        final = [x for k, x in enumerate(final) if not (is_tok(x, ",") and k > 0 and isinstance(final[k - 1], G) and final[k - 1].d == "{")]
    return final


def trailing_seps(seq, ctx):
    """a `,` directly before the end of a group is optional, except the comma of a 1-tuple"""
    out = []
    for k, x in enumerate(seq):
        if isinstance(x, G):
            items = x.items
            if items and is_tok(items[-1], ","):
                # the comma of a one-element tuple (pattern, expression or type) is NOT optional
                if x.d != "(" or tuple_commas(items) >= 2 or arg_like(out):
                    items = items[:-1]
            if x.d == "{" and items and is_tok(items[-1], ";"):
                # `return;` / `break;` / `continue;` as the last statement of a block: the `;` is optional
                j = len(items) - 2
                while j >= 0 and not is_tok(items[j], ";") and not (isinstance(items[j], G) and items[j].d == "{"):
                    j -= 1
                last = items[j + 1:-1]
                if last and isinstance(last[0], str) and last[0] in ("return", "break", "continue"):
                    items = items[:-1]
            x = G(x.d, items)
        out.append(x)
    # generic argument lists: `,` before `>`; where clauses: `,` before the `{`, `;` or `=` that ends them
    res = []
    in_where = False
    angle = 0
    for k, x in enumerate(out):
        nxt = out[k + 1] if k + 1 < len(out) else None
        if is_tok(x, "where"):
            in_where = True
            angle = 0
        if in_where and is_tok(x, "<"):
            angle += 1
        if in_where and is_tok(x, ">") and angle > 0:
            angle -= 1
        if is_tok(x, ",") and is_tok(nxt, ">"):
            continue
        if is_tok(x, ",") and in_where and angle == 0 and (nxt is None or is_tok(nxt, ";") or is_tok(nxt, "=") or (isinstance(nxt, G) and nxt.d == "{")):
            continue
        if in_where and angle == 0 and (is_tok(x, ";") or is_tok(x, "=") or (isinstance(x, G) and x.d == "{")):
            in_where = False
        res.append(x)
    return res


def flatten(seq, out):
    for x in seq:
        if isinstance(x, G):
            out.append(x.d)
            flatten(x.items, out)
            out.append(OPEN[x.d])
        else:
            out.append(x)
    return out


def items_runs(flat, opts):
    """sort the declarations of each maximal run of `use` / `mod x;` / `extern crate` items (reordering is in the
    closed list); merging of imports is handled by expanding every use tree to its leaves"""
    # split the top level stream into statements ending in `;` at depth 0 is done on the tree before flattening
    return flat


def use_leaves(items, drop_root=False):
    """leaves of a use tree given as tree items (without the leading `use` and the trailing `;`):
    `a::{self, b as c, d::*}` -> [a, a::b as c, a::d::*]; `x as x` = `x`; an empty list denotes nothing"""
    def parse(ts, prefix):
        res = []
        for part in split_top(ts, ","):
            if not part:
                continue
            segs = []
            alias = None
            sub = None
            j = 0
            while j < len(part):
                t = part[j]
                if isinstance(t, G):
                    sub = t
                    break
                if t == "as":
                    alias = part[j + 1] if j + 1 < len(part) and isinstance(part[j + 1], str) else None
                    break
                if t != "::":
                    segs.append(t)
                elif j == 0 and not prefix and not drop_root:
                    segs.append("")          # leading `::`
                j += 1
            path = prefix + segs
            if sub is not None:
                res += parse(sub.items, path)
                continue
            if path and path[-1] == "self" and len(path) > 1:
                path = path[:-1]
            if alias is not None and path and alias == path[-1]:
                alias = None
            if path:
                res.append("::".join(path) + ((" as " + alias) if alias else ""))
        return res
    return sorted(set(parse(list(items), [])))


def reorder_runs(seq, opts):
    """canonicalise runs of reorderable declarations in a sequence of tree items (one nesting level)"""
    # statements: split at `;` and at brace groups that end an item
    stmts = []
    cur = []
    for x in seq:
        if isinstance(x, str) and (x.startswith("DOC:dli") or x.startswith("DOC:dbi")):
            if cur:
                stmts.append(cur)
            stmts.append([x])
            cur = []
            continue
        cur.append(x)
        if is_tok(x, ";"):
            stmts.append(cur)
            cur = []
        elif isinstance(x, G) and x.d == "[" and len(cur) == 3 and is_tok(cur[0], "#") and is_tok(cur[1], "!"):
            stmts.append(cur)          # inner attribute
            cur = []
        elif isinstance(x, G) and x.d == "{" and not any(is_tok(t, "use") for t in cur[:-1]):
            stmts.append(cur)
            cur = []
    tail = cur

    def kind(st):
        core = list(st)
        # strip attributes and visibility
        j = 0
        while j < len(core) and (is_tok(core[j], "#") or (isinstance(core[j], G) and core[j].d == "[" and j > 0 and is_tok(core[j - 1], "#")) or (isinstance(core[j], str) and (core[j].startswith("DOC:dlo") or core[j].startswith("DOC:dbo")))):
            j += 1
        k = j
        if k < len(core) and is_tok(core[k], "pub"):
            k += 1
            if k < len(core) and isinstance(core[k], G) and core[k].d == "(":
                k += 1
        if k < len(core) and is_tok(core[k], "use") and is_tok(core[-1], ";"):
            has_macro_use = any(isinstance(g, G) and g.d == "[" and g.items and is_tok(g.items[0], "macro_use") for g in core[:j])
            return ("use", j, k)
        if k + 2 < len(core) + 1 and k < len(core) and is_tok(core[k], "mod") and is_tok(core[-1], ";") and len(core) - k == 3:
            if any(isinstance(g, G) and g.d == "[" and g.items and is_tok(g.items[0], "macro_use") for g in core[:j]):
                return None
            return ("mod", j, k)
        if k + 1 < len(core) and is_tok(core[k], "extern") and is_tok(core[k + 1], "crate"):
            if any(isinstance(g, G) and g.d == "[" and g.items and is_tok(g.items[0], "macro_use") for g in core[:j]):
                return None
            return ("extern", j, k)
        return None

    out = []
    i = 0
    while i < len(stmts):
        kd = kind(stmts[i])
        if kd is None:
            out.extend(stmts[i])
            i += 1
            continue
        j = i
        run = []
        while j < len(stmts):
            k2 = kind(stmts[j])
            if k2 is None or k2[0] != kd[0]:
                break
            run.append((stmts[j], k2))
            j += 1
        if kd[0] == "use":
            # per (attributes, visibility) class: the set of leaves
            classes = {}
            for st, (_, a, k) in run:
                head = tuple(flatten(st[:k], []))
                classes.setdefault(head, set()).update(use_leaves(st[k + 1:-1], opts.get("edition", "2015") == "2015"))
            for head in sorted(classes):
                out.append("USE[" + " ".join(head) + "]{" + "; ".join(sorted(classes[head])) + "}")
        else:
            keyed = sorted((" ".join(flatten(st, [])) for st, _ in run))
            out.extend("ITEM[" + s + "]" for s in keyed)
        i = j
    out.extend(tail)
    return out


def norm_tree(seq, opts):
    res = []
    for x in seq:
        if isinstance(x, G):
            res.append(G(x.d, norm_tree(x.items, opts)))
        else:
            res.append(x)
    return reorder_runs(res, opts)


def merge_derives(seq):
    """#[derive(A)] #[derive(B)] -> #[derive(A, B)]"""
    out = []
    i = 0
    while i < len(seq):
        x = seq[i]
        if isinstance(x, G):
            x = G(x.d, merge_derives(x.items))
        if (isinstance(x, G) and x.d == "[" and x.items and is_tok(x.items[0], "derive") and len(x.items) == 2 and isinstance(x.items[1], G)
                and len(out) >= 3 and is_tok(out[-1], "#") and isinstance(out[-2], G) and out[-2].d == "[" and out[-2].items and is_tok(out[-2].items[0], "derive")
                and len(out[-2].items) == 2 and isinstance(out[-2].items[1], G) and is_tok(out[-3], "#")):
            prevg = out[-2]
            merged = G("(", prevg.items[1].items + ([","] if prevg.items[1].items and x.items[1].items else []) + x.items[1].items)
            out[-2] = G("[", ["derive", merged])
            out.pop()          # the `#` of this attribute
            i += 1
            continue
        out.append(x)
        i += 1
    return out


def norm(tokens, opts=None):
    opts = opts or {}
    t = tree(significant(tokens), opts)
    t = norm_seq(t, opts, None)
    if opts.get("merge_derives", "true") == "true":
        t = merge_derives(t)
    t = norm_tree(t, opts)
    return flatten(t, [])


def first_diff(a, b):
    n = min(len(a), len(b))
    for i in range(n):
        if a[i] != b[i]:
            return i, a[max(0, i - 6):i + 6], b[max(0, i - 6):i + 6]
    if len(a) != len(b):
        return n, a[max(0, n - 6):n + 6], b[max(0, n - 6):n + 6]
    return None
