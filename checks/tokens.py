"""Prototype of C01's token-stream normaliser (the Gallina version in coq/C01 is the one that is proved;
this python version is the executable reference the Coq port is validated against, and the one the pool
runs use for speed).

Input: [(kind, text)] from the harness lexer (rustc_lexer): ws, lc, bc, dlo/dli/dbo/dbi (doc comments),
id, rid, lt, lit:<k>, p (one punctuation char or delimiter), unk, shebang.
norm(tokens, opts) returns a canonical list of strings; two programs are equivalent modulo the closed set
of style normalisations of property C01 iff their normal forms are equal."""
import re

KEYWORDS = set("""as break const continue crate else enum extern false fn for if impl in let loop match mod move mut
pub ref return self Self static struct super trait true type unsafe use where while async await dyn abstract become
box do final macro override priv typeof unsized virtual yield try union raw safe gen""".split())
OPEN = {"(": ")", "[": "]", "{": "}"}
CLOSE = {")", "]", "}"}


class G:
    """a delimited group"""
    __slots__ = ("d", "items")

    def __init__(self, d, items):
        self.d = d
        self.items = items


def significant(tokens):
    out = []
    for k, t in tokens:
        if k in ("ws", "lc", "bc", "shebang"):
            continue
        out.append((k, t))
    return out


def doc_norm(kind, text):
    """doc comments: equal modulo leading blanks of each line (re-indentation) and trailing blanks"""
    lines = text.replace("\r\n", "\n").split("\n")
    if kind in ("dbo", "dbi"):
        ls = []
        for i, l in enumerate(lines):
            s = l.strip()
            if i > 0 and s.startswith("*") and not s.startswith("*/"):
                s = s[1:].strip()
            ls.append(s)
        return "DOC:" + kind + ":" + "\n".join(ls)
    return "DOC:" + kind + ":" + "\n".join(l.rstrip() for l in lines)


def atom(k, t, opts):
    if k in ("dlo", "dli", "dbo", "dbi"):
        return doc_norm(k, t)
    if k.startswith("lit:"):
        return lit_norm(k, t, opts)
    return t


def lit_norm(k, t, opts):
    kind = k[4:]
    if kind in ("str", "bstr", "cstr"):
        # a backslash-newline continuation skips the following white space: compare the value
        return re.sub(r"\\\r?\n[ \t\r\n]*", "", t)
    if kind == "int" and opts.get("hex_literal_case", "Preserve") != "Preserve":
        m = re.match(r"^(0x)([0-9a-fA-F_]+)(.*)$", t)
        if m:
            return m.group(1) + m.group(2).lower() + m.group(3)
    if kind == "float" and opts.get("float_literal_trailing_zero", "Preserve") != "Preserve":
        m = re.match(r"^([0-9_]+)\.([0-9_]*)((?:[eE][+-]?[0-9_]+)?)(.*)$", t)
        if m:
            frac = m.group(2).rstrip("0")
            return m.group(1) + "." + frac + m.group(3) + m.group(4)
    return t


def tree(toks, opts):
    """nest delimiters; unbalanced input: best effort (returns a flat-ish tree)"""
    stack = [[]]
    opens = []
    for k, t in toks:
        if k == "p" and t in OPEN:
            opens.append(t)
            stack.append([])
        elif k == "p" and t in CLOSE and opens and OPEN[opens[-1]] == t:
            items = stack.pop()
            d = opens.pop()
            stack[-1].append(G(d, items))
        else:
            stack[-1].append(atom(k, t, opts) if k != "p" else t)
    while len(stack) > 1:
        items = stack.pop()
        d = opens.pop()
        stack[-1].append(d)
        stack[-1].extend(items)
    return stack[0]


def is_tok(x, s):
    return isinstance(x, str) and x == s


def is_ident(x):
    return isinstance(x, str) and re.match(r"^(r#)?[A-Za-z_][A-Za-z0-9_]*$", x) is not None


def split_top(items, sep):
    out, cur = [], []
    for x in items:
        if is_tok(x, sep):
            out.append(cur)
            cur = []
        else:
            cur.append(x)
    out.append(cur)
    return out


def call_like(prev):
    """is a `(` group after `prev` an argument / parameter list (trailing comma optional) rather than a
    parenthesised expression or tuple?"""
    if prev is None:
        return False
    if isinstance(prev, G):
        return prev.d in ("(", "[")         # f(a)(b), a[i](b)
    if is_ident(prev) and prev not in KEYWORDS:
        return True
    if prev in ("self", "Self", "super", "crate"):
        return True
    return prev in (">", "?", "!")


def norm_seq(items, opts, ctx):
    """normalise a sequence of items (strings and groups) at one nesting level; ctx = enclosing delimiter"""
    # recursive normalisation of sub-groups first
    out = []
    i = 0
    n = len(items)
    while i < n:
        x = items[i]
        prev = out[-1] if out else None
        if isinstance(x, G):
            inner = norm_seq(x.items, opts, x.d)
            g = G(x.d, inner)
            # redundant nested parentheses ((X)) -> (X)
            if opts.get("remove_nested_parens", "true") == "true":
                while g.d == "(" and len(g.items) == 1 and isinstance(g.items[0], G) and g.items[0].d == "(" and not call_like(prev):
                    g = g.items[0]
            # the delimiter of a macro call: name ! ( .. ) / [ .. ] / { .. }
            if is_tok(prev, "!") and len(out) >= 2 and is_ident(out[-2]):
                g = G("(", g.items)
                out.append(g)
                i += 1
                # `m! { .. }` as a statement has no `;`, `m!( .. );` has one: drop it
                if i < n and is_tok(items[i], ";"):
                    i += 1
                continue
            out.append(g)
            i += 1
            continue
        # empty generic lists / binders:  < >  disappears
        if is_tok(x, "<") and i + 1 < n and is_tok(items[i + 1], ">"):
            i += 2
            if out and is_tok(out[-1], "::") :
                out.pop()
            continue
        out.append(x)
        i += 1
    out = glue(out)
    out = rewrite(out, opts, ctx)
    return out


def glue(seq):
    """`::` `->` `=>` `..` as single tokens (adjacent punctuation chars)"""
    out = []
    i = 0
    n = len(seq)
    while i < n:
        x = seq[i]
        if isinstance(x, str) and i + 1 < n and isinstance(seq[i + 1], str):
            two = x + seq[i + 1]
            if two in ("::", "->", "=>"):
                out.append(two)
                i += 2
                continue
        out.append(x)
        i += 1
    return out


def rewrite(seq, opts, ctx):
    out = []
    i = 0
    n = len(seq)
    while i < n:
        x = seq[i]
        nxt = seq[i + 1] if i + 1 < n else None
        prev = out[-1] if out else None
        # redundant semicolons
        if is_tok(x, ";") and (is_tok(prev, ";") or (prev is None and ctx == "{")):
            i += 1
            continue
        # `where` with no predicates
        if is_tok(x, "where") and (nxt is None or (isinstance(nxt, G) and nxt.d == "{") or is_tok(nxt, ";") or is_tok(nxt, "=")):
            i += 1
            continue
        # empty bound list  `T:` before , > = { ; ) where
        if is_tok(x, ":") and is_ident(prev) and (nxt is None or is_tok(nxt, ",") or is_tok(nxt, ">") or is_tok(nxt, "=") or is_tok(nxt, "where")) and ctx != "{":
            i += 1
            continue
        # for<> binder already removed `<>`: drop the dangling `for`
        # explicit ABI
        if is_tok(x, "extern") and not (isinstance(nxt, str) and (nxt.startswith('"') or nxt.startswith("r") and '"' in nxt[:3] or nxt == "crate")):
            if opts.get("force_explicit_abi", "true") == "true":
                out.append(x)
                out.append('"C"')
                i += 1
                continue
        if is_tok(x, "extern") and is_tok(nxt, '"C"') and opts.get("force_explicit_abi", "true") != "true":
            out.append(x)
            out.append('"C"')
            i += 2
            continue
        # pub(in crate|self|super) -> pub(crate|self|super)
        if is_tok(x, "pub") and isinstance(nxt, G) and nxt.d == "(" and len(nxt.items) == 2 and is_tok(nxt.items[0], "in") and nxt.items[1] in ("crate", "self", "super"):
            out.append(x)
            out.append(G("(", [nxt.items[1]]))
            i += 2
            continue
        out.append(x)
        i += 1
    out = arms_and_closures(out, opts, ctx)
    out = trailing_seps(out, ctx)
    return out


def single_expr_block(g):
    """a `{ e }` block whose body is one expression: non-empty, no top-level `;`, no inner attributes/items"""
    if not isinstance(g, G) or g.d != "{" or not g.items:
        return False
    for x in g.items:
        if is_tok(x, ";"):
            return False
    first = g.items[0]
    if isinstance(first, str) and (first.startswith("DOC:") or first == "#" or first in ("let", "fn", "struct", "enum", "use", "mod", "impl", "trait", "type", "const", "static", "macro_rules")):
        return False
    return True


def arms_and_closures(seq, opts, ctx):
    out = []
    i = 0
    n = len(seq)
    while i < n:
        x = seq[i]
        nxt = seq[i + 1] if i + 1 < n else None
        # match arm body: `=> { e }` [,]  <->  `=> e ,`
        if is_tok(x, "=>") and ctx == "{" and isinstance(nxt, G) and nxt.d == "{":
            after = seq[i + 2] if i + 2 < n else None
            out.append(x)
            if single_expr_block(nxt):
                out.extend(nxt.items)
            else:
                out.append(nxt)
            i += 2
            if is_tok(after, ","):
                i += 1
            if i < n:
                out.append(",")
            continue
        out.append(x)
        i += 1
    # closures: |args| { e }  <->  |args| e
    res = []
    i = 0
    n = len(out)
    while i < n:
        x = out[i]
        if is_tok(x, "|"):
            prev = res[-1] if res else None
            starts_expr = prev is None or (isinstance(prev, str) and (prev in ("=", ",", "(", "move", "return", "=>", ":", ";", "async", "static", "&&", "||", "!") or prev in KEYWORDS)) or (isinstance(prev, G) and False)
            if starts_expr:
                # find the closing pipe of the parameter list
                j = i + 1
                if j < n and is_tok(out[j], "|"):
                    close = j
                else:
                    close = None
                    while j < n:
                        if is_tok(out[j], "|"):
                            close = j
                            break
                        if is_tok(out[j], ";") or is_tok(out[j], "=>"):
                            break
                        j += 1
                if close is not None and close + 1 < n and single_expr_block(out[close + 1]) and not any(is_tok(t, "=>") for t in out[i:close]):
                    res.extend(out[i:close + 1])
                    res.extend(out[close + 1].items)
                    i = close + 2
                    continue
        res.append(x)
        i += 1
    # leading pipe of a match arm pattern
    final = []
    i = 0
    n = len(res)
    while i < n:
        x = res[i]
        if is_tok(x, "|") and ctx == "{":
            prev = final[-1] if final else None
            if prev is None or is_tok(prev, ",") or (isinstance(prev, G) and prev.d == "{"):
                # an arm (not a closure statement) iff a top-level `=>` comes before the next `,`
                j = i + 1
                arrow = False
                while j < n and not is_tok(res[j], ","):
                    if is_tok(res[j], "=>"):
                        arrow = True
                        break
                    j += 1
                if arrow:
                    i += 1
                    continue
        final.append(x)
        i += 1
    return final


def trailing_seps(seq, ctx):
    """a `,` directly before the end of a group is optional, except the comma of a 1-tuple"""
    out = []
    for k, x in enumerate(seq):
        if isinstance(x, G):
            items = x.items
            if items and is_tok(items[-1], ","):
                prev = out[-1] if out else None
                ncommas = sum(1 for t in items if is_tok(t, ","))
                if x.d != "(" or ncommas >= 2 or call_like(prev):
                    items = items[:-1]
            # `;` before `}` is NOT optional in general (it changes the block's value): kept
            x = G(x.d, items)
        out.append(x)
    # generic argument lists: `,` before `>`
    res = []
    for k, x in enumerate(out):
        if is_tok(x, ",") and k + 1 < len(out) and is_tok(out[k + 1], ">"):
            continue
        res.append(x)
    return res


def flatten(seq, out):
    for x in seq:
        if isinstance(x, G):
            out.append(x.d)
            flatten(x.items, out)
            out.append(OPEN[x.d])
        else:
            out.append(x)
    return out


def items_runs(flat, opts):
    """sort the declarations of each maximal run of `use` / `mod x;` / `extern crate` items (reordering is in the
    closed list); merging of imports is handled by expanding every use tree to its leaves"""
    # split the top level stream into statements ending in `;` at depth 0 is done on the tree before flattening
    return flat


def use_leaves(tokens):
    """leaves of a use tree given as a flat token list (without the leading `use` and trailing `;`)"""
    def parse(ts, prefix):
        res = []
        # split on top-level commas
        depth = 0
        cur = []
        parts = []
        for t in ts:
            if t == "{":
                depth += 1
            elif t == "}":
                depth -= 1
            if t == "," and depth == 0:
                parts.append(cur)
                cur = []
            else:
                cur.append(t)
        parts.append(cur)
        for p in parts:
            if not p:
                continue
            if "{" in p:
                k = p.index("{")
                # matching close is the last token
                head = [t for t in p[:k] if t != "::"]
                inner = p[k + 1:-1]
                res += parse(inner, prefix + head)
            else:
                segs = []
                alias = None
                j = 0
                while j < len(p):
                    if p[j] == "as":
                        alias = p[j + 1] if j + 1 < len(p) else None
                        break
                    if p[j] != "::":
                        segs.append(p[j])
                    j += 1
                path = prefix + segs
                if path and path[-1] == "self" and len(path) > 1:
                    path = path[:-1]
                if alias is not None and path and alias == path[-1]:
                    alias = None
                res.append("::".join(path) + ((" as " + alias) if alias else ""))
        return res
    lead = ""
    ts = list(tokens)
    if ts and ts[0] == "::":
        lead = "::"
        ts = ts[1:]
    return sorted(set(lead + l for l in parse(ts, [])))


def reorder_runs(seq, opts):
    """canonicalise runs of reorderable declarations in a sequence of tree items (one nesting level)"""
    # statements: split at `;` and at brace groups that end an item
    stmts = []
    cur = []
    for x in seq:
        cur.append(x)
        if is_tok(x, ";"):
            stmts.append(cur)
            cur = []
        elif isinstance(x, G) and x.d == "{":
            stmts.append(cur)
            cur = []
    tail = cur

    def kind(st):
        core = list(st)
        # strip attributes and visibility
        j = 0
        while j < len(core) and (is_tok(core[j], "#") or (isinstance(core[j], G) and core[j].d == "[" and j > 0 and is_tok(core[j - 1], "#")) or (isinstance(core[j], str) and core[j].startswith("DOC:"))):
            j += 1
        k = j
        if k < len(core) and is_tok(core[k], "pub"):
            k += 1
            if k < len(core) and isinstance(core[k], G) and core[k].d == "(":
                k += 1
        if k < len(core) and is_tok(core[k], "use") and is_tok(core[-1], ";"):
            has_macro_use = any(isinstance(g, G) and g.d == "[" and g.items and is_tok(g.items[0], "macro_use") for g in core[:j])
            return ("use", j, k)
        if k + 2 < len(core) + 1 and k < len(core) and is_tok(core[k], "mod") and is_tok(core[-1], ";") and len(core) - k == 3:
            if any(isinstance(g, G) and g.d == "[" and g.items and is_tok(g.items[0], "macro_use") for g in core[:j]):
                return None
            return ("mod", j, k)
        if k + 1 < len(core) and is_tok(core[k], "extern") and is_tok(core[k + 1], "crate"):
            if any(isinstance(g, G) and g.d == "[" and g.items and is_tok(g.items[0], "macro_use") for g in core[:j]):
                return None
            return ("extern", j, k)
        return None

    out = []
    i = 0
    while i < len(stmts):
        kd = kind(stmts[i])
        if kd is None:
            out.extend(stmts[i])
            i += 1
            continue
        j = i
        run = []
        while j < len(stmts):
            k2 = kind(stmts[j])
            if k2 is None or k2[0] != kd[0]:
                break
            run.append((stmts[j], k2))
            j += 1
        if kd[0] == "use":
            # per (attributes, visibility) class: the set of leaves
            classes = {}
            for st, (_, a, k) in run:
                head = tuple(flatten(st[:k], []))
                body = flatten(st[k + 1:-1], [])
                classes.setdefault(head, set()).update(use_leaves(body))
            for head in sorted(classes):
                out.append("USE[" + " ".join(head) + "]{" + "; ".join(sorted(classes[head])) + "}")
        else:
            keyed = sorted((" ".join(flatten(st, [])) for st, _ in run))
            out.extend("ITEM[" + s + "]" for s in keyed)
        i = j
    out.extend(tail)
    return out


def norm_tree(seq, opts):
    res = []
    for x in seq:
        if isinstance(x, G):
            res.append(G(x.d, norm_tree(x.items, opts)))
        else:
            res.append(x)
    return reorder_runs(res, opts)


def merge_derives(seq):
    """#[derive(A)] #[derive(B)] -> #[derive(A, B)]"""
    out = []
    i = 0
    while i < len(seq):
        x = seq[i]
        if isinstance(x, G):
            x = G(x.d, merge_derives(x.items))
        if (isinstance(x, G) and x.d == "[" and x.items and is_tok(x.items[0], "derive") and len(x.items) == 2 and isinstance(x.items[1], G)
                and len(out) >= 3 and is_tok(out[-1], "#") and isinstance(out[-2], G) and out[-2].d == "[" and out[-2].items and is_tok(out[-2].items[0], "derive")
                and len(out[-2].items) == 2 and isinstance(out[-2].items[1], G) and is_tok(out[-3], "#")):
            prevg = out[-2]
            merged = G("(", prevg.items[1].items + ([","] if prevg.items[1].items and x.items[1].items else []) + x.items[1].items)
            out[-2] = G("[", ["derive", merged])
            out.pop()          # the `#` of this attribute
            i += 1
            continue
        out.append(x)
        i += 1
    return out


def norm(tokens, opts=None):
    opts = opts or {}
    t = tree(significant(tokens), opts)
    t = norm_seq(t, opts, None)
    if opts.get("merge_derives", "true") == "true":
        t = merge_derives(t)
    t = norm_tree(t, opts)
    return flatten(t, [])


def first_diff(a, b):
    n = min(len(a), len(b))
    for i in range(n):
        if a[i] != b[i]:
            return i, a[max(0, i - 6):i + 6], b[max(0, i - 6):i + 6]
    if len(a) != len(b):
        return n, a[max(0, n - 6):n + 6], b[max(0, n - 6):n + 6]
    return None
