"""C04 — skip-marked code and opted-out files are emitted verbatim."""
import hashlib
import json
import os
import random
import re
import shutil

from . import common, coqterm, pool
from .common import log

PROP = "C04"
TRUSTED = [
    "Coq 8.16.1 kernel (coqc); vm_compute evaluates the model in cases.v; no native_compute",
    "Print Assumptions of every theorem in coq/C04/Props.v and coq/Gen/C04/SkipSites.v: Closed under the global context (checked each run)",
    "hand-written model coq/C04/Model.v of is_skip / contains_skip (utils.rs) and SkipNameContext (skip.rs); tied to the code by a correspondence run on generated attributes through hook verif_hooks::skip (the model consumes rustc's own MetaItem structure; the expected verdict is recomputed from the generated attribute, independently)",
    "coq/Gen/C04/SkipSites.v is REGENERATED from /repo/src on every run by a syntactic scan (checks/c04.py: does the body of each formatting entry point of an attribute-carrying node test contains_skip / visit_attrs / the skip context?): a syntactic tie, not a semantic proof",
    "that a skipped node's bytes really reach the output is decided per run by the byte-occurrence oracle on pool programs with injected skip attributes (a search, not a theorem); whole-file opt-outs are checked with the real binary",
]
SPELLINGS = ["#[rustfmt::skip]", "#[rustfmt_skip]", "#[cfg_attr(any(), rustfmt::skip)]", "#[cfg_attr(x, cfg_attr(y, rustfmt::skip))]"]

# formatting entry points of attribute-carrying nodes: (file, function, what must occur in its body)
SITES = [
    ("src/visitor.rs", "fn visit_item(", r"visit_attrs|contains_skip"),
    ("src/visitor.rs", "fn visit_assoc_item", r"visit_attrs|contains_skip"),
    ("src/visitor.rs", "fn visit_stmt(", r"contains_skip"),
    ("src/items.rs", "impl Rewrite for ast::Local", r"contains_skip"),
    ("src/items.rs", "fn format_variant(", r"contains_skip"),
    ("src/items.rs", "fn rewrite_struct_field(", r"contains_skip"),
    ("src/expr.rs", "pub(crate) fn rewrite_field", r"contains_skip"),
    ("src/expr.rs", "pub(crate) fn format_expr", r"contains_skip|skip_out_of_file_lines_range"),
    ("src/matches.rs", "fn rewrite_match_arm(", r"contains_skip"),
    ("src/items.rs", "fn format_foreign_item(", r"contains_skip"),
    ("src/reorder.rs", "impl ReorderableItemKind", r"contains_skip"),
    ("src/modules.rs", "fn peek_sub_mod", r"contains_skip"),
    ("src/formatting.rs", "fn should_skip_module", r"contains_skip"),
    ("src/macros.rs", "pub(crate) fn rewrite_macro", r"skip_context"),
    ("src/attr.rs", "impl Rewrite for ast::Attribute", r"skip_context"),
]


def fn_body(tokens, marker):
    """tokens: lexer tokens of the file; marker: e.g. "fn visit_item(" -> the significant token texts;
    returns the concatenated identifier tokens of the function's body, or None"""
    sig = [t for k, t in tokens if k not in ("ws", "lc", "bc", "dlo", "dli", "dbo", "dbi")]
    want = re.findall(r"[A-Za-z_][A-Za-z_0-9]*|\S", marker)
    n, m = len(sig), len(want)
    for i in range(n - m + 1):
        if sig[i:i + m] == want:
            j = i + m
            while j < n and sig[j] != "{":
                if sig[j] == ";":
                    break
                j += 1
            if j >= n or sig[j] != "{":
                continue
            depth = 0
            k = j
            while k < n:
                if sig[k] == "{":
                    depth += 1
                elif sig[k] == "}":
                    depth -= 1
                    if depth == 0:
                        return " ".join(sig[j:k + 1])
                k += 1
    return None


def gen_skip_sites():
    """the translator for Gen/C04/SkipSites.v"""
    rows = []
    files = sorted(set(f for f, _, _ in SITES))
    texts = []
    for f in files:
        try:
            texts.append(open(os.path.join(common.REPO, f)).read())
        except OSError:
            texts.append("")
    ok, blog, _ = common.build_harness()
    if not ok:
        raise RuntimeError("harness build failed:\n" + blog)
    lexed = dict(zip(files, common.run_vh("lex", [{"text": t} for t in texts])))
    for f, marker, pat in SITES:
        body = fn_body(lexed[f], marker)
        found = body is not None
        guarded = bool(body and re.search(pat, body))
        rows.append((f, marker, found, guarded))
    d = os.path.join(common.COQ, "Gen", "C04")
    os.makedirs(d, exist_ok=True)
    lines = ["(* Gen/C04/SkipSites.v — REGENERATED on every run by checks/c04.py from /repo/src: for each formatting entry point of an",
             "   attribute-carrying node, was the function found and does its body consult the skip marker? *)",
             "From Coq Require Import List Bool String.", "Import ListNotations.", "Open Scope string_scope.",
             "Definition sites : list (string * string * bool * bool) := ["]
    lines.append(";\n".join('  ("%s", "%s", %s, %s)' % (f, m.replace('"', ""), "true" if a else "false", "true" if b else "false") for f, m, a, b in rows))
    lines.append("].")
    lines.append("Definition known_unguarded (s : string * string * bool * bool) : bool :=")
    lines.append('  let \'(_, name, _, _) := s in String.eqb name "fn format_foreign_item(".')
    lines.append("(* every entry point exists and is guarded, except the recorded finding (format_foreign_item has no skip check) *)")
    lines.append("Theorem every_entry_guarded : forallb (fun s => let '(_, _, found, guarded) := s in found && (guarded || known_unguarded s)) sites = true.")
    lines.append("Proof. vm_compute. reflexivity. Qed.")
    lines.append("Print Assumptions every_entry_guarded.")
    lines.append("Theorem foreign_item_unguarded_refuted : existsb (fun s => let '(_, _, found, guarded) := s in found && negb guarded && known_unguarded s) sites = true.")
    lines.append("Proof. vm_compute. reflexivity. Qed.")
    lines.append("Print Assumptions foreign_item_unguarded_refuted.")
    new = "\n".join(lines) + "\n"
    p = os.path.join(d, "SkipSites.v")
    old = open(p).read() if os.path.exists(p) else ""
    if new != old:
        open(p, "w").write(new)
    return rows


# ---------------------------------------------------------------- part A: attribute recognition

def gen_meta(rnd, depth=0):
    """(rust text inside #[..], is_skip by the property's wording)"""
    k = rnd.random()
    if k < 0.25:
        return "rustfmt::skip", True
    if k < 0.35:
        return "rustfmt_skip", True
    if k < 0.55 and depth < 3:
        n = rnd.choice([1, 2, 2, 2, 3])
        args, verdicts = [], []
        for _ in range(n):
            if rnd.random() < 0.15:
                args.append('"lit"')
                verdicts.append(False)
            else:
                a, v = gen_meta(rnd, depth + 1)
                args.append(a)
                verdicts.append(v)
        name = rnd.choice(["cfg_attr", "cfg_attr", "cfg_attr", "cfg", "allow"])
        return "%s(%s)" % (name, ", ".join(args)), (name == "cfg_attr" and n == 2 and verdicts[1])
    if k < 0.65:
        return 'doc = "x"', False
    if k < 0.75:
        a = rnd.choice(["rustfmt::skip::macros(foo, bar)", "rustfmt::skip::attributes(derive)", "rustfmt::skipp", "skip", "rustfmt :: skip"])
        return a, a == "rustfmt :: skip"      # path_to_string prints the path without blanks
    return rnd.choice(["inline", "test", "any()", "derive(Clone)", "x"]), False


def gen_cases(tier, seed):
    rnd = common.rng(seed, PROP)
    n = 300 if tier == "quick" else 5000
    cases = []
    for _ in range(n):
        items, verdicts, macs, atts = [], [], [], []
        for _ in range(rnd.randint(1, 3)):
            attrs, v = [], False
            m_names, a_names = [], []
            for _ in range(rnd.randint(0, 3)):
                a, sk = gen_meta(rnd)
                attrs.append("#[%s]" % a)
                v = v or sk
                if a.startswith("rustfmt::skip::macros("):
                    m_names += ["foo", "bar"]
                if a.startswith("rustfmt::skip::attributes("):
                    a_names += ["derive"]
            items.append(" ".join(attrs) + " fn f%d() {}" % len(items))
            verdicts.append(v)
            macs.append(m_names)
            atts.append(a_names)
        cases.append({"text": "\n".join(items) + "\n", "queries": ["foo", "bar", "baz", "derive"], "config": [],
                      "expect": verdicts, "macros": macs, "attributes": atts})
    return cases


def meta_term(m):
    if m is None:
        return "None"
    return "(Some %s)" % meta_inner(m)


def meta_inner(m):
    kind, path, args = m
    T = coqterm.text
    if kind == "w":
        return "(Word %s)" % T(path)
    if kind == "nv":
        return "(NameValue %s)" % T(path)
    return "(MList %s [%s])" % (T(path), "; ".join("MLit" if a[0] == "lit" else "(MItem %s)" % meta_inner(a) for a in args))


def model_expr(c):
    its = c["_items"]
    parts = []
    for it, ms, ats in zip(its, c["macros"], c["attributes"]):
        attrs = "[" + "; ".join(meta_term(m) for m in it["metas"]) + "]"
        parts.append("(run_contains_skip %s, run_ctx %s %s false %s)" % (attrs, coqterm.render(ms), coqterm.render(ats), coqterm.render(c["queries"])))
    return "[" + "; ".join(parts) + "]"


def canon_model(c, v):
    return [[a, [list(q) for q in qs]] for (a, qs) in v]


def canon_impl(c, r):
    return [[it["contains_skip"], it["queries"]] for it in r["items"]]


def oracle(c, r):
    bad = []
    if r.get("items") is None:
        return bad
    for k, (it, want) in enumerate(zip(r["items"], c["expect"])):
        if it["contains_skip"] != want:
            bad.append(("skip_recognition", "item %d of %r: contains_skip = %s, the property's wording says %s" % (k, c["text"], it["contains_skip"], want)))
    return bad


def nontrivial(c, r):
    return any(c["expect"])


# ---------------------------------------------------------------- part C: byte-occurrence oracle on pool programs

KINDS = ["item", "assoc_item", "foreign_item", "stmt", "field", "variant", "arm", "expr_field"]


INNER_SPELLINGS = ["#![rustfmt::skip]", "#![cfg_attr(any(), rustfmt::skip)]", "#![rustfmt_skip]"]
INNER_HEAD = re.compile(r"^(pub(\([a-z: ]+\))?\s+)?((unsafe|const|async|default)\s+)*(fn|mod|impl|trait)\b")


def body_open(snippet):
    """offset of the brace that opens the item's body: the first `{` outside <...>, (...) and [...]"""
    angle = paren = 0
    prev = ""
    for i, ch in enumerate(snippet):
        if ch == "<":
            angle += 1
        elif ch == ">" and prev != "-" and prev != "=":
            angle = max(0, angle - 1)
        elif ch in "([":
            paren += 1
        elif ch in ")]":
            paren -= 1
        elif ch == "{":
            if angle == 0 and paren == 0:
                return i
            return -1            # a brace inside generics / arguments (const expression): not handled
        prev = ch
    return -1


def norm_nl(s):
    return s.replace("\r\n", "\n")


def e2e(rep, tier, seed):
    P = [p for p in pool.load() if p["id"].startswith("source/")]
    MOD = 6
    if tier != "thorough":
        P = [p for p in P if int(hashlib.sha1(p["id"].encode()).hexdigest()[:6], 16) % MOD == seed % MOD]
    nodes = common.run_vh_pool("nodes", [{"text": p["text"], "config": p["header"]} for p in P], per_case_timeout=20)
    cases, meta = [], []
    for p, nd in zip(P, nodes):
        if not isinstance(nd, dict) or not nd.get("nodes"):
            continue
        if "rustfmt::skip" in p["text"] or "rustfmt_skip" in p["text"]:
            continue
        rnd = random.Random(p["id"])
        by_kind = {}
        for kind, lo, hi, parent in nd["nodes"]:
            # an attribute in front of an expression statement binds to the leftmost operand only
            # (`#[a] x = y;` marks `x`): only `let` and macro statements are marked as statements
            if kind == "stmt" and parent == "expr":
                continue
            if kind in KINDS and hi - lo >= 8:
                by_kind.setdefault(kind, []).append((lo, hi))
        picks = []
        for kind, spans in sorted(by_kind.items()):
            for (lo, hi) in rnd.sample(spans, min(2, len(spans))):
                picks.append((kind, lo, hi))
        b = p["text"].encode("utf-8")
        for j, (kind, lo, hi) in enumerate(picks):
            sp = SPELLINGS[(j + len(p["id"])) % len(SPELLINGS)]
            snippet = b[lo:hi].decode("utf-8", "replace")
            if "\n" not in snippet and len(snippet) < 12:
                continue
            text = (b[:lo] + (sp + " ").encode() + b[lo:]).decode("utf-8", "replace")
            for w in ("100", "40"):
                cases.append({"text": text, "config": pool.merged(p["header"], [["max_width", w]]), "again": False, "lex": False})
                meta.append((p["id"], kind, sp, w, snippet))
        # the INNER form: `#![rustfmt::skip]` as the first thing inside the braces of a fn / mod / impl / trait
        inner_done = 0
        for kind in ("item", "assoc_item"):
            for (lo, hi) in by_kind.get(kind, []):
                if inner_done >= 3:
                    break
                snippet = b[lo:hi].decode("utf-8", "replace")
                m = INNER_HEAD.match(snippet)
                k = body_open(snippet)
                if not m or k < 0 or not snippet.rstrip().endswith("}") or "\n" not in snippet:
                    continue
                if any(ch in snippet[:k] for ch in "\"'") or "where" in snippet[:k] and "{" in snippet[:k]:
                    continue
                isp = INNER_SPELLINGS[(inner_done + len(p["id"])) % len(INNER_SPELLINGS)]
                marked = snippet[:k + 1] + " " + isp + snippet[k + 1:]
                text = (b[:lo] + marked.encode() + b[hi:]).decode("utf-8", "replace")
                inner_done += 1
                for w in ("100", "40"):
                    cases.append({"text": text, "config": pool.merged(p["header"], [["max_width", w]]), "again": False, "lex": False})
                    meta.append((p["id"], kind + "_inner", isp, w, marked))
    # synthetic: every item form, skip-marked, at top level, inside an inline module and as an item statement of a
    # function body (out-of-line `mod d;`, `use`, `extern crate` included)
    from . import c01, c16
    forms = ["mod   d ;", "use   a :: { c,b } ;", "extern   crate   e ;", "pub(crate)   mod   m ;"] + [x for x in c01.SYN_ITEMS + c16.SWEEP_ITEMS if "\n" not in x and "mod inline" not in x and "#![" not in x
                                                                                     and not any(m in x for m in ("fn dyn_star", "static X:", "fn abi()"))]       # single items only
    k = 0
    for fi, form in enumerate(forms):
        for ctx in ("top", "mod", "fn"):
            sp = SPELLINGS[(fi + len(ctx)) % len(SPELLINGS)]
            marked = sp + "\n" + form
            if ctx == "top":
                text = "fn  before( ){}\n" + marked + "\nfn  after( ){}\n"
            elif ctx == "mod":
                text = "mod outer {\nfn  before( ){}\n" + marked + "\nfn  after( ){}\n}\n"
            else:
                text = "fn host() {\nlet  a=1;\n" + marked + "\nlet  b=2;\n}\n"
            if tier != "thorough" and (fi + seed) % 2 and fi >= 4:
                continue
            for w in ("100", "40"):
                cases.append({"text": text, "config": [["max_width", w], ["edition", "2024"]], "again": False, "lex": False})
                meta.append(("synth/f%d.%s" % (fi, ctx), "item_" + ctx, sp, w, marked))
    # skip-marked SUB-expressions (not statements): initialiser, call argument, closure body, struct-literal value,
    # match scrutinee, return operand -- the attribute and the expression must both be copied
    ugly = ["( a+b*c )", "call( x,y )", "[ 1,2 ,3 ]", "( p , q )", "S{f:1,g:2}", "x .y( ) .z", "if c {1} else {2}", "& mut * r", "v [ i ]", "m ! ( a,b )"]
    for ei, e in enumerate(ugly):
        sp = SPELLINGS[ei % len(SPELLINGS)]
        marked = sp + " " + e
        ctxs = {"init": "fn host() {\n    let  v  = %s;\n}\n", "arg": "fn host() {\n    target(first,   %s,  last);\n}\n", "closure": "fn host() {\n    let  k  = | q |   %s;\n}\n",
                "field_value": "fn host() {\n    let  s = T { field:   %s, other:1 };\n}\n", "scrutinee": "fn host() {\n    match   %s  { _ => 0 }\n}\n", "ret": "fn host() -> R {\n    return   %s;\n}\n"}
        for cname, tmpl in ctxs.items():
            if cname == "scrutinee" and e.startswith("S{"):
                continue
            for w in ("100", "40"):
                cases.append({"text": tmpl % marked, "config": [["max_width", w], ["edition", "2024"]], "again": False, "lex": False})
                meta.append(("synth/e%d.%s" % (ei, cname), "expr_" + cname, sp, w, marked))
    res = common.run_vh_pool("pool", cases, per_case_timeout=15)
    n = found = 0
    per_kind = {}
    for (pid, kind, sp, w, snippet), c, r in zip(meta, cases, res):
        if not pool.accepted(r) or r["out"] == "":
            continue
        n += 1
        per_kind[kind] = per_kind.get(kind, 0) + 1
        if norm_nl(snippet).strip() not in norm_nl(r["out"]):
            key = "skip_ignored:%s" % kind if kind == "foreign_item" else "skip_not_verbatim:%s:%s" % (kind, pid)
            if rep.violation(key, {"pool_id": pid, "kind": kind, "spelling": sp, "config": c["config"], "input": c["text"], "snippet": snippet, "out": r["out"]},
                             "the bytes of a %s marked %s do not appear in the output (%s, max_width %s): %r" % (kind, sp, pid, w, snippet[:120])):
                found += 1
    rep.coverage["e2e_skip_injections_judged"] = n
    rep.coverage["e2e_per_kind"] = per_kind
    rep.coverage["e2e_rule"] = "pool source programs (thorough: all; quick: the 1/%d selected by the seed) x up to 2 nodes of each kind %s x 4 spellings (rotating) x max_width {100, 40}: the node's source bytes must occur verbatim in the output; plus ~45 item forms (out-of-line mod / use / extern crate declarations included), skip-marked, at top level, inside an inline module and as an item statement of a function body; and 10 badly spaced sub-expressions, skip-marked, as initialiser / call argument / closure body / struct-literal value / match scrutinee / return operand" % (MOD, KINDS)
    found += whole_file(rep)
    return found


NAMED_ATTR = "#[custom(keep,   %s,\n  layout)]"
NAMED_MAC = "custom_mac!(keep,   %s ,\n  layout  )"
# where the named attribute / the named macro call stands (TAG = the marker); every nested formatter (impl / trait items, closure and
# block bodies, nested modules, match arms) has to know the names declared outside it
NAMED_ATTR_POS = {
    "top_fn": "%(A)s\nfn  top( ) {}\n", "impl_item": "impl Foo {\n    %(A)s\n    fn  method( &self ) {}\n}\n", "trait_item": "trait Bar {\n    %(A)s\n    fn  required( &self );\n}\n",
    "stmt": "fn caller() {\n    %(A)s\n    let a  =  1;\n}\n", "closure_stmt": "fn caller() {\n    let f = || {\n        %(A)s\n        let b  =  2;\n        b\n    };\n}\n",
    "block_stmt": "fn caller() {\n    let g = {\n        %(A)s\n        let c  =  3;\n        c\n    };\n}\n", "field": "struct S {\n    %(A)s\n    a :  u8,\n}\n",
    "variant": "enum E {\n    %(A)s\n    V( u8 ),\n}\n", "nested_mod_fn": "mod inner {\n    mod deeper {\n        %(A)s\n        fn  deep( ) {}\n    }\n}\n",
    "impl_fn_stmt": "impl Foo {\n    fn m(&self) {\n        %(A)s\n        let d  =  4;\n    }\n}\n", "match_arm_block": "fn caller() {\n    match x {\n        A => {\n            %(A)s\n            let e  =  5;\n        }\n        _ => {}\n    }\n}\n",
}
NAMED_MAC_POS = {
    "stmt": "fn caller() {\n    %(M)s;\n}\n", "let_init": "fn caller() {\n    let v  =  %(M)s;\n}\n", "item": "%(M)s;\n", "impl_fn_stmt": "impl Foo {\n    fn m( &self ) {\n        %(M)s;\n    }\n}\n",
    "closure_body": "fn caller() {\n    let f = || {\n        %(M)s;\n        1\n    };\n}\n", "call_arg": "fn caller() {\n    wrap( 1,  %(M)s );\n}\n",
    "nested_mod_fn": "mod inner {\n    fn deep() {\n        %(M)s;\n    }\n}\n", "match_arm": "fn caller() {\n    match x {\n        A  =>  %(M)s,\n        _ => other(),\n    }\n}\n",
    "trait_default_fn": "trait Bar {\n    fn d( &self ) {\n        %(M)s;\n    }\n}\n",
}


def named_skips(rep, tier, seed):
    """an attribute named by rustfmt::skip::attributes and the arguments of a macro named by rustfmt::skip::macros /
    skip_macro_invocations keep their bytes, wherever they stand below the declaration of the name"""
    cases, meta = [], []
    for pos, tmpl in sorted(NAMED_ATTR_POS.items()):
        attr = NAMED_ATTR % pos
        body = tmpl % {"A": attr.replace("\n", "\n")}
        decls = {"crate": "#![rustfmt::skip::attributes(custom)]\n" + body,
                 # several declarations of one kind on one node: the names of ALL of them count
                 "crate_second_of_two": "#![rustfmt::skip::attributes(other_name)]\n#![rustfmt::skip::attributes(custom)]\n" + body,
                 "enclosing_mod_second_of_two": "#[rustfmt::skip::attributes(other_name)]\n#[rustfmt::skip::attributes(custom)]\nmod outer {\n" + body + "}\n",
                 "enclosing_mod": "#[rustfmt::skip::attributes(custom)]\nmod outer {\n" + body + "}\n"}
        if pos in ("stmt", "closure_stmt", "block_stmt", "match_arm_block"):
            decls["enclosing_fn"] = body.replace("fn caller() {", "#[rustfmt::skip::attributes(custom)]\nfn caller() {", 1)
        if pos in ("impl_item", "impl_fn_stmt"):
            decls["enclosing_impl"] = "#[rustfmt::skip::attributes(custom)]\n" + body
        for dname, text in sorted(decls.items()):
            for w in ("100", "30"):
                cases.append({"text": text, "config": [["max_width", w]], "again": False, "lex": False})
                meta.append(("attributes", pos, dname, attr))
    for pos, tmpl in sorted(NAMED_MAC_POS.items()):
        mac = NAMED_MAC % pos
        body = tmpl % {"M": mac}
        decls = {"crate": ("#![rustfmt::skip::macros(custom_mac)]\n" + body, []),
                 "crate_second_of_two": ("#![rustfmt::skip::macros(other_mac)]\n#![rustfmt::skip::macros(custom_mac)]\n" + body, []),
                 "enclosing_mod": ("#[rustfmt::skip::macros(custom_mac)]\nmod outer {\n" + body + "}\n", []),
                 "config_name": (body, [["skip_macro_invocations", "[\"custom_mac\"]"]]), "config_star": (body, [["skip_macro_invocations", "[\"*\"]"]])}
        if pos not in ("item",):
            first = body.split("\n")[0]
            decls["enclosing_item"] = ("#[rustfmt::skip::macros(custom_mac)]\n" + body, [])
        for dname, (text, cfg) in sorted(decls.items()):
            for w in ("100", "30"):
                cases.append({"text": text, "config": [["max_width", w]] + cfg, "again": False, "lex": False})
                meta.append(("macros", pos, dname, mac))
    # attribute names that an OPTION rewrites: doc (normalize_doc_attributes), derive (merge_derives); named in skip::attributes they
    # must keep their bytes all the same
    for aname, attr, presets in (("doc", "#[doc = \"keep   this   text\"]", ([], [["normalize_doc_attributes", "true"]])),
                                 ("derive", "#[derive(  Clone,Debug )]\n#[derive(Copy)]", ([], [["merge_derives", "true"]], [["merge_derives", "false"]]))):
        for pos, tmpl in (("top_struct", "%(A)s\nstruct  S ;\n"), ("nested_mod_struct", "mod inner {\n    %(A)s\n    struct  S ;\n}\n"),
                          ("impl_item", "impl Foo {\n    %(A)s\n    fn  m( &self ) {}\n}\n"), ("field", "struct T {\n    %(A)s\n    a :  u8,\n}\n")):
            if aname == "derive" and pos in ("impl_item", "field"):
                continue
            body = tmpl % {"A": attr.replace("\n", "\n" + (" " * (4 if pos != "top_struct" else 0)))}
            for dname, text in (("crate", "#![rustfmt::skip::attributes(%s)]\n%s" % (aname, body)), ("enclosing_mod", "#[rustfmt::skip::attributes(%s)]\nmod outer {\n%s}\n" % (aname, body))):
                for cfg in presets:
                    cases.append({"text": text, "config": [["max_width", "100"]] + cfg, "again": False, "lex": False})
                    meta.append(("attributes", "%s_%s" % (aname, pos), dname, attr))
    res = common.run_vh_pool("pool", cases, per_case_timeout=15)
    from . import pool
    found = n = 0
    for (what, pos, dname, needle), c, r in zip(meta, cases, res):
        if not pool.accepted(r):
            continue
        n += 1
        # the bytes of the attribute / macro call, re-indented line by line at most (the first line's indentation follows the node)
        out = r["out"]
        lines = needle.split("\n")
        ok = lines[0] in out and all(l.strip() in out for l in lines[1:]) and (len(lines) == 1 or " ".join(x.strip() for x in lines) not in out)
        body_ok = norm_nl(needle) in norm_nl(out) or all(l in out for l in lines)
        if not (ok and body_ok):
            if rep.violation("named_skip:%s:%s:%s" % (what, pos, dname), {"what": what, "position": pos, "declared": dname, "config": c["config"], "input": c["text"], "out": out, "expected_bytes": needle},
                             "the %s named by rustfmt::skip::%s (%s, name declared at %s) does not keep its bytes: %r" % ("attribute" if what == "attributes" else "macro call", what, pos, dname, needle)):
                found += 1
    # skip-marked parts of LISTS whose layout an option re-aligns: fields of struct literals / definitions, enum variants, match arms
    ALIGN = [("lit_mid", "fn f() {\n    let v = Foo {\n        a: 1,\n        #[rustfmt::skip]\n        matrix_field: [1,0,\n                       0,1],\n        long_field_name: 2,\n    };\n}\n", "matrix_field: [1,0,\n                       0,1]"),
             ("lit_last", "fn f() {\n    let v = Foo {\n        a: 1,\n        long_field_name: 2,\n        #[rustfmt::skip]\n        matrix_field: [1,0,\n                       0,1],\n    };\n}\n", "matrix_field: [1,0,\n                       0,1]"),
             ("def_mid", "struct S {\n    a: u8,\n    #[rustfmt::skip]\n    matrix_field :   [u8;\n        4],\n    long_field_name: u8,\n}\n", "matrix_field :   [u8;\n        4]"),
             ("enum_mid", "enum E {\n    A = 1,\n    #[rustfmt::skip]\n    Skipped   =   2,\n    LongVariantName = 3,\n}\n", "Skipped   =   2"),
             ("arm_mid", "fn f() {\n    match x {\n        1 => a(),\n        #[rustfmt::skip]\n        2   =>   b( ),\n        _ => c(),\n    }\n}\n", "2   =>   b( )")]
    acases, ameta = [], []
    for nm, text, needle in ALIGN:
        for cfgx in ([], [["struct_field_align_threshold", "20"]], [["enum_discrim_align_threshold", "20"]], [["struct_field_align_threshold", "40"], ["enum_discrim_align_threshold", "40"], ["match_arm_leading_pipes", "Always"]],
                     [["struct_lit_single_line", "false"], ["struct_field_align_threshold", "20"]]):
            acases.append({"text": text, "config": cfgx, "again": False, "lex": False})
            ameta.append((nm, needle))
    for (nm, needle), c, r in zip(ameta, acases, common.run_vh_pool("pool", acases, per_case_timeout=15)):
        if not isinstance(r, dict) or not r.get("out"):
            continue
        n += 1
        if needle not in r["out"]:
            if rep.violation("aligned_list_skip:%s" % nm, {"form": nm, "config": c["config"], "input": c["text"], "out": r["out"], "expected_bytes": needle},
                             "a skip-marked member of a list (%s) under %r does not keep its bytes: %r" % (nm, c["config"], needle)):
                found += 1
    rep.coverage["named_skip_runs_judged"] = n
    rep.coverage["named_skip_rule"] = "a badly laid-out attribute #[custom(..)] at %d positions (top-level / impl / trait items, statements directly in a function, in a closure body, in a block expression, in a match arm, in an impl method, fields, variants, nested modules) with rustfmt::skip::attributes(custom) declared at crate level, on an enclosing module, function or impl; a badly laid-out call custom_mac!(..) at %d positions with the name declared by rustfmt::skip::macros at crate level / an enclosing module / the enclosing item, or by skip_macro_invocations (the name, or *); two widths: the bytes must reappear" % (len(NAMED_ATTR_POS), len(NAMED_MAC_POS))
    return found


def whole_file(rep):
    """whole-file opt-outs with the real binary: file unchanged, not listed by -l, --check exits 0"""
    ok, blog, _ = common.build_bins()
    if not ok:
        raise RuntimeError("build of /repo binaries failed:\n" + blog)
    d = os.path.join(common.CACHE, "c04")
    shutil.rmtree(d, ignore_errors=True)
    os.makedirs(d)
    ugly = "fn  main( ) {   let x=1 ; }\n"
    cases = {
        "inner_skip": ("#![rustfmt::skip]\n" + ugly, [], []),
        "inner_skip_cfg_attr": ("#![cfg_attr(rustfmt, rustfmt::skip)]\n" + ugly, [], []),
        "disable_all_formatting": (ugly, ["--config", "disable_all_formatting=true"], []),
        "ignore": (ugly, [], ['ignore = ["NAME"]\n']),
        "generated": ("// @generated\n" + ugly, ["--config", "format_generated_files=false"], []),
        # the marker on the LAST line that is searched (generated_marker_line_search_limit, 5 by default), not at the start of its line
        "generated_on_line_5": ("// Copyright\n// Licence line two\n// line three\n// line four\n  // this file is @generated by a tool\n" + ugly, ["--config", "format_generated_files=false"], []),
        "generated_on_line_3_limit_3": ("// a\n// b\n/* x */ /* @generated */\n" + ugly, ["--config", "format_generated_files=false,generated_marker_line_search_limit=3"], []),
        "generated_on_line_1_limit_1": ("  /* @generated */\n" + ugly, ["--config", "format_generated_files=false,generated_marker_line_search_limit=1"], []),
    }
    env = common.rust_env()
    env.pop("CARGO_TARGET_DIR", None)
    env["HOME"] = d
    found = 0
    n = 0
    for name, (text, args, toml) in cases.items():
        sub = os.path.join(d, name)
        os.makedirs(sub)
        f = os.path.join(sub, "lib.rs")
        open(f, "w").write(text)
        if toml:
            open(os.path.join(sub, "rustfmt.toml"), "w").write(toml[0].replace("NAME", "lib.rs"))
        before = (open(f).read(), os.stat(f).st_mtime_ns)
        rc1, o1, e1 = common.sh([common.bin_path("rustfmt"), "--check", "-l"] + args + ["lib.rs"], cwd=sub, env=env, timeout=60)
        rc2, o2, e2 = common.sh([common.bin_path("rustfmt")] + args + ["lib.rs"], cwd=sub, env=env, timeout=60)
        after = (open(f).read(), os.stat(f).st_mtime_ns)
        n += 1
        if before != after or rc1 != 0 or "lib.rs" in o1:
            if rep.violation("opt_out:%s" % name, {"case": name, "text": text, "args": args, "check_rc": rc1, "check_out": o1, "stderr": e1[-300:], "changed": before != after},
                             "whole-file opt-out %s: changed=%s, --check exit %d, -l output %r" % (name, before != after, rc1, o1)):
                found += 1
    # the same opt-outs in a file reached through `mod child;` (the marker before the first token, after the last one, in a block comment)
    mcases = {
        "mod_inner_skip": ("#![rustfmt::skip]\n" + ugly, [], None),
        "mod_generated_line_comment_first": ("// @generated by a tool\n" + ugly, ["--config", "format_generated_files=false"], None),
        "mod_generated_block_comment_first": ("/* @generated */\n" + ugly, ["--config", "format_generated_files=false"], None),
        "mod_generated_after_license": ("// Copyright\n// @generated\n\n" + ugly, ["--config", "format_generated_files=false"], None),
        "mod_generated_doc_comment": ("//! @generated\n" + ugly, ["--config", "format_generated_files=false"], None),
        "mod_generated_between_items": ("fn first() {}\n// @generated\n" + ugly, ["--config", "format_generated_files=false"], None),
        "mod_generated_on_line_5": ("// Copyright\n// two\n// three\n// four\n  // @generated\n" + ugly, ["--config", "format_generated_files=false"], None),
        "mod_ignore": (ugly, [], 'ignore = ["child.rs"]\n'),
        "mod_decl_skip": (ugly, [], None),
        "mod_decl_skip_in_module_file": (ugly, [], None),
        "mod_decl_skip_in_cfg_if": (ugly, [], None),
    }
    for name, (text, args, toml) in mcases.items():
        sub = os.path.join(d, name)
        os.makedirs(sub)
        decl = "#[rustfmt::skip]\nmod child;\n" if name == "mod_decl_skip" else "mod child;\n"
        f = os.path.join(sub, "child.rs")
        if name == "mod_decl_skip_in_module_file":
            # the skip-marked declaration stands in a file that is itself an out-of-line module
            decl = "mod holder;\n"
            os.makedirs(os.path.join(sub, "holder"))
            open(os.path.join(sub, "holder.rs"), "w").write("#[rustfmt::skip]\nmod child;\npub fn h() {}\n")
            f = os.path.join(sub, "holder", "child.rs")
        elif name == "mod_decl_skip_in_cfg_if":
            decl = "cfg_if! {\n    if #[cfg(unix)] {\n        #[rustfmt::skip]\n        mod child;\n    }\n}\n"
        open(os.path.join(sub, "lib.rs"), "w").write(decl + "fn root() {}\n")
        open(f, "w").write(text)
        if toml:
            open(os.path.join(sub, "rustfmt.toml"), "w").write(toml)
        before = (open(f).read(), os.stat(f).st_mtime_ns)
        rc1, o1, e1 = common.sh([common.bin_path("rustfmt"), "--check", "-l"] + args + ["lib.rs"], cwd=sub, env=env, timeout=60)
        rc2, o2, e2 = common.sh([common.bin_path("rustfmt")] + args + ["lib.rs"], cwd=sub, env=env, timeout=60)
        after = (open(f).read(), os.stat(f).st_mtime_ns)
        n += 1
        if before != after or rc1 != 0 or "child.rs" in o1:
            if rep.violation("opt_out:%s" % name, {"case": name, "text": text, "args": args, "check_rc": rc1, "check_out": o1, "stderr": e1[-300:], "changed": before != after},
                             "opt-out of a module file (%s): changed=%s, --check exit %d, -l output %r" % (name, before != after, rc1, o1)):
                found += 1
    shutil.rmtree(d, ignore_errors=True)
    rep.coverage["whole_file_opt_outs_checked"] = n
    return found


def run(tier, seed, replay):
    rows = gen_skip_sites()

    def gen(tier_, seed_):
        cases = gen_cases(tier_, seed_)
        ok, blog, _ = common.build_harness()
        if not ok:
            raise RuntimeError("harness build failed:\n" + blog)
        res = common.run_vh("c04", cases)
        keep = []
        for c, r in zip(cases, res):
            if r.get("items") is not None and len(r["items"]) == len(c["expect"]):
                c["_items"] = r["items"]
                keep.append(c)
        return keep

    def extra(rep, tier_, seed_):
        rep.coverage["skip_sites"] = [{"file": f, "fn": m, "found": a, "guarded": b} for f, m, a, b in rows]
        found = 0
        for f, m, a, b in rows:
            if not a:
                if rep.violation("site_missing:%s" % m, {"file": f, "marker": m}, "formatting entry point %s not found in %s (inventory out of date)" % (m, f), no_input=True):
                    found += 1
        return found + e2e(rep, tier_, seed_) + named_skips(rep, tier_, seed_)

    return common.standard_run(
        PROP, tier, seed, replay,
        dirs=["C04", "Gen/C04"], props_file="C04/Props.v", trusted=TRUSTED, gen_cases=gen, vh_sub="c04",
        imports="From V Require Import Base.Text C04.Model C04.Run.\nOpen Scope N_scope.",
        model_expr=model_expr, canon_model=canon_model, canon_impl=canon_impl, oracle=oracle, nontrivial=nontrivial,
        rule="(a) seeded random attribute lists (rustfmt::skip, rustfmt_skip, nested cfg_attr with 1..3 arguments and literals, look-alikes, skip::macros / skip::attributes lists) on 1..3 items: contains_skip and the name-list queries compared with the model and with the verdict recomputed from the generated attribute; (b) the regenerated inventory of formatting entry points (skip_sites); (c) the byte-occurrence oracle with injected skip attributes on pool programs and the whole-file opt-outs with the real binary (see e2e_rule). non-trivial = some item carries a recognised skip; distinct by hash",
        extra=extra, per_file=150,
    )
