"""C16 — rustfmt never terminates abnormally."""
import hashlib
import json
import os
import random
import re

from . import common, coqterm, pool
from .common import log

PROP = "C16"
TRUSTED = [
    "Coq 8.16.1 kernel (coqc); vm_compute evaluates the model in cases.v; no native_compute",
    "Print Assumptions of every theorem in coq/C16/Props.v: Closed under the global context (checked each run); it re-exports exit_range (C06), the total-preorder theorem of the sort comparator (C11) and classify_never_panics (C03)",
    "hand-written model coq/C16/Model.v of the width arithmetic of shape.rs with explicit partiality; tied to the code by a correspondence run of random operation sequences through hook verif_hooks::shape_ops (a debug build: an underflow of an unchecked subtraction would panic)",
    "that NO input makes rustfmt panic, abort, hang or overflow its stack is not a theorem: it is searched with token-level mutants of pool programs in process (catch_unwind + panic location) inside worker processes with a per-case time limit (a dead or hung worker is a finding), and with the real binary for exit status and signals",
]

OPS = list(range(12))


def gen_cases(tier, seed):
    rnd = common.rng(seed, PROP)
    n = 600 if tier == "quick" else 10000
    cases = []
    for _ in range(n):
        b = rnd.choice([0, 4, 8, 40, 96])
        a = rnd.choice([0, 0, 3, 17])
        start = [rnd.choice([0, 5, 60, 100, 8096]), b, a, rnd.choice([a, a, 0, 9])]
        ops = [[rnd.choice(OPS), rnd.choice([0, 1, 2, 4, 7, 20, 100, 200])] for _ in range(rnd.randint(1, 8))]
        cases.append({"start": start, "ops": ops})
    return cases


def model_expr(c):
    return "run_ops %d %d %d %d %s" % (c["start"][0], c["start"][1], c["start"][2], c["start"][3], coqterm.render([tuple(o) for o in c["ops"]]))


def canon_model(c, v):
    v = list(v)            # Coq prints the left-nested tuple flat: (w, b, a, o, ok)
    return {"shape": v[:4], "ok": v[4]}


def canon_impl(c, r):
    return {"shape": r["shape"], "ok": r["ok"]}


def oracle(c, r):
    return []          # a panic of the implementation is reported by standard_run as a disagreement ("impl panicked")


def nontrivial(c, r):
    return not r.get("ok", True) or len(c["ops"]) >= 3


# ---------------------------------------------------------------- mutation search

MUT_OPS = ["del", "dup", "swap", "trunc", "unbalance", "nonascii", "deep", "relines", "rerandom", "wsuni", "respell", "window"]
UNI_WS = ["\u00a0", "\u3000", "\u2003", "\u0085", "\u2028", "\u1680", "\u205f"]
WIDTHS = ["20", "40", "100", "200"]
TABS = ["1", "4", "8"]


def mutate(toks, op, rnd):
    sig = [i for i, (k, t) in enumerate(toks) if k not in ("ws", "lc", "bc")]
    if not sig:
        return None
    if op in ("relines", "rerandom"):
        return pool.relayout(toks, "lines" if op == "relines" else "random", rnd)      # the same program, laid out differently
    if op == "window":
        return "".join(t for _, t in toks)           # the program itself; the case adds a partial file_lines selection
    if op == "respell":
        from . import c09
        return c09.respell("".join(t for _, t in toks), rnd.choice(["cyr", "wide"]))
    if op == "wsuni":
        # white space INSIDE comments re-spelled with non-ASCII white-space characters (the lexer accepts anything there)
        cm = [i for i, (k, t) in enumerate(toks) if k in ("lc", "bc", "dlo", "dli", "dbo", "dbi") and (" " in t or "\t" in t)]
        if not cm:
            return None
        t = [list(x) for x in toks]
        for i in rnd.sample(cm, min(len(cm), 1 + len(cm) // 3)):
            body = t[i][1]
            pos = [j for j, c in enumerate(body) if c in " \t"]
            how = rnd.random()
            if how < 0.4:
                pick = pos[:1]                                   # the blank right after the opener
            elif how < 0.7:
                pick = [j for j in pos if j == 0 or body[j - 1] in "\n \t"] or pos[:1]      # indentation of continuation lines
            else:
                pick = rnd.sample(pos, min(len(pos), 3))
            u = rnd.choice(UNI_WS)
            body = "".join(u if j in pick else c for j, c in enumerate(body))
            t[i][1] = body
        return "".join(x[1] for x in t)
    t = [list(x) for x in toks]
    i = rnd.choice(sig)
    if op == "del":
        del t[i]
    elif op == "dup":
        t.insert(i, [t[i][0], t[i][1]])
        t.insert(i + 1, ["ws", " "])
    elif op == "swap":
        j = rnd.choice(sig)
        t[i], t[j] = t[j], t[i]
    elif op == "trunc":
        t = t[:i]
    elif op == "unbalance":
        opens = [j for j in sig if toks[j][1] in "([{)]}" and toks[j][0] == "p"]
        if not opens:
            return None
        j = rnd.choice(opens)
        if rnd.random() < 0.5:
            del t[j]
        else:
            t.insert(j, ["p", toks[j][1]])
    elif op == "nonascii":
        t.insert(i, ["id", rnd.choice(["é", "日本", "𝄞x", "​", "ß"])])
        t.insert(i + 1, ["ws", " "])
    elif op == "deep":
        d = rnd.choice([4, 8, 12])        # ordinary nesting; formatting time is exponential in the depth at narrow widths (known finding)
        t.insert(i, ["p", "(" * d])
        t.insert(i + 2 if i + 2 <= len(t) else len(t), ["p", ")" * d])
    return "".join(x[1] for x in t)


# ---------------------------------------------------------------- margin sweep
# every kind of expression / statement / item, placed where the remaining width runs out, at EVERY max_width:
# an unchecked `width - k` somewhere in a rewriter shows up at the few widths where fewer than k columns are left
SWEEP_EXPRS = [
    "async move {\n        first_statement().await;\n        second_statement()\n    }", "async {\n        a();\n        b()\n    }",
    "unsafe {\n        a();\n        b()\n    }", "loop {\n        a();\n        break b();\n    }", "|x, y| {\n        a(x);\n        b(y)\n    }",
    "move |x: u32| -> u32 { x + 1 }", "match value {\n        A => 1,\n        B(x) if x > 2 => {\n            a();\n            b()\n        }\n        _ => 0,\n    }",
    "if a_condition { b_value } else { c_value }", "if let Some(x) = y { x } else if z { 1 } else { 2 }", "receiver.first_call().second(|x| x + 1).third::<u8>()?.field.fourth()",
    "Foo { alpha: 1, beta: two(), ..rest }", "Foo::Bar { alpha, beta }", "[first_element, second_element, third_element]", "[0u8; 1024]", "(first, second, third)",
    "a_value + b_value * c_value - d_value / e_value", "value as u64 as usize", "&mut *pointer_value", "start_value..=end_value", "vec![element; count]",
    "format!(\"{} and {}\", first, second)", "future_value.await?", "<Type as Trait>::function(argument)", "function::<First, Second>(argument)",
    "\"a rather long string literal that cannot be broken anywhere\"", "r#\"raw \"string\" literal\"#", "b\"bytes\"", "-negated_value", "!inverted_value",
    "array[index_one][index_two]", "const { 1 + 2 }", "'label: loop {\n        break 'label 1;\n    }", "while let Some(x) = iterator.next() {\n        a(x);\n    }",
    "for element in collection.iter() {\n        a(element);\n    }", "some_function(first_argument, second_argument, |x| x.method(), third)", "return_value?", "x.0.1.2",
    "&&double_ref", "*deref_value = other", "a == b && c != d || e < f", "a << 2 | b >> 3 & c ^ d", "Some(Ok(Box::new(inner_value)))", "closure_taking(|| async move { a().await })",
    "match x { 0..=9 => \"digit\", _ => \"other\" }", "if let Some(a) = b && let Ok(c) = d { a + c } else { 0 }", "&raw const place.field", "loop {}", "{}", "()",
]
SWEEP_PATS = ["x", "(first_binding_name, second_binding_name)", "Wrapper { inner_field_name, another_field_name: renamed }", "mut accumulated_result_value_with_a_long_name"]
SWEEP_ITEMS = [
    "pub(crate) async unsafe fn name<'a, T: Bound + 'a, const N: usize>(first: &'a T, second: [u8; N]) -> Result<T, Error> where T: Other<Assoc = u8> { body() }",
    "impl<'a, T: ?Sized + Trait<Item = u8>> Trait for Type<'a, T> where T: 'a { type Item = u8; const C: usize = 1; fn f(&self) -> u8 { 1 } }",
    "pub trait Name<T>: Super + Other<T> where T: Clone { type Assoc: Bound + ?Sized; const C: T; fn required(&self, x: T) -> Self::Assoc; fn provided(&self) {} }",
    "#[derive(Debug, Clone)] pub enum E<T> { Unit, Tuple(u8, T), Struct { a: u8, b: T }, Disc = 3 }", "pub struct S<T>(pub T, pub(crate) u8) where T: Copy;",
    "pub static mut GLOBAL_VALUE: [u8; 4] = [1, 2, 3, 4];", "pub type Alias<'a, T> = Box<dyn Fn(&'a T) -> Result<T, Error> + Send + Sync + 'a>;",
    "extern \"C\" { fn foreign(a: u8, ...) -> u8; static X: u8; type Opaque; }", "macro_rules! m { ($a:expr, $($b:tt)*) => { $a + m!($($b)*) }; () => { 0 }; }",
    "use a::{b::{c, d as e}, f::*, g::{self, h}};", "pub union U { a: u8, b: u32 }", "impl !Send for Type {}", "unsafe impl<T> Sync for Type<T> where T: Send {}",
    "fn f(self: Box<Self>, (a, b): (u8, u8), Wrapper { x, .. }: Wrapper, _: impl Fn(u8) -> u8 + 'static) {}", "const fn c() -> u8 { 1 }", "pub mod inline { pub fn f() {} }",
]


def sweep_cases(tier, seed):
    out = []
    widths = list(range(20, 131))
    if tier != "thorough":
        widths = [w for w in widths if (w + seed) % 3 == 0]
    for ei, e in enumerate(SWEEP_EXPRS):
        for pi, pat in enumerate(SWEEP_PATS):
            if tier != "thorough" and (ei + pi + seed) % 2:
                continue
            for ctx in (0, 1):
                body = "let %s = %s;" % (pat, e) if ctx == 0 else "outer_function_call(%s, %s)" % (pat.split(" ")[-1].strip("(){}") or "x", e)
                text = "fn wrapper() {\n    %s\n}\n" % body if ctx == 0 else "fn wrapper() {\n    if c {\n        %s;\n    }\n}\n" % body
                for w in widths:
                    out.append(({"text": text, "config": [["max_width", str(w)], ["edition", "2024"]], "again": False, "lex": False}, ("sweep/e%d.p%d.c%d" % (ei, pi, ctx), w)))
    for ii, it in enumerate(SWEEP_ITEMS):
        for nest in (0, 2):
            text = it + "\n"
            for _ in range(nest):
                text = "mod m {\n" + text + "}\n"
            for w in widths:
                out.append(({"text": text, "config": [["max_width", str(w)], ["edition", "2024"]], "again": False, "lex": False}, ("sweep/i%d.n%d" % (ii, nest), w)))
    return out


EXOTIC = [
    "impl S { reuse a::b; }", "trait T { reuse x::y; fn f(); }", "reuse a::b as c;", "reuse a::{b, c};", "impl S { reuse a::{b, c} { self.0 } }",
    "extern \"a\nb\" {}", "unsafe extern \"C\" { pub safe fn f(); pub unsafe fn g(); static X: u8; }", "extern { type Opaque; fn variadic(a: u8, ...); }",
    "fn f() { let g = gen { yield 1; yield 2; }; let h = async gen move { yield 3; }; }", "fn f() { become g(1, 2); }", "fn f() -> u8 { do yeet 1 }",
    "fn f() { let x = try { a()?; b()? }; }", "fn f() { let _ = builtin # offset_of(Type, field); }", "fn f(x: &pin mut T, y: &pin const U) {}",
    "impl const Trait for S {}", "fn f<T: ~const Trait + [const] Other>() {}", "fn f() -> impl Sized + use<'a, T> {}", "default impl<T> Trait for T {}",
    "auto trait Marker {}", "unsafe auto trait M2 {}", "macro m($a:expr) { $a + 1 }", "pub macro n { ($x:ty) => { $x }, () => {} }", "trait Alias = Clone + Send;",
    "type X = impl Trait;", "fn f() { let Some(x) = y else { return }; }", "fn f() { if let Some(a) = b && c && let D(e) = f { } }",
    "fn f() { match x { (A | B) if c => 1, (y if y > 0) | Z => 2, const { 1 } => 3, deref!(p) => 4, _ => 5 } }", "fn f() { let c\"c string\" = cr#\"raw c\"#; }",
    "fn r#fn<'r#a>(r#x: &'r#a u8) {}", "static X: _ = 1;", "const _: () = ();", "fn f() { let mut ref x = y; let ref mut z = w; }", "fn f() { super let x = 1; }",
    "fn f() { let c = for<'a> |x: &'a u8| -> &'a u8 { x }; let d = const || 1; let e = static move || { yield; }; }", "fn f(x: unsafe<'a> &'a u8) {}",
    "fn f() { x = #[attr] y + #[other] { 1 }; #[attr] if a { } #[a] loop { } }", "fn f() where for<'a> &'a T: Trait<Out = u8>, [T; N]: , {}",
    "impl<T> S<T> { pub const unsafe extern \"C\" fn f() {} pub(in crate::a) default async fn g(&self) {} }", "fn f() { let x: pattern_type!(u32 is 1..) = 1; }",
    "enum E { A = 1 << 2, #[a] B { #[b] x: u8 }, C(#[c] u8), }", "struct S<const N: usize = { 1 + 2 }, T = [u8; N]>([T; N]);", "union U { a: core::mem::ManuallyDrop<u8> }",
    "fn f() { 'a: { break 'a; } 'b: for _ in 0..1 { continue 'b } }", "fn f() { let _ = &raw mut x; let _ = &raw const y; let _ = x.await; let _ = x?.y?; }",
    "#![feature(x)]\n#![rustfmt::skip::macros(m)]\nfn f() { m!( a  b ); }", "mod m { #![allow(x)] }", "fn f() { unsafe { asm!(\"nop\", in(reg) x, options(nomem)); } }",
    "fn f() { let x = 0x_1f_u8 + 1e10_f64 + 0b1_0 + 1_u128 + 'a' as u8 + b'\\n' + b\"x\"[0]; }", "fn f(self: &'_ mut Self, _: impl for<'a> Fn(&'a u8)) -> Box<dyn for<'a> Tr<'a> + '_> {}",
    "pub(self) use self::super::a as _;", "extern crate self as this;", "#[cfg_attr(a, derive(B), doc = \"c\")]\n#[doc = include_str!(\"x.md\")]\nstruct S;",
    "fn f() { return; } fn g() -> ! { loop {} } fn h() { let _: ! = panic!(); }", "fn f() { a..b; ..b; a..; ..; a..=b; ..=b; }", "fn f() { if a {} else if b {} else {} while c {} }",
    "impl<'a> !Send for &'a S {}", "fn f<'a, 'b: 'a, T: 'a + ?Sized + for<'c> Tr<'c>, const N: usize>() {}", "fn f() { let (a, .., z) = t; let [first, rest @ ..] = arr; let S { x, .. } = s; let 0..=9 | 20.. = n; }",
    "fn f() { m! {}; m![]; m!(); a::b::m!{ x }; }", "macro_rules! e { () => {}; ($($x:tt),* $(,)?) => { $($x)* }; }", "fn f() { let x = box_syntax!(1); yield_!(2); }",
    "fn f() {\n    let s = \"line one  \n\n  line three\";\n}", "// only a comment", "", "\n\n\n", "#!/usr/bin/env run\nfn f() {}", "\ufefffn f() {}",
]
WINDOW_LINES = ["// c  ", "//~  marker  ", "/* open  ", "   text   ", "*/  ", "", "", "fn  a( ) {", "    let s = \"abc  ", "  x\";  ", "}", "const S: &str = \"abc  ", "x\";", "#[attr]  ", "struct  T ;  ",
                "    // inner  ", "    let y=1 ;   ", "\t", "impl  X { ", "    fn m( &self ) { }  ", "/// doc  ", "//! inner doc  ", "mod m {", "use a::{b,  c} ;  "]


COMMENT_FORMS = ["// plain comment text", "//~ ERROR marker text", "//- note text", "//@ directive: value", "//! inner doc text", "/// outer doc text", "//// four slashes",
                 "//x no blank", "//\ttab after", "/* block text */", "/** doc block */", "/*! inner block */", "/*** stars ***/", "/* first line\n * second line\n * third\n */",
                 "/*\n   * indented star\n   text without star\n*/", "// * item one\n// * item two\n//   continued", "// 1. numbered\n// 2) other", "// > quote text\n// > more",
                 "// ```\n// code  block\n// ```", "/// # Heading\n///\n/// - bullet with `code`\n///   continued line", "// TODO(name): something  \n//   aligned", "//",
                 # block quotes and list markers whose prefix is not spelled `> ` per level / that have nothing after the marker
                 "// > >>>> x", "// >>> \u00e9", "// >", "// >>x\n// > > y", "// * > x", "// - >", "// 1.", "// *", "// -", "// +x", "// 10. > >> q", "// >\t>\tx", "/* > >>>> x */",
                 "/// > >>>> doc quote\n/// >> more"]


def comment_cases(tier, seed):
    """every comment form with each of its blanks (one at a time, or all) re-spelled as a non-ASCII white-space character, at four
    placements, with and without comment rewriting"""
    out = []
    rnd = random.Random("c16-comments-%d" % seed)
    for fi, form in enumerate(COMMENT_FORMS):
        pos = [j for j, c in enumerate(form) if c in " \t"]
        variants = [form]
        for u in UNI_WS:
            for j in pos[:4] + pos[-1:]:
                variants.append(form[:j] + u + form[j + 1:])
            variants.append("".join(u if c in " \t" else c for c in form))
        if tier != "thorough":
            variants = [variants[0]] + [v for i, v in enumerate(variants[1:]) if (i + fi + seed) % 3 == 0]
        for vi, v in enumerate(variants):
            line_comment = v.lstrip().startswith("//")
            texts = ["fn a() {}\n%s\nfn b() {}\n" % v,
                     "fn a() {\n    let x = 1; %s\n    let y = 2;\n}\n" % (v if "\n" not in v else v.split("\n")[0] + (" */" if not line_comment else "")),
                     "fn a() {\n    %s\n    call();\n}\n" % v.replace("\n", "\n    "),
                     "struct S {\n    a: u8, %s\n    b: u8,\n}\n" % (v.split("\n")[0] + (" */" if not line_comment and "\n" in v else ""))]
            for ti, text in enumerate(texts):
                for ci, extra in enumerate(([], [["wrap_comments", "true"], ["normalize_comments", "true"], ["max_width", "40"]])):
                    out.append(({"text": text, "config": [["edition", "2024"], ["error_on_unformatted", "true"]] + extra, "again": False, "lex": False}, ("comment/%d.%d.%d.%d" % (fi, vi, ti, ci), "100")))
    return out


NASTY_COMMENTS = ["/**/", "/* */", "/***/", "/*! x */", "/** d */", "/* a\n   b */", "// x\n", "//\n", "/*/ */", "/* \"q) */"]


def inside_comment_cases(tier, seed):
    """the statement forms of C03 with a degenerate comment (empty, doc-like, multi-line, line) at EVERY token boundary, preceded by
    0 / 1 / 3 blanks and followed by a blank or a newline, under the default and the newest style edition"""
    from . import c03
    texts = ["fn wrapper() {\n    %s\n}\n" % f for f in c03.INSIDE_FORMS]
    lexed = common.run_vh_pool("lex", [{"text": t} for t in texts], per_case_timeout=20)
    out = []
    k = 0
    for fi, (t, toks) in enumerate(zip(texts, lexed)):
        if not isinstance(toks, list):
            continue
        b = t.encode("utf-8")
        offs, o = [], 0
        for kk, tt in toks:
            offs.append((o, kk, tt))
            o += len(tt.encode("utf-8"))
        lo, hi = t.index("{") + 1, t.rindex("}")
        sg = [(off, kk, tt) for off, kk, tt in offs if lo < off < hi and kk not in ("ws", "lc", "bc")]
        for bi in range(1, len(sg)):
            off, prev, cur = sg[bi][0], sg[bi - 1][2], sg[bi][2]
            if prev in ("$", "#", "'") or (prev == ":" and cur == ":") or (prev in "=<>-+|&." and cur in "=<>|&."):
                continue
            for ci, cm in enumerate(NASTY_COMMENTS):
                for pre in ("", " ", "   "):
                    for post in (" ", "\n"):
                        k += 1
                        # always at the seams before a separator / closer (the gaps that the missed-span code handles), a sample elsewhere
                        if tier != "thorough" and (k + seed) % 7 and not (cur in (";", ",", ")", "}", "]") and ci in (1, 5)):
                            continue
                        text = (b[:off] + (pre + cm + ("" if cm.endswith("\n") else post)).encode() + b[off:]).decode("utf-8")
                        seam = cur in (";", ",", ")", "}", "]") and ci in (1, 5)
                        for se in (("2015", "2024") if seam else (("2024",) if k % 2 else ("2015",))):
                            out.append(({"text": text, "config": [["style_edition", se], ["edition", "2021"]], "again": False, "lex": False}, ("incomment/%d.%d.%d" % (fi, bi, ci), "100")))
    return out


KITCHEN_SINK = """//! inner doc of the file
use std::{fmt, io::{self, Read}};
use a::b as c;

/// outer doc
#[derive(Debug, Clone)]
pub struct Empty {}
pub struct Unit;
pub struct Pair(pub u8, u8);
pub struct Rec { pub first: u32, second: Option<Box<Rec>> }
pub enum Never {}
pub enum Choice { A, B(u8), C { x: u8 } }
pub trait Shape { fn nothing(&self) {} fn area(&self) -> f64; fn one(&self) -> u8 { 1 } }
impl Shape for Unit { fn nothing(&self) {} fn area(&self) -> f64 { 0. } }
impl Drop for Pair { fn drop(&mut self) {} }
impl Empty {}
fn nothing() {}
fn single() -> u8 { 1 }
fn one_call() { call() }
fn generic<T: Clone + fmt::Debug, U>(t: T, u: &mut U) -> T where U: Read { t.clone() }
extern "C" { fn ffi(x: i32) -> i32; }
mod inline { pub fn f() {} }
mod empty_mod {}
macro_rules! mac { () => {}; ($x:expr) => { $x + 1 }; }
const TABLE: [u8; 3] = [1, 2, 3];
static NAME: &str = "a string with some more text to make it a little bit longer than usual, so that it can be broken";
type Alias<T> = Result<T, ()>;
fn body(v: Option<u8>, r: Rec) -> Result<u8, ()> {
    // a line comment that is reasonably long so that wrapping it has something to do when enabled
    /* a block comment */
    let closure = |x: u8| x + 1;
    let empty_closure = || {};
    let s = Rec { first: 1, second: None };
    let Rec { first, .. } = r;
    let t = try!(single_result());
    let arr = [1, 2, 3,];
    let range = 0..10;
    let hex = 0xAbCd;
    let float = 1.;
    match v { Some(x) if x > 1 => { closure(x); } Some(_) | None => {} }
    if first > 1 { return Ok(1); } else if first == 0 {} else { loop { break; } }
    while let Some(_) = v { continue; }
    for i in 0..3 { println!("{}", i); }
    let chain = s.second.as_ref().map(|b| b.first).unwrap_or_default().checked_add(1).unwrap();
    unsafe { ffi(1); }
    Ok(t?)
}
"""


def option_settings():
    """(option, non-default value) for every option of Configurations.md whose values are listed there (booleans and enumerations)"""
    import re
    txt = open(os.path.join(common.REPO, "Configurations.md")).read()
    out = []
    for sec in re.split(r"(?m)^## `", txt)[1:]:
        name = sec.split("`", 1)[0]
        d = re.search(r"\*\*Default value\*\*: `([^`]*)`", sec)
        pv = re.search(r"\*\*Possible values\*\*:(.*)", sec)
        if not d or not pv or name in ("ignore", "file_lines", "required_version", "edition", "style_edition", "version", "license_template_path", "emit_mode", "make_backup", "print_misformatted_file_names", "disable_all_formatting", "skip_children", "show_parse_errors", "hide_parse_errors", "color", "unstable_features", "verbose"):
            continue
        vals = [v.strip('"') for v in re.findall(r"`([^`]*)`", pv.group(1))]
        if not vals or any(" " in v for v in vals):
            continue
        dflt = d.group(1).strip('"')
        for v in vals:
            if v != dflt and v != "max_width" and re.match(r"^[A-Za-z0-9_]+$", v):
                out.append((name, v, dflt in ("true", "false")))
    return out


def option_pair_cases(tier, seed):
    """the kitchen-sink file under every PAIR of boolean options flipped away from their defaults (quick and thorough), and under every
    pair of listed non-default settings of any two options (thorough; quick: the slice selected by the seed)"""
    st = option_settings()
    out = []
    for i in range(len(st)):
        for j in range(i + 1, len(st)):
            (n1, v1, b1), (n2, v2, b2) = st[i], st[j]
            if n1 == n2:
                continue
            if not (b1 and b2) and tier != "thorough" and (i * 131 + j + seed) % 16:
                continue
            for ed in (("2015",) if tier != "thorough" else ("2015", "2024")):
                out.append(({"text": KITCHEN_SINK, "config": [["edition", "2015"], ["style_edition", ed], [n1, v1], [n2, v2]], "again": False, "lex": False},
                            ("optpair/%s=%s,%s=%s/se%s" % (n1, v1, n2, v2, ed), "100")))
    return out


def extra_cases(tier, seed):
    """(a) syntax the parser accepts but the formatter rarely sees (unstable features, odd literals, degenerate files) at
    several widths; (b) partial file_lines selections over texts whose unselected lines end in blanks (comments, string
    continuation lines, attributes) next to empty lines"""
    out = []
    for i, e in enumerate(EXOTIC):
        for w in ("20", "40", "100"):
            for extra in ([], [["wrap_comments", "true"], ["normalize_comments", "true"], ["format_strings", "true"]]):
                out.append(({"text": e + "\n", "config": [["max_width", w], ["edition", "2024"], ["error_on_line_overflow", "true"], ["error_on_unformatted", "true"]] + extra, "again": False, "lex": False}, ("exotic/%d" % i, w)))
    out += comment_cases(tier, seed)
    out += option_pair_cases(tier, seed)
    out += inside_comment_cases(tier, seed)
    rnd = random.Random("c16-window-%d" % seed)
    for k in range(400 if tier != "thorough" else 6000):
        n = rnd.randint(2, 9)
        lines = [rnd.choice(WINDOW_LINES) for _ in range(n)]
        a = rnd.randint(1, n)
        if k % 2:
            # the selection starts (or ends) exactly at a seam: a line ending in blanks on one side, an empty or ordinary line on the other
            j = rnd.randint(0, n - 2)
            lines[j] = rnd.choice([l for l in WINDOW_LINES if l.endswith(" ") or l.endswith("\t")])
            lines[j + 1] = rnd.choice(["", "", "fn  z( ) { }", "    "])
            a = j + 2 if rnd.random() < 0.7 else rnd.randint(1, j + 1)
        text = "\n".join(lines) + "\n"
        b = min(n, a + rnd.choice([0, 0, 1, 2, 5]))
        if k % 2 and a <= j + 1:
            b = j + 1
        cfg = [["max_width", rnd.choice(["20", "60", "100"])], ["error_on_line_overflow", "true"], ["error_on_unformatted", "true"],
               ["file_lines", json.dumps([{"file": "stdin", "range": [a, b]}])]]
        out.append(({"text": text, "config": cfg, "again": False, "lex": False}, ("window/%d.%d" % (seed, k), cfg[0][1])))
    return out


def loc_key(at):
    at = at or "?"
    at = re.sub(r"^.*/registry/src/[^/]+/", "", at)
    at = re.sub(r"^/repo/", "", at)
    at = re.sub(r"^.*/rustc-src/rust/", "rustc:", at)
    return at


def hkey(s):
    return int(hashlib.sha1(s.encode()).hexdigest()[:8], 16)


def search(rep, tier, seed):
    P = pool.load()
    MOD = 10
    K = 11                   # mutants per program
    lexed = common.run_vh_pool("lex", [{"text": p["text"]} for p in P], per_case_timeout=20)
    cases, meta = [], []
    for p, toks in zip(P, lexed):
        if not isinstance(toks, list):
            continue
        for k in range(K + 1):
            if tier != "thorough" and hkey("%s|%d" % (p["id"], k)) % MOD != seed % MOD:
                continue
            rnd = random.Random("%s-%d" % (p["id"], k))
            if k == 0:
                text, op = p["text"], "orig"
            else:
                op = MUT_OPS[(k + hkey(p["id"])) % len(MUT_OPS)]
                text = mutate(toks, op, rnd)
                if text is None:
                    continue
            w = WIDTHS[(k + hkey(p["id"])) % len(WIDTHS)]
            ts = TABS[(k + 2 * hkey(p["id"])) % len(TABS)]
            ht = "true" if (hkey(p["id"]) + k) % 3 == 0 else "false"
            over = [["max_width", w], ["tab_spaces", ts], ["hard_tabs", ht], ["error_on_line_overflow", "true"], ["error_on_unformatted", "true"]]
            if int(w) < 5 * int(ts):
                continue         # "a usable page: at least five indentation steps wide"
            if op == "window":
                nl = text.count("\n") + 1
                a = rnd.randint(1, nl)
                b = min(nl, a + rnd.choice([0, 0, 1, 3, 10]))
                over = over + [["file_lines", json.dumps([{"file": "stdin", "range": [a, b]}])]]
            cases.append({"text": text, "config": pool.merged(p["header"], over), "again": False, "lex": False})
            meta.append((p["id"], k, op, w, ts, ht))
    n_mut = len(cases)
    for c, (sid, w) in sweep_cases(tier, seed):
        cases.append(c)
        meta.append((sid, 0, "sweep", str(w), "4", "false"))
    n_sweep = len(cases) - n_mut
    for c, (sid, w) in extra_cases(tier, seed):
        cases.append(c)
        meta.append((sid, 0, "extra", str(w), "4", "false"))
    res = common.run_vh_pool("pool", cases, per_case_timeout=12)
    found = 0
    outcome = {"ok": 0, "rejected": 0, "panic": 0, "timeout": 0, "crash": 0}
    for (pid, k, op, w, ts, ht), c, r in zip(meta, cases, res):
        base = {"pool_id": pid, "mutant": k, "operator": op, "config": c["config"], "input": c["text"]}
        if isinstance(r, dict) and "panic" in r:
            outcome["panic"] += 1
            key = "panic:%s" % loc_key(r.get("at"))
            base["panic"] = r
            if rep.violation(key, base, "rustfmt panicked at %s: %s (%s mutant %d/%s, max_width %s tab_spaces %s)" % (loc_key(r.get("at")), r["panic"][:120], pid, k, op, w, ts)):
                found += 1
        elif isinstance(r, dict) and "timeout" in r:
            outcome["timeout"] += 1
            if rep.violation("timeout:%s" % pid, base, "rustfmt did not finish within %ss (%s mutant %d/%s, max_width %s)" % (r["timeout"], pid, k, op, w)):
                found += 1
        elif isinstance(r, dict) and "crash" in r:
            outcome["crash"] += 1
            base["crash"] = r
            if rep.violation("crash:%s" % pid, base, "the formatting process died (status %s) on %s mutant %d/%s: %s" % (r["crash"], pid, k, op, (r.get("stderr") or "")[-200:])):
                found += 1
        elif isinstance(r, dict) and r.get("out") is not None:
            outcome["ok"] += 1
        else:
            outcome["rejected"] += 1
    rep.coverage["mutants_run"] = n_mut
    rep.coverage["margin_sweep_runs"] = n_sweep
    rep.coverage["exotic_and_window_runs"] = len(cases) - n_mut - n_sweep
    rep.coverage["exotic_and_window_rule"] = "%d forms of syntax the parser accepts but the formatter rarely sees (delegation, unsafe extern, gen / try blocks, pinned references, const traits, decl macros, odd literals, degenerate files) x max_width 20/40/100 x {default, comment and string rewriting on}; random texts of 2..9 lines drawn from %d line shapes (comments, string continuation lines, attributes and items ending in blanks, empty lines) with a random partial file_lines selection; %d comment forms (plain, custom openers, doc, block, itemized, quoted, code fences) with each blank re-spelled as one of %d non-ASCII white-space characters, at four placements, with and without comment rewriting; the 41 statement forms of C03 with one of 10 degenerate comments (empty, doc-like, multi-line, line) at every token boundary, after 0 / 1 / 3 blanks and before a blank or a newline, under style edition 2015 and 2024" % (len(EXOTIC), len(WINDOW_LINES), len(COMMENT_FORMS), len(UNI_WS))
    rep.coverage["margin_sweep_rule"] = "%d expression forms x %d binding patterns x {let statement, call argument in a nested block} and %d item forms x {top level, two modules deep}, each at every max_width 20..130 (quick: every third width and half of the combinations, selected by the seed), edition 2024" % (len(SWEEP_EXPRS), len(SWEEP_PATS), len(SWEEP_ITEMS))
    rep.coverage["mutant_outcomes"] = outcome
    rep.coverage["search_rule"] = "pool programs x (original + %d token-level mutants: delete / duplicate / swap / truncate / unbalance a delimiter / insert non-ASCII / wrap in 4..12 parentheses, re-layout with every gap a newline / random gaps, white space inside comments re-spelled with non-ASCII white-space characters, string and comment text re-spelled in multi-byte letters, a random partial file_lines selection; deterministic per program) x rotating max_width %s x tab_spaces %s x hard_tabs, error_on_line_overflow and error_on_unformatted on (so reports are rendered); thorough: all, quick: the 1/%d slice selected by the seed; in-process in worker processes, 12 s per case; a panic is keyed by its source location" % (K, WIDTHS, TABS, MOD)
    found += binary_probe(rep, cases[:n_mut][:: max(1, n_mut // 60)])
    found += module_probe(rep)
    found += sub_site_phase(rep, found)
    return found


def binary_probe(rep, sample):
    """exit status and signals of the real binary on a sample of the mutants (stdin)"""
    import subprocess
    ok, blog, _ = common.build_bins()
    if not ok:
        raise RuntimeError("build of /repo binaries failed:\n" + blog)
    env = common.rust_env()
    env.pop("CARGO_TARGET_DIR", None)
    found = n = 0
    for c in sample:
        args = [common.bin_path("rustfmt"), "--config", ",".join("%s=%s" % (k, v) for k, v in c["config"] if "," not in v and k not in ("ignore",))]
        try:
            p = subprocess.run(args, input=c["text"].encode(), capture_output=True, env=env, timeout=30)
        except subprocess.TimeoutExpired:
            continue
        n += 1
        if p.returncode not in (0, 1):
            err = p.stderr.decode("utf-8", "replace")
            m = re.search(r"panicked at ([^\n:]+:\d+)", err)
            key = ("panic:%s" % loc_key(m.group(1))) if m else "exit_status:%s" % p.returncode      # the same key as the in-process search: one defect, one finding
            if rep.violation(key, {"config": c["config"], "input": c["text"], "rc": p.returncode, "stderr": err[-600:]},
                             "the rustfmt binary exited with status %d: %s" % (p.returncode, err[-200:])):
                found += 1
    rep.coverage["binary_runs"] = n
    return found


# ---------------------------------------------------------------- translator: inventory of raw subtractions
KW_NOT_OPERAND = {"return", "in", "as", "if", "else", "match", "while", "for", "loop", "break", "continue", "let", "mut", "ref", "move", "yield", "box", "where", "unsafe", "const", "static"}
SRC_SKIP = ("verif_hooks.rs",)


def _skip_spans(toks):
    """token index ranges of `#[cfg(test)]` / `#[cfg(rustfmt_verif)]` / `#[test]` items (attribute .. matching brace)"""
    sig = [i for i, (k, t) in enumerate(toks) if k not in ("ws", "lc", "bc", "dlo", "dli", "dbo", "dbi")]
    spans = []
    n = len(sig)
    j = 0
    while j < n:
        i = sig[j]
        if toks[i][1] == "#" and j + 1 < n and toks[sig[j + 1]][1] == "[":
            k = j + 2
            depth = 1
            attr = []
            while k < n and depth:
                t = toks[sig[k]][1]
                depth += t == "["
                depth -= t == "]"
                attr.append(t)
                k += 1
            a = "".join(attr)
            if a.startswith("cfg(test") or a.startswith("cfg(rustfmt_verif") or a == "test]":
                # skip to the end of the item: the matching brace of the first `{` (or the first `;` before any brace)
                m = k
                while m < n and toks[sig[m]][1] not in ("{", ";"):
                    m += 1
                if m < n and toks[sig[m]][1] == "{":
                    d = 1
                    m += 1
                    while m < n and d:
                        d += toks[sig[m]][1] == "{"
                        d -= toks[sig[m]][1] == "}"
                        m += 1
                spans.append((i, sig[m - 1] if m - 1 < n else len(toks)))
                j = m
                continue
            j = k
            continue
        j += 1
    return spans


def scan_sub_sites():
    """every binary `-` / `-=` in /repo/src outside test and hook code, as  file::function: context"""
    import glob
    files = sorted(f for f in glob.glob(os.path.join(common.REPO, "src", "**", "*.rs"), recursive=True) if os.path.basename(f) not in SRC_SKIP)
    texts = [open(f, encoding="utf-8").read() for f in files]
    lexed = common.run_vh_pool("lex", [{"text": t} for t in texts], per_case_timeout=60)
    sites = []
    for f, toks in zip(files, lexed):
        if not isinstance(toks, list):
            sites.append("%s: NOT LEXED" % os.path.relpath(f, common.REPO))
            continue
        rel = os.path.relpath(f, os.path.join(common.REPO, "src"))
        skip = _skip_spans(toks)
        sig = [i for i, (k, t) in enumerate(toks) if k not in ("ws", "lc", "bc", "dlo", "dli", "dbo", "dbi")]
        fn = "<top>"
        for j, i in enumerate(sig):
            k, t = toks[i]
            if k == "id" and t == "fn" and j + 1 < len(sig) and toks[sig[j + 1]][0] in ("id", "rid"):
                fn = toks[sig[j + 1]][1]
            if k != "p" or t != "-" or j == 0 or j + 1 >= len(sig):
                continue
            if any(a <= i <= b for a, b in skip):
                continue
            pk, pt = toks[sig[j - 1]]
            nk, nt = toks[sig[j + 1]]
            if nt == ">":
                continue                                   # ->
            binary = (pk in ("id", "rid") and pt not in KW_NOT_OPERAND) or pk.startswith("lit:") or (pk == "p" and pt in (")", "]", "?"))
            if not binary:
                continue                                   # unary minus
            lo, hi = max(0, j - 4), min(len(sig), j + 5)
            ctx = " ".join(toks[sig[x]][1] for x in range(lo, hi))
            sites.append("%s::%s: %s" % (rel, fn, ctx.replace('"', "'").replace("\\", "/")))
    return sorted(set(sites))


def gen_sub_sites():
    """Gen/C16/SubSites.v, regenerated on every run: no raw subtraction outside the audited inventory"""
    sites = scan_sub_sites()
    d = os.path.join(common.COQ, "Gen", "C16")
    os.makedirs(d, exist_ok=True)
    L = ["(* Gen/C16/SubSites.v -- REGENERATED on every run by checks/c16.py from /repo/src: every binary `-` / `-=` outside",
         "   test and hook code, as  file::function: the four tokens on either side.  The theorem says that no site lies outside",
         "   the audited inventory coq/C16/Audited.v (the sites of the pinned snapshot, exercised by the margin sweep and the",
         "   mutation search but NOT proved safe): a new unchecked subtraction is a new way to panic on overflow. *)",
         "From Coq Require Import List Bool String.", "Import ListNotations.", "Open Scope string_scope.", "From V Require Import C16.Audited.",
         "Definition sub_sites : list string := ["]
    L.append(";\n".join('  "%s"' % x for x in sites))
    L.append("].")
    L.append("Definition new_sites : list string := filter (fun x => negb (existsb (String.eqb x) audited)) sub_sites.")
    L.append("Theorem no_new_unchecked_subtraction : new_sites = [].")
    L.append("Proof. vm_compute. reflexivity. Qed.")
    L.append("Print Assumptions no_new_unchecked_subtraction.")
    new = "\n".join(L) + "\n"
    p = os.path.join(d, "SubSites.v")
    if not os.path.exists(p) or open(p).read() != new:
        open(p, "w").write(new)
    return sites


def audited_sites():
    src = open(os.path.join(common.COQ, "C16", "Audited.v")).read()
    return set(re.findall(r'^  "(.*)"[;]?$', src, re.M))


def sub_site_phase(rep, found_so_far):
    sites = gen_sub_sites()
    cr = common.coq_phase(["C16", "Gen/C16"], "Gen/C16/SubSites.v")
    new = sorted(set(sites) - audited_sites())
    rep.coverage["subtraction_sites"] = len(sites)
    rep.coverage["subtraction_sites_new"] = new
    rep.coverage.setdefault("theorems", [])
    if "no_new_unchecked_subtraction" not in rep.coverage["theorems"]:
        rep.coverage["theorems"] = list(rep.coverage["theorems"]) + ["no_new_unchecked_subtraction (regenerated)"]
    if (not cr.ok or new) and found_so_far == 0:
        rep.violation("tie", {"broken": "Gen/C16/SubSites.v: no_new_unchecked_subtraction no longer checks", "new_sites": new, "failed": cr.failed_files, "hygiene": cr.hygiene},
                      "a raw subtraction outside the audited inventory appeared in /repo/src (theorem no_new_unchecked_subtraction of the regenerated Gen/C16/SubSites.v fails): %r" % new[:5], no_input=True)
        return 1
    return 0


def module_probe(rep):
    """fatal lexer errors, unclosed delimiters and non-UTF-8 bytes in an OUT-OF-LINE module file (plain and #[path]):
    the binary must end with status 0 or 1"""
    import shutil
    import subprocess
    env = common.rust_env()
    env.pop("CARGO_TARGET_DIR", None)
    d = os.path.join(common.CACHE, "c16mod")
    found = n = 0
    bads = {"unterminated_string": b"pub fn f() { let s = \"abc; }\n", "unterminated_block_comment": b"pub fn f() { /* abc\n",
            "unterminated_raw_string": b"pub fn f() { let s = r#\"abc; }\n", "unclosed_delimiter": b"pub fn f() { (\n", "not_utf8": b"pub fn f() {} // \xff\xfe\n",
            "unterminated_char": b"pub fn f() { let c = 'ab; }\n", "empty": b"", "stray_close": b"}\n"}
    for name, body in bads.items():
        for decl in ("mod bad;\n", "#[path = \"sub/other.rs\"]\nmod bad;\n", "mod outer {\n    mod bad;\n}\n"):
            shutil.rmtree(d, ignore_errors=True)
            os.makedirs(os.path.join(d, "sub"))
            os.makedirs(os.path.join(d, "outer"))
            open(os.path.join(d, "lib.rs"), "w").write(decl + "fn  g( ){}\n")
            target = "sub/other.rs" if "path" in decl else ("outer/bad.rs" if "outer" in decl else "bad.rs")
            open(os.path.join(d, target), "wb").write(body)
            for args in ([], ["--check"], ["--emit", "stdout"]):
                try:
                    p = subprocess.run([common.bin_path("rustfmt")] + args + ["lib.rs"], cwd=d, capture_output=True, env=env, timeout=30)
                except subprocess.TimeoutExpired:
                    continue
                n += 1
                if p.returncode not in (0, 1):
                    err = p.stderr.decode("utf-8", "replace")
                    if rep.violation("module_exit_status:%s" % name, {"module_file": body.decode("latin-1"), "declaration": decl, "args": args, "rc": p.returncode, "stderr": err[-600:]},
                                     "rustfmt %s lib.rs with a module file holding %s (%r) exited with status %d: %s" % (" ".join(args), name, decl.strip(), p.returncode, err[-160:])):
                        found += 1
    shutil.rmtree(d, ignore_errors=True)
    rep.coverage["module_probe_runs"] = n
    return found


def run(tier, seed, replay):
    return common.standard_run(
        PROP, tier, seed, replay,
        dirs=["C12", "C20", "C06", "C05", "C11", "C03", "C16"], props_file="C16/Props.v", trusted=TRUSTED, gen_cases=gen_cases, vh_sub="c16",
        imports="From V Require Import Base.Text C16.Model C16.Run.\nOpen Scope N_scope.",
        model_expr=model_expr, canon_model=canon_model, canon_impl=canon_impl, oracle=oracle, nontrivial=nontrivial,
        rule="(a) seeded random sequences of 1..8 Shape operations from random starting shapes compared with the model (a panic of the implementation in this overflow-checked build is a disagreement); (b) the mutation search (see search_rule). non-trivial = a sequence that hits 'does not fit' or has >= 3 operations; distinct by hash",
        extra=search, per_file=200,
        ties=["C16"],
    )
