"""C15 — what rustfmt produces for a file does not depend on the other inputs, their order, the working directory or the environment."""
import itertools
import json
import os
import re
import shutil
import subprocess
from collections import Counter
from concurrent.futures import ThreadPoolExecutor

from . import common, coqterm
from .common import log

PROP = "C15"
TRUSTED = [
    "Coq 8.16.1 kernel (coqc); vm_compute evaluates the model in cases.v; no native_compute",
    "Print Assumptions of every theorem in coq/C15/Props.v: Closed under the global context (checked each run)",
    "hand-written model coq/C15/Model.v of Session (lib.rs), override_config, format_input_inner's error merging and main.rs's loop; HYPOTHESIS of every theorem: the formatter proper is a function of (effective configuration, input) — its outcome per input is taken from the implementation's single-input runs",
    "tie to the code: real rustfmt processes on sets of files singly and in every order, and one in-process Session (vh c15: Session::format / override_config) over every order of a set of texts; exit status against run_exit_multi / run_exit_max, the per-file effects and exit status of whole invocations against run_invocation, accumulated flags against run_flags_multi",
    "ANSI colour sequences of the --check diff are stripped before comparison (they depend on TERM); RUSTFMT_LOG is only set to a level that logs nothing",
]
MODES = {"files": [], "check": ["--check"], "stdout": ["--emit", "stdout"]}
MODE_N = {"files": 0, "check": 6, "stdout": 1}
U_TEXT = "fn  u( ){\nlet x=1;}\n"
KINDS = {
    "F": {"files": {"f.rs": "fn f() {}\n"}},
    "U": {"files": {"u.rs": U_TEXT}},
    "P": {"files": {"p.rs": "fn p( {\n"}},
    "X": {"files": {"x.rs": "fn x() { let s = \"abc; }\n"}},      # fatal lexer error
    "L": {"files": {"l.rs": "fn  l( ){\nif true {let y=2;}}\n", "rustfmt.toml": "tab_spaces = 2\n"}},
    "M": {"files": {"m.rs": "fn  m( ){\nlet v = vec![1,2,3];}\n", "rustfmt.toml": "max_width = 30\nhard_tabs = true\n"}},
    "T": {"files": {"t.rs": "mod sub;\nfn  t( ){}\n", "sub.rs": "pub fn  s( ){}\n"}},
    "B": {"files": {"b.rs": "fn  b( ){}\n", "rustfmt.toml": "max_width = \"x\"\n"}},
    # local configurations that differ in their `ignore` list: I ignores its own file, J ignores something else
    "I": {"files": {"i.rs": "fn  i( ){\nlet z=3;}\n", "rustfmt.toml": "ignore = [\"i.rs\"]\n"}},
    "J": {"files": {"j.rs": "fn  j( ){\nlet w=4;}\n", "rustfmt.toml": "ignore = [\"elsewhere.rs\"]\ntab_spaces = 3\n"}},
    # formatted except for its terminators, with an explicit newline_style: --check reports it through the session's writer
    # ("Incorrect newline style in ..") while real diffs are printed directly
    "C": {"files": {"c.rs": "fn c() {\r\n    let x = 1;\r\n}\r\n", "rustfmt.toml": "newline_style = \"Unix\"\n"}},
    # two roots whose module trees overlap: both reach ../shared/common.rs; every run that handles the module reports it
    "G": {"files": {"g.rs": "#[path = \"../shared/common.rs\"]\nmod common;\nfn  g( ){}\n", "../shared/common.rs": "pub fn  c( ){}\n"}},
    "H": {"files": {"h.rs": "#[path = \"../shared/common.rs\"]\nmod common;\nfn  h( ){}\n", "../shared/common.rs": "pub fn  c( ){}\n"}},
    "N": {"files": {}},       # a path that does not exist
    # a local configuration that sets the EDITION, and syntax that only parses under it
    "E": {"files": {"e.rs": "async fn  e( ){\nlet f = async move { 1 };}\n", "rustfmt.toml": "edition = \"2018\"\n"}},
    # reports with notes: a blank at the end of a line inside a string literal, reported because of the file's own configuration
    "W": {"files": {"w.rs": "fn w() {\n    let s = \"abc   \n        def\";\n}\n", "rustfmt.toml": "error_on_unformatted = true\n"}},
    "V": {"files": {"v.rs": "fn v() {\n    let t = \"xyz  \n        uvw\";\n}\n", "rustfmt.toml": "error_on_unformatted = true\n"}},
}
ROOT = {"G": "g.rs", "H": "h.rs", "C": "c.rs", "F": "f.rs", "U": "u.rs", "P": "p.rs", "L": "l.rs", "M": "m.rs", "T": "t.rs", "B": "b.rs", "N": "nothere.rs", "X": "x.rs", "I": "i.rs", "J": "j.rs", "E": "e.rs", "W": "w.rs", "V": "v.rs"}
ANSI = re.compile(r"\x1b\[[0-9;]*m|\x1b\(B")


def make_tree(d, kinds):
    for i, k in enumerate(kinds):
        sd = os.path.join(d, "d%d" % i)
        os.makedirs(sd)
        for rel, t in KINDS[k]["files"].items():
            os.makedirs(os.path.dirname(os.path.normpath(os.path.join(sd, rel))), exist_ok=True)
            with open(os.path.normpath(os.path.join(sd, rel)), "w", newline="") as f:
                f.write(t)


def rs_files(d):
    out = {}
    for root, _, files in os.walk(d):
        for f in files:
            if f.endswith(".rs") or f.endswith(".bk"):
                p = os.path.join(root, f)
                with open(p, newline="") as fh:
                    out[os.path.relpath(p, d)] = fh.read()
    return out


def run_rf(exe, args, cwd, env, stdin=None):
    p = subprocess.run([exe] + args, cwd=cwd, env=env, timeout=60,
                       input=None if stdin is None else stdin.encode(), stdin=subprocess.DEVNULL if stdin is None else None,
                       stdout=subprocess.PIPE, stderr=subprocess.PIPE)
    return p.returncode, p.stdout.decode("utf-8", "replace"), p.stderr.decode("utf-8", "replace")


def sections(out, d):
    """--emit stdout output -> {relative path: text}"""
    marks = [(m.start(), m.group(1), m.end()) for m in re.finditer(r"(?m)^(%s/[^\n:]+\.rs):\n\n" % re.escape(d), out)]
    res = {}
    for k, (i, p, e) in enumerate(marks):
        j = marks[k + 1][0] if k + 1 < len(marks) else len(out)
        res[os.path.relpath(p, d)] = out[e:j]
    return res


def run(tier, seed, replay):
    rep = common.Reporter(PROP, tier, seed, "proof")
    rep.assumptions = TRUSTED
    cr = common.coq_phase(["C12", "C20", "C06", "C15"], "C15/Props.v")
    common.coq_coverage(rep, cr, "cd coq && make C15/Props.vo && coqc -Q . V C15/Props.v (+ hygiene grep, Print Assumptions allow-list)", TRUSTED)
    if not cr.ok:
        log("C15 proof phase failed: %s %s %s\n%s" % (cr.hygiene, cr.bad_assumptions, cr.failed_files, cr.build_log[-1500:]))
    ok, blog, bt = common.build_bins()
    if not ok:
        raise RuntimeError("build of /repo binaries failed:\n" + blog)
    ok, hlog, ht = common.build_harness()
    if not ok:
        raise RuntimeError("harness build failed:\n" + hlog)
    rnd = common.rng(seed, PROP)
    base = os.path.realpath(os.path.join(common.CACHE, "c15"))
    shutil.rmtree(base, ignore_errors=True)
    os.makedirs(base)
    exe = common.bin_path("rustfmt")

    def env_for(variant):
        e = dict(os.environ)
        e.update(common.rust_env())
        e.pop("CARGO_TARGET_DIR", None)
        home = os.path.join(base, "home_" + variant)
        os.makedirs(os.path.join(home, ".config"), exist_ok=True)
        e["HOME"] = home
        e["XDG_CONFIG_HOME"] = os.path.join(home, ".config")
        e.pop("RUSTFMT_LOG", None)
        if variant == "a":
            e["TERM"] = "xterm"
        else:
            e.pop("TERM", None)
            e["RUSTFMT_LOG"] = "error"
            e.update({"LANG": "tr_TR.UTF-8", "LC_ALL": "C", "TZ": "Pacific/Kiritimati", "COLUMNS": "20", "NO_COLOR": "1", "CARGO": "/nonexistent"})
        return e

    sets = [["C", "U", "F"], ["G", "H"], ["I", "U", "J"], ["J", "I"], ["U"], ["F", "U"], ["U", "P", "L"], ["F", "U", "P", "L"], ["T", "L", "M"], ["L", "M", "N"], ["U", "X", "F"], ["U", "B", "F"], ["U", "E", "F"], ["W", "V"], ["W", "U", "V"]]
    if tier != "quick":
        pool = ["F", "U", "P", "L", "M", "T", "N", "X"]
        for _ in range(10):
            sets.append([rnd.choice(pool) for _ in range(rnd.randint(2, 4))])
        sets.append(["B", "U", "L", "P"])

    # ---- runs: per set and mode, each input alone and every order; variants for the identity order
    jobs = []
    for si, kinds in enumerate(sets):
        n = len(kinds)
        for mode in MODES:
            for i in range(n):
                jobs.append({"set": si, "mode": mode, "order": [i], "variant": "single"})
            for perm in itertools.permutations(range(n)):
                jobs.append({"set": si, "mode": mode, "order": list(perm), "variant": "multi"})
            ident = list(range(n))
            jobs.append({"set": si, "mode": mode, "order": ident, "variant": "othercwd"})
            jobs.append({"set": si, "mode": mode, "order": ident, "variant": "env"})
            jobs.append({"set": si, "mode": mode, "order": ident, "variant": "again"})
            jobs.append({"set": si, "mode": mode, "order": ident + ident[:1], "variant": "dup"})
        jobs.append({"set": si, "mode": "files", "order": list(range(n)), "variant": "twice"})
    if replay:
        try:
            rj = json.load(open(replay)).get("job")
            if isinstance(rj, dict) and rj.get("set", 99) < len(sets):
                jobs = [j for j in jobs if j["set"] == rj["set"] and j["mode"] == rj["mode"]]
        except Exception:
            pass

    def run_job(ji_j):
        ji, j = ji_j
        kinds = sets[j["set"]]
        d = os.path.join(base, "job%d" % ji)
        make_tree(d, kinds)
        env = env_for("b" if j["variant"] == "env" else "a")
        rel_roots = [os.path.join("d%d" % i, ROOT[kinds[i]]) for i in j["order"]]
        if j["variant"] == "othercwd":
            cwd = os.path.join(base, "elsewhere%d" % ji)
            os.makedirs(cwd)
            args = MODES[j["mode"]] + [os.path.join(d, r) for r in rel_roots]
        else:
            cwd = d
            args = MODES[j["mode"]] + rel_roots
        before = rs_files(d)
        rc, out, err = run_rf(exe, args, cwd, env)
        res = {"rc": rc, "out": out, "err": err, "before": before, "after": rs_files(d), "dir": d, "args": MODES[j["mode"]] + rel_roots}
        if j["variant"] == "twice":
            rc2, out2, err2 = run_rf(exe, args, cwd, env)
            res["second"] = {"rc": rc2, "after": rs_files(d)}
        return res

    with ThreadPoolExecutor(max_workers=common.NCPU) as ex:
        results = list(ex.map(run_job, enumerate(jobs)))

    found = [0]
    nontrivial = set()

    def viol(key, obj, what):
        if rep.violation(key, obj, what):
            found[0] += 1

    def per_file(j, r):
        """what the run produced for each file: bytes on disk (files), printed text (stdout), reported or not (check)"""
        d = r["dir"]
        if j["mode"] == "files":
            return dict(r["after"])
        if j["mode"] == "stdout":
            return sections(r["out"], d)
        clean = ANSI.sub("", r["out"])
        return {rel: ("Diff in %s" % os.path.join(d, rel)) in clean for rel in r["before"]}

    def diag(r):
        return Counter(l.replace(r["dir"] + "/", "") for l in ANSI.sub("", r["err"]).split("\n") if l.strip())

    singles = {}
    for j, r in zip(jobs, results):
        if j["variant"] == "single":
            singles[(j["set"], j["mode"], j["order"][0])] = (j, r)
    exit_exprs = []
    exit_expect = []
    inv_exprs = []
    inv_expect = []
    for j, r in zip(jobs, results):
        kinds = sets[j["set"]]
        if j["variant"] in ("single", "twice"):
            if j["variant"] == "twice":
                s = r["second"]
                if s["after"] != r["after"]:
                    viol("second_run_changes_bytes", {"job": j, "kinds": kinds}, "formatting the already formatted tree again changes bytes")
            continue
        has_b = "B" in [kinds[i] for i in j["order"]]
        nontrivial.add(common.case_hash(j))
        rp = {"job": j, "kinds": kinds, "args": r["args"], "rc": r["rc"], "stderr": r["err"][-500:]}
        got = per_file(j, r)
        want = {}
        want_diag = Counter()
        exits = []
        for i in set(j["order"]):
            sj, sr = singles[(j["set"], j["mode"], i)]
            pf = per_file(sj, sr)
            for rel, v in pf.items():
                if rel.startswith("d%d/" % i):
                    want[rel] = v
        for i in j["order"]:
            sj, sr = singles[(j["set"], j["mode"], i)]
            want_diag += diag(sr)
            exits.append(sr["rc"])
        for rel in sorted(set(want) | set(k for k in got if any(k.startswith("d%d/" % i) for i in j["order"]))):
            if got.get(rel) != want.get(rel):
                key = "bad_local_toml_aborts_loop" if has_b else "bytes_depend_on_other_inputs"
                viol(key, dict(rp, file=rel, multi=got.get(rel), single=want.get(rel)),
                     "%s: result in the %s run (%s) differs from the single-file run" % (rel, j["variant"], j["order"]))
                break
        if diag(r) != want_diag:
            key = "bad_local_toml_aborts_loop" if has_b else "diagnostics_differ"
            viol(key, dict(rp, multi=dict(diag(r)), singles=dict(want_diag)), "diagnostics of the %s run are not the multiset union of the single-file runs'" % j["variant"])
        # the standard-output STREAM of a multi-file run is the single-file outputs one after the other, in command-line order
        # (every writer of the run shares the one stream: nothing may be held back or overtaken)
        if j["variant"] in ("multi", "dup") and j["mode"] in ("check", "stdout") and not has_b:
            def norm_stream(rr):
                return ANSI.sub("", rr["out"]).replace(rr["dir"], "<DIR>")
            want_stream = "".join(norm_stream(singles[(j["set"], j["mode"], i)][1]) for i in j["order"])
            if norm_stream(r) != want_stream:
                viol("stdout_stream_not_in_order", dict(rp, multi=r["out"][-1500:], singles_in_order=want_stream[-1500:]),
                     "standard output of the %s run over %s is not the single-file outputs in command-line order" % (j["mode"], j["order"]))
        if r["rc"] not in (0, 1):
            viol("exit_status_outside_01", rp, "the process ends with status %d" % r["rc"])
        if r["rc"] != max(exits):
            viol("exit_not_max", dict(rp, singles=exits), "exit status %d, single-file statuses %s" % (r["rc"], exits))
        # --- model: exit status from the per-input flags
        if not has_b:
            fl = []
            for i in j["order"]:
                k = kinds[i]
                sj, sr = singles[(j["set"], j["mode"], i)]
                changed = any(sr["after"].get(rel) != t for rel, t in sr["before"].items()) if j["mode"] == "files" else None
                differs = {"F": False, "P": False, "N": False, "X": False}.get(k, True)
                wv = k in ("W", "V")       # FormatReport::track_errors: TrailingWhitespace sets operational, formatting and unformatted
                fl.append([k == "N" or wv, k in ("P", "X"), wv, False, False, j["mode"] == "check" and differs and not wv, wv])
            exit_exprs.append("(run_exit_multi %s %s, run_exit_max %s %s)" % (coqterm.render(fl), coqterm.render(j["mode"] == "check"), coqterm.render(fl), coqterm.render(j["mode"] == "check")))
            exit_expect.append((j, r["rc"]))
        # --- model: the whole invocation
        if j["variant"] == "multi" and not set(kinds) & {"C", "W", "V"}:      # (W, V: formatting errors inside a file are not part of the invocation encoding; their exit status is compared above)
            #  (the session model has ONE newline_style for all inputs: sets with the explicit-style input C are judged by the oracles only)
            names = {}
            ins = []
            fsingle = {}
            for i in range(len(kinds)):
                sj, sr = singles[(j["set"], "files", i)]
                fsingle[i] = sr
            for i in j["order"]:
                k = kinds[i]
                files = []
                for rel, t in sorted(fsingle[i]["before"].items()):
                    if rel.startswith("d%d/" % i):
                        names.setdefault(rel, len(names) + 10)
                        fmt = fsingle[i]["after"].get(rel, t) if k not in ("P", "B", "X") else t
                        files.append((names[rel], t, fmt))
                if k in ("P", "B", "N", "X"):
                    files = []
                ins.append((k != "N", False, 2 if k == "B" else 1, (files, k in ("P", "X"), False)))
            inv_exprs.append("(run_invocation %d false false false true %s %s)" % (MODE_N[j["mode"]], coqterm.render(j["mode"] == "check"), coqterm.render(ins)))
            obs_ops = {}
            for rel, n_ in names.items():
                obs_ops[n_] = 1 if (j["mode"] == "files" and r["after"].get(rel) != r["before"].get(rel)) else 0
            inv_expect.append((j, obs_ops, r["rc"]))

    # ---- a module tree against its member files formatted on their own: the report of a member (line-width diagnostics with
    # their line numbers) does not depend on what the other files of the tree contain (skip-marked items, their line numbers)
    td = os.path.join(base, "tree_members")
    wide = "w" * 90
    for ti, (first, second) in enumerate([("aaa", "bbb"), ("zzz", "bbb")]):
        for mode in ("files", "check"):
            shutil.rmtree(td, ignore_errors=True)
            os.makedirs(td)
            tfiles = {"rustfmt.toml": "error_on_line_overflow = true\nmax_width = 60\n", "lib.rs": "mod %s;\nmod bbb;\n" % first if first != "bbb" else "mod bbb;\n",
                      first + ".rs": "pub fn f() {}\n#[rustfmt::skip]\npub const K: u8 =\n    %s;\npub fn g() {}\n" % ("s" * 80),
                      "bbb.rs": "pub fn h() {}\npub fn i() {\n    let x = %s;\n    let y = %s;\n}\n" % (wide, wide)}
            for rel, t in tfiles.items():
                open(os.path.join(td, rel), "w").write(t)
            def runit(name):
                rc, o, e = run_rf(exe, MODES[mode] + ["--color", "never", name], td, env_for("a"))
                lines = Counter(re.sub(r"^.*?([a-z]+\.rs:\d+):.*$", r"\1", l) for l in ANSI.sub("", e).split("\n") if "-->" in l)
                return rc, lines
            rc_tree, d_tree = runit("lib.rs")
            parts = [runit(n + ".rs") for n in sorted(set([first, "bbb"]))]
            want = Counter()
            for _rc, dd in parts:
                want += dd
            if d_tree != want or rc_tree != max([p_[0] for p_ in parts] + [0]):
                viol("tree_report_differs_from_members", {"files": tfiles, "mode": mode, "tree": [rc_tree, dict(d_tree)], "members_alone": [[p_[0], dict(p_[1])] for p_ in parts]},
                     "the diagnostics of the tree run (%r, exit %d) are not those of its member files formatted on their own (%r)" % (dict(d_tree), rc_tree, dict(want)))
            nontrivial.add("tree_members_%d_%s" % (ti, mode))
    # ---- a file in a sub-directory that has its own configuration file, named after (and before) a file of the parent directory
    nd = os.path.join(base, "nested_cfg")
    shutil.rmtree(nd, ignore_errors=True)
    os.makedirs(os.path.join(nd, "src", "vendored", "deeper"))
    nfiles = {"rustfmt.toml": "tab_spaces = 2\n", "src/main.rs": "fn  main( ){\nif true {let x=1;}}\n", "src/vendored/rustfmt.toml": "tab_spaces = 8\n",
              "src/vendored/lib.rs": "fn  lib( ){\nif true {let y=2;}}\n", "src/vendored/deeper/d.rs": "fn  d( ){\nif true {let z=3;}}\n", "src/sibling.rs": "fn  s( ){\nif true {let w=4;}}\n"}
    for rel, t in nfiles.items():
        open(os.path.join(nd, rel), "w").write(t)
    roots = ["src/main.rs", "src/vendored/lib.rs", "src/vendored/deeper/d.rs", "src/sibling.rs"]
    single = {}
    for r_ in roots:
        rc, o, e = run_rf(exe, ["--emit", "stdout", r_], nd, env_for("a"))
        single[r_] = o.replace(nd, "<DIR>")
    for order in itertools.permutations(roots):
        if tier == "quick" and hash(order) % 3 and order != tuple(roots):
            continue
        rc, o, e = run_rf(exe, ["--emit", "stdout"] + list(order), nd, env_for("a"))
        want = "".join(single[r_] for r_ in order)
        nontrivial.add("nested_cfg_%s" % "|".join(order))
        if o.replace(nd, "<DIR>") != want:
            viol("bytes_depend_on_other_inputs", {"files": nfiles, "order": list(order), "multi": o[-1500:], "singles_in_order": want[-1500:]},
                 "files of nested directories with their own rustfmt.toml: the output of one invocation over %s is not the single-file outputs in order" % (list(order),))
    # ---- path vs standard input
    stdin_n = 0
    for k in ("F", "U", "L", "M", "P", "X", "E", "W"):
        d = os.path.join(base, "stdin_" + k)
        make_tree(d, [k])
        sd = os.path.join(d, "d0")
        text = KINDS[k]["files"][ROOT[k]]
        rc_s, out_s, err_s = run_rf(exe, [], sd, env_for("a"), stdin=text)
        rc_p, out_p, err_p = run_rf(exe, [ROOT[k]], sd, env_for("a"))
        after = open(os.path.join(sd, ROOT[k]), newline="").read()
        stdin_n += 1
        if k not in ("P", "X") and out_s != after:
            viol("stdin_vs_path", {"kind": k, "stdin": out_s, "file": after}, "the text for %s on standard input differs from the file after formatting it by path" % ROOT[k])
        if rc_s != rc_p:
            viol("stdin_vs_path", {"kind": k, "rc_stdin": rc_s, "rc_path": rc_p}, "exit status on standard input %d, by path %d" % (rc_s, rc_p))

    # ---- the emitter options of the file's own configuration (make_backup)
    d = os.path.join(base, "backup_probe")
    os.makedirs(os.path.join(d, "k"))
    open(os.path.join(d, "k", "k.rs"), "w").write(U_TEXT)
    open(os.path.join(d, "k", "rustfmt.toml"), "w").write("make_backup = true\n")
    rc, o, e = run_rf(exe, ["k/k.rs"], d, env_for("a"))
    discovered_bk = os.path.exists(os.path.join(d, "k", "k.bk"))
    open(os.path.join(d, "k", "k.rs"), "w").write(U_TEXT)
    rc, o, e = run_rf(exe, ["--config-path", "k/rustfmt.toml", "k/k.rs"], d, env_for("a"))
    explicit_bk = os.path.exists(os.path.join(d, "k", "k.bk"))
    if not discovered_bk:
        viol("local_config_emitter_options_ignored", {"discovered_bk": discovered_bk, "config_path_bk": explicit_bk, "toml": "make_backup = true"},
             "k/rustfmt.toml (make_backup = true) is the effective configuration of k/k.rs, but no k.bk is written (with --config-path: %s)" % explicit_bk)

    # ---- one in-process Session over every order of a set of texts
    texts = [{"text": U_TEXT, "local": None}, {"text": "fn  l( ){\nif true {let y=2;}}\n", "local": [["tab_spaces", "2"]]},
             {"text": "fn p( {\n", "local": None}, {"text": "fn f() {}\n", "local": None}]
    if tier != "quick":
        texts.append({"text": "fn  m( ){\nlet v = vec![1,2,3];}\n", "local": [["max_width", "30"], ["hard_tabs", "true"]]})
    vh_cases = []
    for emit in ("stdout", "json", "checkstyle"):      # not diff: print_diff writes to the real stdout
        for i in range(len(texts)):
            vh_cases.append({"emit": emit, "config": [], "inputs": [texts[i]], "_order": [i]})
        for perm in itertools.permutations(range(len(texts))):
            vh_cases.append({"emit": emit, "config": [], "inputs": [texts[i] for i in perm], "_order": list(perm)})
    vh = None
    try:
        vh = common.run_vh("c15", [{k: v for k, v in c.items() if not k.startswith("_")} for c in vh_cases])
    except Exception as ex:
        log("C15: vh c15 failed: %s" % str(ex)[-800:])
    flag_exprs = []
    flag_expect = []
    FL = ["operational", "parsing", "formatting", None, "check", "diff", "unformatted"]
    if vh is not None:
        alone = {}
        for c, r in zip(vh_cases, vh):
            if len(c["_order"]) == 1:
                alone[(c["emit"], c["_order"][0])] = r
        for c, r in zip(vh_cases, vh):
            if len(c["_order"]) == 1 or "outs" not in r:
                if "outs" not in r:
                    viol("session_api_failed", {"case": c, "result": r}, "in-process session failed")
                continue
            rp = {"emit": c["emit"], "order": c["_order"]}
            for pos_, i in enumerate(c["_order"]):
                a = alone[(c["emit"], i)]
                if r["outs"][pos_] != a["outs"][0] or r["errs"][pos_] != a["errs"][0]:
                    viol("session_output_depends_on_history", dict(rp, index=i, multi=r["outs"][pos_], single=a["outs"][0]),
                         "output of input %d inside one Session (order %s) differs from a fresh Session" % (i, c["_order"]))
                    break
            if any(t != 4 for t in r["tab_spaces"]):
                viol("config_not_restored", dict(rp, tab_spaces=r["tab_spaces"]), "session.config is not restored after override_config")
            if c["emit"] == "json":
                try:
                    got = Counter(json.dumps(x, sort_keys=True) for x in json.loads(r["footer"]))
                    want = Counter()
                    for i in c["_order"]:
                        want += Counter(json.dumps(x, sort_keys=True) for x in json.loads(alone[("json", i)]["footer"]))
                    if got != want:
                        viol("json_document_differs", dict(rp, footer=r["footer"]), "the JSON document of the session is not the union of the single-input documents")
                except ValueError:
                    viol("json_document_differs", dict(rp, footer=r["footer"]), "JSON footer does not parse")
            per = []
            for i in c["_order"]:
                f = alone[(c["emit"], i)]["flags"][0]
                per.append([bool(f[k]) if k else False for k in FL])
            flag_exprs.append("(run_flags_multi %s)" % coqterm.render(per))
            f = r["flags"][-1]
            flag_expect.append((rp, [bool(f[k]) if k else False for k in FL]))

    # ---- the byte stream of one crate's output is the same in every run (the order in which the files of a module
    # tree reach stdout included): 8-file tree x ordered-stream modes x 6 repetitions in fresh processes
    rd = os.path.join(base, "repeat")
    os.makedirs(os.path.join(rd, "a"))
    names = ["alpha", "beta", "gamma", "delta", "epsilon", "zeta"]
    with open(os.path.join(rd, "lib.rs"), "w") as f:
        f.write("".join("mod %s;\n" % n for n in names) + "mod a;\nfn  r( ){}\n")
    for n in names:
        with open(os.path.join(rd, n + ".rs"), "w") as f:
            f.write("pub fn  %s( ){let x=1;}\n" % n)
    with open(os.path.join(rd, "a", "mod.rs"), "w") as f:
        f.write("pub fn  a( ){}\n")
    rep_runs = 0
    for mname, margs in (("stdout", ["--emit", "stdout"]), ("check", ["--check"]), ("json", ["--emit", "json"]), ("checkstyle", ["--emit", "checkstyle"]),
                         ("check_l", ["--check", "-l"]), ("verbose", ["--check", "-v"])):
        outs = []
        for _ in range(6):
            rc, o, e = run_rf(exe, margs + ["lib.rs"], rd, env_for("plain"))
            # -v prints elapsed times ("Spent 0.001 secs in the parsing phase, ..."): not part of the result
            outs.append((rc, re.sub(r"Spent [0-9.]+ secs in the parsing phase, and [0-9.]+ secs in the formatting phase", "Spent T secs", ANSI.sub("", o))))
            rep_runs += 1
        if len(set(outs)) != 1:
            k = next(i for i, x in enumerate(outs) if x != outs[0])
            viol("repeated_runs_differ", {"mode": mname, "args": margs + ["lib.rs"], "run0": outs[0][1][-1500:], "run%d" % k: outs[k][1][-1500:]},
                 "`rustfmt %s lib.rs` on the same 8-file crate printed different byte streams in runs 0 and %d" % (" ".join(margs), k))

    # ---- model evaluation
    model = None
    disagreements = []
    validated = 0
    try:
        allx = exit_exprs + inv_exprs + flag_exprs
        model = common.run_coq_cases("From V Require Import Base.Text C12.Model C20.Model C06.Model C15.Model C15.Run.\nOpen Scope N_scope.", "", allx, "c15", per_file=60)
    except Exception as ex:
        log("C15: model evaluation failed: %s" % str(ex)[-1000:])
    if model is not None:
        m1 = model[:len(exit_exprs)]
        m2 = model[len(exit_exprs):len(exit_exprs) + len(inv_exprs)]
        m3 = model[len(exit_exprs) + len(inv_exprs):]
        for (j, rc), m in zip(exit_expect, m1):
            m = coqterm.plain(m)
            validated += 1
            if m[0] != rc or m[1] != rc:
                disagreements.append({"what": "exit", "job": j, "kinds": sets[j["set"]], "impl": rc, "model_multi": m[0], "model_max": m[1]})
        for (j, ops, rc), m in zip(inv_expect, m2):
            m = coqterm.plain(m)
            validated += 1
            mops = {n_: 0 for n_ in ops}
            for inp in m[0]:
                for name, nops in inp:
                    mops[name] = mops.get(name, 0) + nops
            if mops != ops or m[1] != rc:
                disagreements.append({"what": "invocation", "job": j, "kinds": sets[j["set"]], "impl": [ops, rc], "model": [mops, m[1]]})
        for (rp, fl), m in zip(flag_expect, m3):
            m = coqterm.plain(m)
            validated += 1
            if m != fl:
                disagreements.append({"what": "session_flags", "case": rp, "impl": fl, "model": m})
    shutil.rmtree(base, ignore_errors=True)
    for dg in disagreements[:5]:
        log("C15 disagreement: %r" % (dg,))
    tie_broken = (not cr.ok) or model is None or vh is None or disagreements
    if tie_broken and found[0] == 0:
        what = []
        if not cr.ok:
            what.append("theorems of coq/C15/Props.v no longer check (%s %s %s)" % (cr.failed_files, cr.hygiene, cr.bad_assumptions))
        if model is None or vh is None:
            what.append("model or in-process session could not be evaluated")
        if disagreements:
            what.append("correspondence broken on %d of %d comparisons, first: %r" % (len(disagreements), validated, disagreements[0]))
        rep.violation("tie", {"broken": what, "first_disagreements": disagreements[:3]}, "; ".join(what)[:2000], no_input=True)
    rep.coverage.update({
        "evaluations": len(jobs) + stdin_n + 2 + len(vh_cases),
        "distinct_nontrivial": len(nontrivial),
        "exhaustive": True,
        "rule": "%d sets of 1..4 inputs from {formatted, unformatted, not parsable (unclosed delimiter; unterminated string), two different local rustfmt.toml, two local rustfmt.toml with different ignore lists (one ignoring its own file), module tree of 2 files, missing path, malformed local rustfmt.toml}; per set and mode {files, --check, --emit stdout}: every input alone, EVERY order (<= 24), the identity order from another working directory with absolute paths, with a scrambled environment (other HOME, TERM unset, RUSTFMT_LOG, LANG, LC_ALL, TZ, COLUMNS, NO_COLOR), on a second fresh copy, with the first input named twice; files mode twice in a row on the same tree; 6 inputs by path and on standard input; make_backup in a discovered rustfmt.toml; in-process: one Session over every order of %d texts (two with override_config) x {stdout, json, checkstyle}. an 8-file crate x {stdout, check, json, checkstyle, -l, -v} x 6 fresh processes (byte streams must be equal). Compared: bytes of every file / printed text per file / set of reported files, stderr lines as multisets, exit status = max of the single statuses" % (len(sets), len(texts)),
        "samples": jobs[:2] + jobs[len(jobs) // 2:len(jobs) // 2 + 2] + jobs[-1:],
        "correspondence_disagreements": len(disagreements),
        "traces_validated_against_impl": validated,
        "model_comparisons": {"exit": len(exit_exprs), "invocation": len(inv_exprs), "session_flags": len(flag_exprs)},
        "bins_build_s": round(bt, 1),
        "harness_build_s": round(ht, 1),
    })
    return rep.finish()
