"""Regenerate coq/Gen/<property>/*Ops.v from /repo/src with checks/rs2coq.py and append the tie theorems that
prove the regenerated definitions equal to the hand-written models.  Called by setup.sh and by the checks that own a
group (C17, C16, C06, C08) on every run.  A translation failure writes a file whose theorem cannot be proved, so that
the broken tie is reported by the check (never silently skipped)."""
import os

from . import common, rs2coq as R

HEADER = "(* %s — REGENERATED on every run by checks/gen_ties.py (translator: checks/rs2coq.py) from /repo/%s.\n" \
         "   Definitions g_*: the Rust functions as they are NOW; g_*_safe: the conjunction of the conditions under which their\n" \
         "   unsigned subtractions / divisions are defined.  Theorems tie_*: they equal the hand-written model. *)\n"


def _write(rel, text):
    p = os.path.join(common.COQ, rel)
    os.makedirs(os.path.dirname(p), exist_ok=True)
    if not os.path.exists(p) or open(p).read() != text:
        open(p, "w").write(text)


def _theorem(name, stmt, unfold, proof=None):
    pr = proof or ("intros. cbv beta delta [%s] in *. tie." % " ".join(unfold))
    return "Theorem %s : %s.\nProof. %s Qed.\nPrint Assumptions %s.\n" % (name, stmt, pr, name)


def _failed(rel, what, err):
    """fail closed: an unprovable theorem names the function that could not be translated"""
    _write(rel, "(* TRANSLATION FAILED: %s: %s *)\nTheorem translation_of_%s_failed : False.\nProof. exact I. Qed.\n" % (what, str(err).replace("*)", "* )"), what))


# ------------------------------------------------------------------------------------------ C17: Range

def gen_c17():
    rel = "Gen/C17/RangeOps.v"
    try:
        toks = R.lex(open(os.path.join(common.REPO, "src/config/file_lines.rs")).read())
        if R.find_struct(toks, "Range") != [("lo", "usize"), ("hi", "usize")]:
            raise R.Unsupported("struct Range changed")
        ctx = R.Ctx({"Range": ("range", "MkRange", [("lo", "lo", "N"), ("hi", "hi", "N")])})
        out = [HEADER % (rel, "src/config/file_lines.rs"), "From V Require Import Base.Text Base.Tie C17.Model.", "Open Scope N_scope.", ""]
        names = []
        for fn in ["new", "is_empty", "contains", "intersects", "adjacent_to", "merge"]:
            t, _ = R.translate_fn(ctx, toks, "Range", fn, "g_range_" + fn, self_ty="Range")
            out.append(t)
            names.append("g_range_" + fn)
        U = names + ["is_empty", "contains", "intersects", "adjacent_to", "merge"]
        out.append(_theorem("tie_range_new", "forall a b, g_range_new a b = MkRange a b", U))
        out.append(_theorem("tie_range_is_empty", "forall r, g_range_is_empty r = is_empty r", U))
        out.append(_theorem("tie_range_contains", "forall a b, g_range_contains a b = contains a b", U))
        out.append(_theorem("tie_range_intersects", "forall a b, g_range_intersects a b = intersects a b", U))
        out.append(_theorem("tie_range_adjacent_to", "forall a b, g_range_adjacent_to a b = adjacent_to a b", U))
        out.append(_theorem("tie_range_merge", "forall a b, g_range_merge a b = merge a b", U))
        out[1] = "From V Require Import Base.Text Base.Tie C17.Model C17.Props."
        out.append(_theorem("now_intersects_spec", "forall a b, g_range_intersects a b = true <-> exists l, inr a l /\\ inr b l", [], "intros a b. rewrite tie_range_intersects. apply intersects_spec."))
        out.append(_theorem("now_contains_spec", "forall a b, g_range_contains a b = true <-> forall l, inr b l -> inr a l", [], "intros a b. rewrite tie_range_contains. apply contains_spec."))
        out.append(_theorem("now_merge_spec", "forall a b c, g_range_merge a b = Some c -> forall l, inr c l <-> inr a l \\/ inr b l", [], "intros a b c. rewrite tie_range_merge. apply merge_spec."))
        out.append(_theorem("now_merge_defined", "forall a b, (exists c, g_range_merge a b = Some c) <-> g_range_adjacent_to a b = true \\/ g_range_intersects a b = true", [],
                            "intros a b. rewrite tie_range_merge, tie_range_adjacent_to, tie_range_intersects. apply merge_defined."))
        out.append(_theorem("range_ops_never_underflow",
                            "forall a b, g_range_is_empty_safe a = true /\\ g_range_contains_safe a b = true /\\ g_range_intersects_safe a b = true /\\ g_range_adjacent_to_safe a b = true /\\ g_range_merge_safe a b = true",
                            [], "intros. repeat split; reflexivity."))
        _write(rel, "\n".join(out))
    except (R.Unsupported, AssertionError, KeyError, IndexError) as e:
        _failed(rel, "range_ops", e)
    return rel


# ------------------------------------------------------------------------------------------ C16 / C08: Indent, Shape

def gen_c16():
    rel = "Gen/C16/ShapeOps.v"
    try:
        toks = R.lex(open(os.path.join(common.REPO, "src/shape.rs")).read())
        if R.find_struct(toks, "Indent") != [("block_indent", "usize"), ("alignment", "usize")]:
            raise R.Unsupported("struct Indent changed")
        if R.find_struct(toks, "Shape") != [("width", "usize"), ("indent", "Indent"), ("offset", "usize")]:
            raise R.Unsupported("struct Shape changed")
        ctx = R.Ctx({"Indent": ("indent", "MkIndent", [("block_indent", "block", "N"), ("alignment", "align", "N")]),
                     "Shape": ("shape", "MkShape", [("width", "width", "N"), ("indent", "ind", "Indent"), ("offset", "offset", "N")])},
                    getters={"max_width": ("max_width", "N"), "tab_spaces": ("tab_spaces", "N"), "hard_tabs": ("hard_tabs", "bool"), "comment_width": ("comment_width", "N")},
                    consts={"INFINITE_SHAPE_WIDTH": ("8096", "N")})
        out = [HEADER % (rel, "src/shape.rs"), "From V Require Import Base.Text Base.Tie C16.Model.", "Open Scope N_scope.", ""]
        U = []

        def tr(header, fn, cname, self_ty, extra=(), drop=()):
            t, partial = R.translate_fn(ctx, toks, header, fn, cname, self_ty=self_ty, extra_params=extra, drop_params=drop)
            out.append(t)
            U.append(cname)
            U.append(cname + "_safe")
        # the operators first: `indent + delta`, `indent - delta` in the Shape methods refer to them
        tr("Add for Indent", "add", "g_indent_add", "Indent")
        tr("Sub for Indent", "sub", "g_indent_sub", "Indent")
        tr("Add < usize > for Indent", "add", "g_indent_add_n", "Indent")
        tr("Sub < usize > for Indent", "sub", "g_indent_sub_n", "Indent")
        ctx.ops[("+", "Indent", "Indent")] = ("g_indent_add", "Indent", False)
        ctx.ops[("-", "Indent", "Indent")] = ("g_indent_sub", "Indent", True)
        ctx.ops[("+", "Indent", "N")] = ("g_indent_add_n", "Indent", False)
        ctx.ops[("-", "Indent", "N")] = ("g_indent_sub_n", "Indent", True)
        # impl Sub / Add register under fn names add / sub: re-register the inherent methods by name below
        for fn, extra in [("new", ()), ("empty", ()), ("block_only", ()), ("width", ()), ("from_width", (("tab_spaces", "N"), ("hard_tabs", "bool"))),
                          ("block_indent", (("tab_spaces", "N"),)), ("block_unindent", (("tab_spaces", "N"),))]:
            tr("Indent", fn, "g_indent_" + fn, "Indent", extra=extra)
        for fn, extra in [("legacy", ()), ("indented", (("max_width", "N"),)), ("with_max_width", (("max_width", "N"),)), ("visual_indent", ()), ("block_indent", ()),
                          ("add_offset", ()), ("block", ()), ("saturating_sub_width", ()), ("sub_width_opt", ()), ("shrink_left_opt", ()), ("offset_left_opt", ()),
                          ("used_width", ()), ("rhs_overhead", (("max_width", "N"),)), ("comment", (("comment_width", "N"),)), ("infinite_width", ())]:
            tr("Shape", fn, "g_shape_" + fn, "Shape", extra=extra)
        M = ["indent_width", "indent_add", "indent_sub", "indent_add_n", "indent_sub_n", "block_only", "legacy", "indented", "with_max_width", "visual_indent", "block_indent",
             "add_offset", "shape_block", "saturating_sub_width", "sub_width_opt", "shrink_left_opt", "offset_left_opt", "used_width", "rhs_overhead", "shape_comment",
             "infinite_width", "checked_sub", "saturating_sub"]
        UU = U + M
        T = lambda n, s, p=None: out.append(_theorem(n, s, UU, p))
        T("tie_indent_add", "forall a b, g_indent_add a b = indent_add a b")
        T("tie_indent_add_n", "forall a n, g_indent_add_n a n = indent_add_n a n")
        T("tie_indent_sub", "forall a b, g_indent_sub_safe a b = true -> indent_sub a b = Some (g_indent_sub a b)")
        T("tie_indent_sub_undefined", "forall a b, g_indent_sub_safe a b = false -> indent_sub a b = None")
        T("tie_indent_sub_n", "forall a n, g_indent_sub_n_safe a n = true -> indent_sub_n a n = Some (g_indent_sub_n a n)")
        T("tie_indent_sub_n_undefined", "forall a n, g_indent_sub_n_safe a n = false -> indent_sub_n a n = None")
        T("tie_indent_width", "forall a, g_indent_width a = indent_width a")
        T("tie_indent_block_only", "forall a, g_indent_block_only a = block_only a")
        T("tie_shape_legacy", "forall w i, g_shape_legacy w i = legacy w i")
        T("tie_shape_indented", "forall m i, g_shape_indented m i = indented m i")
        T("tie_shape_with_max_width", "forall m s, g_shape_with_max_width m s = with_max_width m s")
        T("tie_shape_visual_indent", "forall s d, g_shape_visual_indent s d = visual_indent s d")
        T("tie_shape_block_indent", "forall s d, g_shape_block_indent s d = block_indent s d")
        T("tie_shape_add_offset", "forall s d, g_shape_add_offset s d = add_offset s d")
        T("tie_shape_block", "forall s, g_shape_block s = shape_block s")
        T("tie_shape_saturating_sub_width", "forall s d, g_shape_saturating_sub_width s d = saturating_sub_width s d")
        T("tie_shape_sub_width_opt", "forall s d, g_shape_sub_width_opt s d = sub_width_opt s d")
        T("tie_shape_shrink_left_opt", "forall s d, g_shape_shrink_left_opt s d = shrink_left_opt s d")
        T("tie_shape_offset_left_opt", "forall s d, g_shape_offset_left_opt s d = offset_left_opt s d")
        T("tie_shape_used_width", "forall s, g_shape_used_width s = used_width s")
        T("tie_shape_rhs_overhead", "forall m s, g_shape_rhs_overhead m s = rhs_overhead m s")
        T("tie_shape_comment", "forall m s, g_shape_comment m s = shape_comment m s")
        T("tie_shape_infinite_width", "forall s, g_shape_infinite_width s = infinite_width s")
        # the checked / saturating Shape operations contain no raw subtraction at all; block_unindent's is guarded by its own test
        T("shape_ops_never_underflow",
          "forall (s : shape) (d m : N), g_shape_saturating_sub_width_safe s d = true /\\ g_shape_sub_width_opt_safe s d = true /\\ g_shape_shrink_left_opt_safe s d = true /\\ "
          "g_shape_offset_left_opt_safe s d = true /\\ g_shape_rhs_overhead_safe m s = true /\\ g_shape_comment_safe m s = true /\\ g_shape_indented_safe m (ind s) = true",
          "intros. repeat split; reflexivity.")
        out[1] = "From V Require Import Base.Text Base.Tie C16.Model C16.Props."
        T("now_sub_width_total", "forall s d, (d <= width s -> g_shape_sub_width_opt s d = Some (MkShape (width s - d) (ind s) (offset s))) /\\ (width s < d -> g_shape_sub_width_opt s d = None)",
          "intros s d. rewrite tie_shape_sub_width_opt. apply sub_width_total.")
        T("now_right_edge_monotone", "forall s d s', (g_shape_shrink_left_opt s d = Some s' -> g_shape_used_width s' + width s' = g_shape_used_width s + width s) /\\ "
          "(g_shape_offset_left_opt s d = Some s' -> g_shape_used_width s' + width s' = g_shape_used_width s + width s) /\\ "
          "(g_shape_sub_width_opt s d = Some s' -> g_shape_used_width s' + width s' <= g_shape_used_width s + width s)",
          "intros s d s'. rewrite tie_shape_shrink_left_opt, tie_shape_offset_left_opt, tie_shape_sub_width_opt, !tie_shape_used_width. apply right_edge_monotone.")
        T("now_indent_sub_precondition", "forall a b, g_indent_sub_safe a b = true <-> (block b <= block a /\\ align b <= align a)")
        T("indent_block_unindent_never_underflows", "forall (t : N) (i : indent), g_indent_block_unindent_safe t i = true")
        T("indent_from_width_safe_iff", "forall (t : N) (h : bool) (w : N), g_indent_from_width_safe t h w = true <-> (h = true -> t <> 0)")
        _write(rel, "\n".join(out))
    except (R.Unsupported, AssertionError, KeyError, IndexError) as e:
        _failed(rel, "shape_ops", e)
    return rel


# ------------------------------------------------------------------------------------------ C06: flags join and exit codes

def gen_c06():
    rel = "Gen/C06/ExitOps.v"
    try:
        ftoks = R.lex(open(os.path.join(common.REPO, "src/formatting.rs")).read())
        fields = ["has_operational_errors", "has_parsing_errors", "has_formatting_errors", "has_macro_format_failure", "has_check_errors", "has_diff", "has_unformatted_code_errors"]
        got = R.find_struct(ftoks, "ReportedErrors")
        if [f for f, _ in got] != fields or any(t != "bool" for _, t in got):
            raise R.Unsupported("struct ReportedErrors changed: %r" % (got,))
        proj = ["f_operational", "f_parsing", "f_formatting", "f_macro", "f_check", "f_diff", "f_unformatted"]
        recs = {"ReportedErrors": ("flags", "MkFlags", [(f, p, "bool") for f, p in zip(fields, proj)])}
        ctx = R.Ctx(recs)
        out = [HEADER % (rel, "src/formatting.rs, src/bin/main.rs"), "From V Require Import Base.Text Base.Tie C06.Model.", "Open Scope N_scope.", ""]
        t, _ = R.translate_fn(ctx, ftoks, "ReportedErrors", "add", "g_flags_add", self_ty="ReportedErrors", param_types={"other": "ReportedErrors"})
        out.append(t)
        # the two exit-code expressions of main.rs: `let exit_code = if .. { 1 } else { 0 };` in fn format / fn format_string; the
        # session's accessors and options.check become parameters
        mtoks = R.lex(open(os.path.join(common.REPO, "src/bin/main.rs")).read())
        opaque = {"session.has_operational_errors()": ("(f_operational f)", "bool"), "session.has_parsing_errors()": ("(f_parsing f)", "bool"),
                  "session.has_diff()": ("(f_diff f)", "bool"), "session.has_check_errors()": ("(f_check f)", "bool"),
                  "session.has_formatting_errors()": ("(f_formatting f)", "bool"), "session.has_unformatted_code_errors()": ("(f_unformatted f)", "bool"),
                  "options.check": ("check", "bool")}
        for fn, cname in (("format", "g_exit_file"), ("format_string", "g_exit_stdin")):
            p = R.P(mtoks, R.find_fn(mtoks, 0, len(mtoks), fn))
            # find `let exit_code =` inside the function and parse its initialiser
            j = p.i
            while not (mtoks[j][1] == "let" and mtoks[j + 1][1] == "exit_code"):
                j += 1
                if mtoks[j][1] == "fn" and j > p.i + 1:
                    raise R.Unsupported("no `let exit_code` in fn %s" % fn)
            q = R.P(mtoks, j + 3)
            e = q.expr()
            if q.peek() != ";":
                raise R.Unsupported("exit_code initialiser of fn %s" % fn)
            c2 = R.Ctx(recs, opaque=opaque)
            term, ty = R.Tr(c2, None, {}).e(e)
            out.append("(* main.rs fn %s: let exit_code = .. *)\nDefinition %s (f : flags) (check : bool) : N :=\n  %s.\n" % (fn, cname, term))
        U = ["g_flags_add", "g_exit_file", "g_exit_stdin", "flags_add", "exit_file", "exit_stdin"]
        out.append(_theorem("tie_flags_add", "forall a b, g_flags_add a b = flags_add a b", U))
        out.append(_theorem("tie_exit_file", "forall f check, g_exit_file f check = exit_file f check", U))
        out.append(_theorem("tie_exit_stdin", "forall f check, g_exit_stdin f check = exit_stdin f", U))
        out[1] = "From V Require Import Base.Text Base.Tie C06.Model C06.Props."
        out.append(_theorem("now_exit_range", "forall (f : flags) (c : bool), (g_exit_file f c = 0 \\/ g_exit_file f c = 1) /\\ (g_exit_stdin f c = 0 \\/ g_exit_stdin f c = 1)", [],
                            "intros f c. rewrite tie_exit_file, tie_exit_stdin. apply exit_range."))
        _write(rel, "\n".join(out))
    except (R.Unsupported, AssertionError, KeyError, IndexError) as e:
        _failed(rel, "exit_ops", e)
    return rel


# ------------------------------------------------------------------------------------------ C08: the blank-line clamp

def gen_c08():
    rel = "Gen/C08/VSpace.v"
    try:
        toks = R.lex(open(os.path.join(common.REPO, "src/missed_spans.rs")).read())
        lo, hi = R.find_impl(toks, "< 'a > FmtVisitor < 'a >")
        p = R.P(toks, R.find_fn(toks, lo, hi, "push_vertical_spaces"))
        name, params, ret, body = p.fn()
        stmts = body[1]
        # `let offset = <count of trailing newlines of the buffer>` is a parameter; the function's value is newline_count where
        # `let blank_lines = "\n".repeat(newline_count)` begins
        if stmts[0][0] != "let" or stmts[0][1] != "offset":
            raise R.Unsupported("push_vertical_spaces: first statement is not `let offset`")
        stmts[0] = ("let", "offset", ("opaque",))          # the count of trailing newlines of the buffer: a parameter
        keep = []
        for s in stmts[1:]:
            if s[0] == "let" and s[1] == "blank_lines":
                break
            keep.append(s)
        else:
            raise R.Unsupported("push_vertical_spaces: no `let blank_lines`")
        ctx = R.Ctx({}, getters={"blank_lines_upper_bound": ("hi", "N"), "blank_lines_lower_bound": ("lo", "N")})
        tr = R.Tr(ctx, None, {"offset": "N", "newline_count": "N"})
        term, ty = tr.blk(("block", keep, None), result="newline_count")
        safe = " && ".join("(%s)" % v for v in tr.vcs) if tr.vcs else "true"
        out = [HEADER % (rel, "src/missed_spans.rs"), "From V Require Import Base.Text Base.Tie C08.Model.", "Open Scope N_scope.", "",
               "(* FmtVisitor::push_vertical_spaces: the number of newlines pushed; offset = newlines already at the end of the buffer *)",
               "Definition g_vspace (lo hi offset newline_count : N) : N :=\n  %s.\n" % term,
               "Definition g_vspace_safe (lo hi offset newline_count : N) : bool :=\n  %s.\n" % safe]
        U = ["g_vspace", "g_vspace_safe", "vspace"]
        out.append(_theorem("tie_vspace", "forall lo hi offset n, g_vspace lo hi offset n = vspace lo hi offset n", U))
        out.append(_theorem("vspace_never_underflows", "forall lo hi offset n, g_vspace_safe lo hi offset n = true", U))
        # the property clauses, stated about the code as it is NOW (through the tie)
        out[3] = "From V Require Import Base.Text Base.Tie C08.Model C08.Props."
        out.append(_theorem("now_clamp_bounds", "forall lo hi offset n : N, lo <= hi -> let k := g_vspace lo hi offset n in (lo + 1 <= offset + k /\\ offset + k <= hi + 1) \\/ (hi + 1 < offset /\\ k = 0)", [],
                            "intros lo hi offset n H. rewrite tie_vspace. exact (clamp_bounds lo hi offset n H)."))
        out.append(_theorem("now_clamp_idem", "forall lo hi offset n : N, lo <= hi -> g_vspace lo hi (offset + g_vspace lo hi offset n) 0 = 0", [],
                            "intros lo hi offset n H. rewrite !tie_vspace. exact (clamp_idem lo hi offset n H)."))
        _write(rel, "\n".join(out))
    except (R.Unsupported, AssertionError, KeyError, IndexError) as e:
        _failed(rel, "vspace", e)
    return rel


# ------------------------------------------------------------------------------------------ C20: the backup protocol's operations

def gen_c20():
    rel = "Gen/C20/BackupOps.v"
    try:
        toks = R.lex(open(os.path.join(common.REPO, "src/emitter/files_with_backup.rs")).read())
        lo, hi = R.find_impl(toks, "Emitter for FilesWithBackupEmitter")
        i = R.find_fn(toks, lo, hi, "emit_formatted_file")
        # the guarded block:  if original_text != formatted_text { ... }
        j = i
        while not ([t for _, t in toks[j:j + 4]] == ["if", "original_text", "!=", "formatted_text"]):
            j += 1
            if j >= hi:
                raise R.Unsupported("no `if original_text != formatted_text` guard")
        b = j + 4
        e = R.find_block(toks, b)
        body = toks[b + 1:e - 1]
        # drop the cfg(rustfmt_verif) crash-point statements:  # [ cfg ( rustfmt_verif ) ] crate :: verif_hooks :: crash_point ( .. ) ? ;
        flat, k = [], 0
        while k < len(body):
            if body[k][1] == "#" and [t for _, t in body[k + 1:k + 7]] == ["[", "cfg", "(", "rustfmt_verif", ")", "]"]:
                k += 7
                while body[k][1] != ";":
                    k += 1
                k += 1
                continue
            flat.append(body[k][1])
            k += 1
        names = {"tmp_name": "(tmp_of f)", "bk_name": "(bk_of f)", "filename": "f"}
        ops, k = [], 0
        # after the `let (tmp_name, bk_name) = ...;` binding: every statement must be one of the known file-system calls
        while k < len(flat) and not (flat[k] == "let" and flat[k + 1] == "(" and flat[k + 2] == "tmp_name"):
            k += 1
        if k >= len(flat):
            raise R.Unsupported("no `let (tmp_name, bk_name)` binding")
        d = 0
        while not (flat[k] == ";" and d == 0):
            d += flat[k] in ("(", "{", "[")
            d -= flat[k] in (")", "}", "]")
            k += 1
        k += 1
        rest = flat[k:]
        stmts, cur, d = [], [], 0
        for t in rest:
            d += t in ("(", "{", "[")
            d -= t in (")", "}", "]")
            cur.append(t)
            if t == ";" and d == 0:
                stmts.append(cur)
                cur = []
        if cur:
            raise R.Unsupported("trailing tokens in the guarded block: %r" % cur[:8])

        def arg(ts):
            ts = [x for x in ts if x not in ("&",)]
            if len(ts) == 1 and ts[0] in names:
                return names[ts[0]]
            raise R.Unsupported("argument %r of a file-system call" % (ts,))
        for st in stmts:
            txt = " ".join(st)
            ignore = st[:3] == ["let", "_", "="]
            if ignore:
                st = st[3:]
            if st[:4] == ["fs", "::", "remove_file", "("] and st[-2:] == [")", ";"] and ignore:
                ops.append("Remove %s" % arg(st[4:-2]))
            elif st[:4] == ["fs", "::", "write", "("] and st[-3:] == [")", "?", ";"] and not ignore:
                a = st[4:-3]
                c = a.index(",")
                if a[c + 1:] != ["formatted_text"]:
                    raise R.Unsupported("fs::write of %r" % (a[c + 1:],))
                ops.append("Write %s fmt" % arg(a[:c]))
            elif st[:4] == ["fs", "::", "rename", "("] and st[-3:] == [")", "?", ";"] and not ignore:
                a = st[4:-3]
                c = a.index(",")
                ops.append("Rename %s %s" % (arg(a[:c]), arg(a[c + 1:])))
            else:
                raise R.Unsupported("statement in the backup protocol: %s" % txt[:120])
        out = [HEADER % (rel, "src/emitter/files_with_backup.rs"), "From V Require Import Base.Text Base.Tie C20.Model.", "Open Scope N_scope.", "",
               "(* the file-system calls of FilesWithBackupEmitter::emit_formatted_file, in program order, inside `if original_text != formatted_text` *)",
               "Definition g_backup_ops (tmp_of bk_of : path -> path) (f : path) (fmt : text) : list op :=\n  [%s].\n" % "; ".join(ops)]
        out.append(_theorem("tie_backup_ops", "forall tmp_of bk_of f orig fmt, eqb_text orig fmt = false -> backup_ops tmp_of bk_of f orig fmt = g_backup_ops tmp_of bk_of f fmt", [],
                            "intros tmp_of bk_of f orig fmt H. unfold backup_ops, g_backup_ops. rewrite H. reflexivity."))
        _write(rel, "\n".join(out))
    except (R.Unsupported, AssertionError, KeyError, IndexError, ValueError) as e:
        _failed(rel, "backup_ops", e)
    return rel


# ------------------------------------------------------------------------------------------ C19: the regular expressions

# the source text of the three regular expressions the matchers of coq/C19/Model.v were written (and proved) for
C19_PINNED = {
    "diff_pattern": 'r"^\\+\\+\\+\\s(?:.*?/){{{skip_prefix}}}(\\S*)"',
    "lines_pattern": 'r"^@@ -\\d+(?:,\\d+)? \\+(\\d+)(,(\\d+))?"',
    "file_filter": '"^{file_filter}$"',
}


def gen_c19():
    rel = "Gen/C19/DiffRe.v"
    try:
        import re as _re
        src = open(os.path.join(common.REPO, "src/format-diff/main.rs")).read()
        found = {}
        m = _re.search(r'let diff_pattern = format!\((r"[^"]*")\);', src)
        found["diff_pattern"] = m.group(1) if m else None
        m = _re.search(r'let lines_pattern = Regex::new\((r"[^"]*")\)', src)
        found["lines_pattern"] = m.group(1) if m else None
        m = _re.search(r'let file_filter = Regex::new\(&format!\(("[^"]*")\)\)', src)
        found["file_filter"] = m.group(1) if m else None
        if src.count("Regex::new") != 3:
            raise R.Unsupported("format-diff/main.rs builds %d regular expressions, the model knows 3" % src.count("Regex::new"))

        def coqstr(x):
            return '"%s"' % (x or "<not found>").replace('"', '""')
        out = [HEADER % (rel, "src/format-diff/main.rs"), "From Coq Require Import String List.", "Import ListNotations.", "Open Scope string_scope.", "",
               "(* the source text of the regular expressions as they are in the code NOW *)",
               "Definition re_now : list (string * string) := [%s]." % "; ".join("(%s, %s)" % (coqstr(k), coqstr(found[k])) for k in sorted(C19_PINNED)),
               "(* ... and as they were when the matchers file_hdr / hunk_hdr of coq/C19/Model.v were written and scan_render was proved *)",
               "Definition re_modelled : list (string * string) := [%s]." % "; ".join("(%s, %s)" % (coqstr(k), coqstr(C19_PINNED[k])) for k in sorted(C19_PINNED)),
               _theorem("tie_regexes_unchanged", "re_now = re_modelled", [], "reflexivity.")]
        _write(rel, "\n".join(out))
    except (R.Unsupported, AssertionError, KeyError, IndexError, ValueError) as e:
        _failed(rel, "diff_regexes", e)
    return rel


# ------------------------------------------------------------------------------------------ C07: which errors are reported

def gen_c07():
    rel = "Gen/C07/ReportOps.v"
    try:
        ctoks = R.lex(open(os.path.join(common.REPO, "src/comment.rs")).read())
        ltoks = R.lex(open(os.path.join(common.REPO, "src/lib.rs")).read())
        ftoks = R.lex(open(os.path.join(common.REPO, "src/formatting.rs")).read())
        ctx = R.Ctx({}, getters={"error_on_unformatted": ("eou", "bool"), "error_on_line_overflow": ("eol", "bool")},
                    opaque={"self.current_line_contains_string_literal": ("has_strlit", "bool")})
        ctx.enums = {"FullCodeCharKind": "kind", "ErrorKind": "error_kind", "& ErrorKind": "error_kind"}
        for v in ["Normal", "StartComment", "InComment", "EndComment", "StartStringCommented", "EndStringCommented", "InStringCommented", "StartString", "EndString", "InString"]:
            ctx.variants[v] = v
        ctx.variants.update({"LineOverflow": "LineOverflow _ _", "TrailingWhitespace": "TrailingWhitespace", "DeprecatedAttr": "DeprecatedAttr", "BadAttr": "BadAttr",
                             "LostComment": "LostComment", "IoError": "IoError", "ModuleResolutionError": "ModuleResolutionError", "ParseError": "ParseError",
                             "VersionMismatch": "VersionMismatch", "InvalidGlobPattern": "InvalidGlobPattern"})
        out = [HEADER % (rel, "src/comment.rs, src/lib.rs, src/formatting.rs"), "From V Require Import Base.Text Base.Tie C07.Model.", "Open Scope N_scope.", ""]
        t, _ = R.translate_fn(ctx, ctoks, "FullCodeCharKind", "is_comment", "g_kind_is_comment", self_ty="FullCodeCharKind")
        out.append(t)
        t, _ = R.translate_fn(ctx, ltoks, "ErrorKind", "is_comment", "g_ek_is_comment", self_ty="ErrorKind")
        out.append(t)
        lo, hi = R.find_impl(ftoks, "< 'a > FormatLines < 'a >")
        p = R.P(ftoks, R.find_fn(ftoks, lo, hi, "should_report_error"))
        name, params, ret, body = p.fn()
        tr = R.Tr(ctx, None, {"char_kind": "FullCodeCharKind", "error_kind": "ErrorKind"})
        term, ty = tr.blk(body)
        out.append("(* FormatLines::should_report_error; eou / eol = config.error_on_unformatted() / error_on_line_overflow(), has_strlit = self.current_line_contains_string_literal *)\n"
                   "Definition g_should_report_error (eou eol has_strlit : bool) (char_kind : kind) (error_kind : error_kind) : bool :=\n  %s.\n" % term)
        # ---- the scanner's state and its two step functions (char, new_line) with push_err
        want_fields = ["name", "skipped_range", "last_was_space", "line_len", "cur_line", "newline_count", "errors", "line_buffer",
                       "current_line_contains_string_literal", "format_line", "config"]
        got = [f for f, _ in R.find_struct(ftoks, "FormatLines")]
        if got != want_fields:
            raise R.Unsupported("struct FormatLines changed: %r" % (got,))
        got = [f for f, _ in R.find_struct(ftoks, "FormattingError")]
        if got != ["line", "kind", "is_comment", "is_string", "line_buffer"]:
            raise R.Unsupported("struct FormattingError changed: %r" % (got,))
        recs = {"FormatLines": ("fl", "MkFL", [("last_was_space", "last_was_space", "bool"), ("line_len", "line_len", "N"), ("cur_line", "cur_line", "N"),
                                               ("newline_count", "newline_count", "N"), ("errors", "errors", "list ferr"),
                                               ("current_line_contains_string_literal", "has_strlit", "bool"), ("format_line", "format_line", "bool")]),
                "FormattingError": ("ferr", "MkErr", [("line", "fe_line", "N"), ("kind", "fe_kind", "ErrorKind"), ("is_comment", "fe_is_comment", "bool"), ("is_string", "fe_is_string", "bool")])}
        c3 = R.Ctx(recs, getters={"max_width": ("mw", "N"), "tab_spaces": ("ts", "N")})
        c3.enums = dict(ctx.enums)
        c3.variants = dict(ctx.variants)
        c3.funcs = dict(ctx.funcs)
        c3.chars = {"'\\t'": "TAB"}
        c3.ctors = {"LineOverflow": ("LineOverflow", "ErrorKind")}
        c3.values = {"TrailingWhitespace": ("TrailingWhitespace", "ErrorKind")}
        c3.ignore_stmts = {"self.line_buffer.push(c)", "self.line_buffer.clear()"}
        c3.opaque = {"c.is_whitespace()": ("(is_whitespace c)", "bool"),
                     "self.is_skipped_line()": ("(is_skipped_line skipped self)", "bool"),
                     "self.config.file_lines().contains_line(self.name, self.cur_line)": ("(sel (cur_line self))", "bool"),
                     "self.should_report_error(kind, ErrorKind::TrailingWhitespace)": ("(g_should_report_error eou eol (has_strlit self) kind TrailingWhitespace)", "bool"),
                     "self.should_report_error(kind, error_kind)": ("(g_should_report_error eou eol (has_strlit self) kind error_kind)", "bool")}
        t, _ = R.translate_fn(c3, ctoks, "FullCodeCharKind", "is_string", "g_kind_is_string", self_ty="FullCodeCharKind")
        out.append(t)
        impl = "< 'a > FormatLines < 'a >"
        t, _ = R.translate_fn(c3, ftoks, impl, "push_err", "g_push_err", self_ty="FormatLines", param_types={"kind": "ErrorKind"})
        out.append(t)
        t, _ = R.translate_fn(c3, ftoks, impl, "char", "g_char", self_ty="FormatLines", param_types={"c": "usize", "kind": "FullCodeCharKind"}, extra_params=[("ts", "N")])
        out.append(t)
        t, _ = R.translate_fn(c3, ftoks, impl, "new_line", "g_new_line", self_ty="FormatLines", param_types={"kind": "FullCodeCharKind"},
                              extra_params=[("eou", "bool"), ("eol", "bool"), ("mw", "N"), ("skipped", "list (N * N)"), ("sel", "N -> bool")])
        out.append(t)
        # is_skipped_line and iterate are pinned token for token (closures over tuples / a for loop are outside the translated subset)
        PINS = {"is_skipped_line": "fn is_skipped_line ( & self ) -> bool { self . skipped_range . iter ( ) . any ( | & ( lo , hi ) | lo <= self . cur_line && self . cur_line <= hi ) }",
                "iterate": "fn iterate ( & mut self , text : & mut String ) { for ( kind , c ) in CharClasses :: new ( text . chars ( ) ) { if c == '\\r' { continue ; } if c == '\\n' { self . new_line ( kind ) ; } else { self . char ( c , kind ) ; } } }"}
        lo, hi = R.find_impl(ftoks, impl)
        for fn, want in PINS.items():
            j = R.find_fn(ftoks, lo, hi, fn)
            d, k2, seen = 0, j, False
            while True:
                tk = ftoks[k2][1]
                d += tk == "{"
                d -= tk == "}"
                seen = seen or tk == "{"
                k2 += 1
                if seen and d == 0:
                    break
            have = " ".join(tk for _, tk in ftoks[j:k2])
            if have != want:
                raise R.Unsupported("FormatLines::%s changed: %s" % (fn, have))
            out.append("(* FormatLines::%s is, token for token: %s *)" % (fn, want.replace("*)", "* )")))
        U = ["g_kind_is_comment", "g_ek_is_comment", "g_should_report_error", "should_report_error", "is_comment", "ek_is_comment"]
        out.append(_theorem("tie_kind_is_comment", "forall k, g_kind_is_comment k = is_comment k", U, "intros k. destruct k; reflexivity."))
        out.append(_theorem("tie_ek_is_comment", "forall e, g_ek_is_comment e = ek_is_comment e", U, "intros e. destruct e; reflexivity."))
        out.append(_theorem("tie_should_report_error", "forall cfg st k e, g_should_report_error (error_on_unformatted cfg) (error_on_line_overflow cfg) (has_strlit st) k e = should_report_error cfg st k e", U,
                            "intros cfg st k e. unfold g_should_report_error, should_report_error, g_kind_is_comment, g_ek_is_comment, is_comment, ek_is_comment. destruct k, e; reflexivity."))
        out.append(_theorem("tie_kind_is_string", "forall k, g_kind_is_string k = is_string k", U, "intros k. destruct k; reflexivity."))
        out.append(_theorem("tie_push_err", "forall st ek c s, g_push_err st ek c s = push_err st ek c s", U, "intros. reflexivity."))
        out.append(_theorem("tie_char", "forall cfg st c k, g_char (tab_spaces cfg) st c k = char_step cfg st c k", U,
                            "intros cfg st c k. unfold g_char, char_step. rewrite tie_kind_is_string. destruct st; cbn. destruct (is_string k); reflexivity."))


        _write(rel, "\n".join(out))
    except (R.Unsupported, AssertionError, KeyError, IndexError, ValueError) as e:
        _failed(rel, "report_ops", e)
    return rel


# ------------------------------------------------------------------------------------------ C13: which resolved modules are formatted

def gen_c13():
    rel = "Gen/C13/KeepOps.v"
    try:
        toks = R.lex(open(os.path.join(common.REPO, "src/formatting.rs")).read())
        getters = {"skip_children": ("skip_children", "bool"), "format_generated_files": ("format_generated", "bool")}
        # the facts about one (path, module) pair are parameters; `psess.ignore_file(Stdin)` is false (ignore_path.rs: only FileName::Real matches)
        opaque = {"contains_skip(module.attrs())": ("has_skip", "bool"), "path != main_file": ("(negb is_main)", "bool"), "path == main_file": ("is_main", "bool"),
                  "context.ignore_file(path)": ("ignored", "bool"), "is_generated_file(src, config)": ("generated", "bool")}
        ctx = R.Ctx({}, getters=getters, opaque=opaque)
        p = R.P(toks, R.find_fn(toks, 0, len(toks), "should_skip_module"))
        name, params, ret, body = p.fn()
        if [n for n, _ in params] != ["config", "context", "input_is_stdin", "main_file", "path", "module"] or ret != "bool":
            raise R.Unsupported("signature of should_skip_module changed: %r -> %r" % (params, ret))
        term, ty = R.Tr(ctx, None, {"input_is_stdin": "bool", "source_file": "?", "src": "?"}).blk(body)
        PARAMS = "(skip_children format_generated input_is_stdin has_skip is_main ignored generated : bool)"
        ARGS = "skip_children format_generated input_is_stdin has_skip is_main ignored generated"
        out = [HEADER % (rel, "src/formatting.rs"), "From V Require Import Base.Text Base.Tie C13.Model.", "Open Scope N_scope.", "",
               "(* should_skip_module; has_skip = contains_skip(module.attrs()), is_main = (path == main_file), ignored = context.ignore_file(path),\n"
               "   generated = is_generated_file(src, config) *)\nDefinition g_should_skip_module %s : bool :=\n  %s.\n" % (PARAMS, term)]
        # format_project: the three places that decide what is walked / kept
        f0 = R.find_fn(toks, 0, len(toks), "format_project")
        f1 = f0 + 1
        while not (toks[f1][1] == "fn" and toks[f1 - 1][1] in ("}", "]")) and f1 < len(toks) - 1:
            f1 += 1

        def find(seq, what):
            for j in range(f0, f1):
                if [t for _, t in toks[j:j + len(seq)]] == seq:
                    return j
            raise R.Unsupported("format_project: no %s" % what)
        # (a) the filter closure
        j = find([".", "filter", "(", "|", "(", "path", ",", "module", ")", "|", "{"], "filter closure over (path, module)")
        q = R.P(toks, j + 10)
        blk = q.block()
        if q.peek() != ")":
            raise R.Unsupported("filter closure")
        c2 = R.Ctx({}, getters=getters, opaque={"should_skip_module(config, context, input_is_stdin, main_file, path, module)": ("(g_should_skip_module %s)" % ARGS, "bool")})
        term, ty = R.Tr(c2, None, {"input_is_stdin": "bool"}).blk(blk)
        out.append("(* format_project: .filter(|(path, module)| ..) over the resolver's file map *)\nDefinition g_keep %s : bool :=\n  %s.\n" % (PARAMS, term))
        # exactly one filter between visit_crate and the loop
        if sum(1 for j2 in range(f0, f1) if toks[j2][1] == "filter") != 1:
            raise R.Unsupported("format_project: more than one filter")
        # (b) ModResolver::new(.., .., recursive)
        j = find(["ModResolver", "::", "new", "("], "ModResolver::new")
        q = R.P(toks, j + 4)
        args = []
        while True:
            args.append(q.expr())
            if q.peek() == ",":
                q.eat()
            if q.peek() == ")":
                break
        if len(args) != 3:
            raise R.Unsupported("ModResolver::new arity")
        term, ty = R.Tr(R.Ctx({}, getters=getters), None, {"input_is_stdin": "bool"}).e(args[2])
        out.append("(* format_project: the `recursive` argument of ModResolver::new *)\nDefinition g_recursive (skip_children input_is_stdin : bool) : bool :=\n  %s.\n" % term)
        # (c) the early exit before parsing
        j = find(["if", "config", ".", "skip_children", "(", ")", "&&"], "early exit")
        q = R.P(toks, j + 1)
        cond = q.expr(nostruct=True)
        b = q.block()
        if [s[0] for s in b[1]] != ["return"] or b[2] is not None:
            raise R.Unsupported("early exit body")
        term, ty = R.Tr(R.Ctx({}, getters=getters, opaque={"psess.ignore_file(main_file)": ("((negb input_is_stdin) && root_ignored)", "bool")}), None, {"input_is_stdin": "bool"}).e(cond)
        out.append("(* format_project: `if <this> { return Ok(FormatReport::new()) }` before parsing; psess.ignore_file(Stdin) = false *)\n"
                   "Definition g_early_exit (skip_children input_is_stdin root_ignored : bool) : bool :=\n  %s.\n" % term)
        # (d) the echo-back guard of the loop
        j = find(["if", "input_is_stdin", "&&", "contains_skip"], "stdin echo guard")
        q = R.P(toks, j + 1)
        cond = q.expr(nostruct=True)
        term, ty = R.Tr(R.Ctx({}, opaque=opaque), None, {"input_is_stdin": "bool"}).e(cond)
        out.append("(* format_project: the guard of echo_back_stdin inside the loop *)\nDefinition g_echo_back (input_is_stdin has_skip : bool) : bool :=\n  %s.\n" % term)
        U = ["g_should_skip_module", "g_keep", "g_recursive", "g_early_exit", "g_echo_back", "keep"]
        out.append(_theorem("tie_keep", "forall lookup ffacts cfg root e, g_keep (skip_children cfg) (format_generated cfg) (input_is_stdin cfg) (minfo_skip ffacts (snd e)) (path_eqb (fst e) root) (path_ignored lookup ffacts (fst e)) (minfo_generated ffacts (snd e)) = keep lookup ffacts cfg root e", U,
                            "intros lookup ffacts cfg root e. unfold g_keep, g_should_skip_module, keep. destruct (input_is_stdin cfg), (minfo_skip ffacts (snd e)), (skip_children cfg), (path_eqb (fst e) root), (path_ignored lookup ffacts (fst e)), (format_generated cfg), (minfo_generated ffacts (snd e)); reflexivity."))
        out.append(_theorem("tie_recursive", "forall sc stdin, g_recursive sc stdin = negb stdin && negb sc", U, "intros [] []; reflexivity."))
        out.append(_theorem("tie_early_exit", "forall sc stdin ig, g_early_exit sc stdin ig = sc && negb stdin && ig", U, "intros [] [] []; reflexivity."))
        out.append(_theorem("tie_echo_back", "forall stdin hs, g_echo_back stdin hs = stdin && hs", U, "intros [] []; reflexivity."))
        # statements about the code as it is now (no model in between)
        out.append(_theorem("now_stdin_keeps_everything", "forall sc fg hs im ig gen, g_keep sc fg true hs im ig gen = true", U, "intros [] [] [] [] [] []; reflexivity."))
        out.append(_theorem("now_kept_iff", "forall sc fg hs im ig gen, g_keep sc fg false hs im ig gen = true <-> (hs = false /\\ (sc = true -> im = true) /\\ ig = false /\\ (fg = false -> gen = false))", U,
                            "intros [] [] [] [] [] []; cbv; intuition congruence."))
        out.append(_theorem("now_generated_files_formatted_on_request", "forall sc hs im ig gen, g_keep sc true false hs im ig gen = g_keep sc true false hs im ig false", U, "intros [] [] [] [] []; reflexivity."))
        _write(rel, "\n".join(out))
    except (R.Unsupported, AssertionError, KeyError, IndexError, ValueError) as e:
        _failed(rel, "keep_ops", e)
    return rel


def gen_c07_newline():
    """thorough tier only: FormatLines::new_line (regenerated in Gen/C07/ReportOps.v) equals the model's new_line wherever that is defined.
    Kept out of the default build: the case analysis takes ~15 minutes of coqc."""
    rel = "Gen/C07/NewLine.v"
    U = []
    out = ["(* %s -- REGENERATED by checks/gen_ties.py (thorough tier of C07); compiled directly with coqc, not part of _CoqProject *)" % rel,
       "From V Require Import Base.Text Base.Tie C07.Model Gen.C07.ReportOps.", "Open Scope N_scope.", ""]
    PRE = ("intros cfg skipped sel st k st' H. "
           "cbv delta [new_line trailing_check overflow_check set_line_len should_report_error push_err is_skipped_line ek_is_comment] in H. "
           "cbv delta [%s g_should_report_error g_push_err g_ek_is_comment is_skipped_line]. cbv beta. "
           "rewrite ?(tie_kind_is_comment k), ?(tie_kind_is_string k). destruct st as [lws ll cl nc er hs fmt]. cbv beta iota in *. fl_projs. ")
    out.append("Ltac fl_projs := cbn [last_was_space line_len cur_line newline_count errors has_strlit format_line] in *.\n"
               "Ltac fl_cases H := repeat (match type of H with context [if ?c then _ else _] => destruct c end; cbv beta iota zeta in *; fl_projs).\n")
    out.append(_theorem("tie_new_line", "forall cfg skipped sel st k st', new_line cfg skipped sel st k = Some st' -> g_new_line (error_on_unformatted cfg) (error_on_line_overflow cfg) (max_width cfg) skipped sel st k = st'", U,
                        PRE % "g_new_line" + "destruct fmt; [| cbv beta iota zeta in *; fl_projs; injection H as <-; reflexivity ]. "
                        "destruct lws; cbv beta iota zeta in H; fl_projs; cbv beta iota zeta; fl_projs. all: fl_cases H. all: try discriminate H. all: injection H as <-; reflexivity."))
    _write(rel, "\n".join(out))
    return rel


SLOW_GROUPS = {"C07nl": gen_c07_newline}        # not part of gen_all() / setup

GROUPS = {"C13": gen_c13, "C07": gen_c07, "C19": gen_c19, "C20": gen_c20, "C17": gen_c17, "C16": gen_c16, "C06": gen_c06, "C08": gen_c08}


def gen_all():
    return [g() for g in GROUPS.values()]


if __name__ == "__main__":
    for r in gen_all():
        print(r)
