"""C07 — line-width and trailing-whitespace diagnostics are exact (format_lines scanner)."""
from . import common, coqterm

PROP = "C07"
TRUSTED = [
    "Coq 8.16.1 kernel (coqc); vm_compute evaluates the model in cases.v; no native_compute",
    "Print Assumptions of every theorem in coq/C07/Props.v: Closed under the global context (checked each run)",
    "hand-written model coq/C07/Model.v of FormatLines (formatting.rs), track_errors (lib.rs) and the exit-code expressions (bin/main.rs); tied to the code by the correspondence run through hooks verif_hooks::{format_lines, report_entries, char_classes}",
    "the (kind, char) stream is the implementation's own CharClasses output (classification itself is C03's subject)",
    "char::is_whitespace table of Base/Text.v; usize overflow of additions not modelled; tab_spaces >= 1 (the property's range)",
    "python re-statement of the property (oracle) in this check",
]

WS = [" ", "\t", " ", "　"]
PIECES = ["fn f() {", "}", "let x = 1;", "x" * 25, "y" * 40, "// c " + "c" * 20, "/* b */", "/* open", "close */",
          "\"str\"", "\"multi", "line\"", "r#\"raw\"#", "'c'", "\t", "    ", "é" * 10, "a", ""]


def gen_text(rnd):
    lines = []
    for _ in range(rnd.randint(1, 8)):
        l = "".join(rnd.choice(PIECES) for _ in range(rnd.randint(0, 4)))
        if rnd.random() < 0.3:
            l += "".join(rnd.choice(WS) for _ in range(rnd.randint(1, 2)))
        lines.append(l)
    sep = rnd.choice(["\n", "\n", "\n", "\r\n"])
    t = sep.join(lines)
    t += rnd.choice(["", "\n", "\n", "\n\n\n", sep])
    return t


def gen_cases(tier, seed):
    rnd = common.rng(seed, PROP)
    n = 1200 if tier == "quick" else 20000
    cases = [{"text": "aaaa\t\n", "config": [["max_width", "7"], ["tab_spaces", "4"], ["error_on_line_overflow", "true"], ["error_on_unformatted", "true"]], "skipped": [], "sel": None}]
    for _ in range(n):
        t = gen_text(rnd)
        nl = t.count("\n") + 1
        cfg = [["max_width", str(rnd.choice([20, 25, 30, 40, 60, 100]))], ["tab_spaces", str(rnd.randint(1, 8))],
               ["error_on_line_overflow", rnd.choice(["true", "true", "false"])],
               ["error_on_unformatted", rnd.choice(["true", "false"])]]
        skipped = []
        if rnd.random() < 0.3:
            a = rnd.randint(1, nl)
            skipped.append([a, a + rnd.randint(0, 2)])
        sel = None
        if rnd.random() < 0.3:
            sel = []
            for _ in range(rnd.randint(0, 2)):
                a = rnd.randint(1, nl)
                sel.append([a, a + rnd.randint(0, 3)])
        cases.append({"text": t, "config": cfg, "skipped": skipped, "sel": sel})
    return cases


def cfgd(c):
    return {k: v for k, v in c["config"]}


def model_expr(c):
    # the stream is needed from the implementation; filled in by run() below via c["_classes"]
    R = coqterm.render
    d = cfgd(c)
    stream = [(k, cp) for k, cp in c["_classes"]]
    return "run_scan_flags %s %s %s %s %s %s %s %s" % (
        d["max_width"], d["tab_spaces"], d["error_on_line_overflow"], d["error_on_unformatted"],
        R([tuple(x) for x in c["skipped"]]), "true" if c["sel"] is None else "false",
        R([tuple(x) for x in (c["sel"] or [])]), R(stream))


def canon_model(c, v):
    if v is None:
        return None
    if isinstance(v, coqterm.Ctor) and v.name == "Some":
        errs, kept = v.args[0]
        return {"errors": [[l, k, f, ic, isr] for (l, k, f, ic, isr) in errs], "kept": kept}
    return "underflow"


def canon_impl(c, r):
    return {"errors": [[e[0], e[1], e[2], e[4], e[5]] for e in r["errors"]], "kept": r["kept"]}


def is_ws(ch):
    o = ord(ch)
    return (9 <= o <= 13) or o in (32, 133, 160, 5760, 8232, 8233, 8239, 8287, 12288) or (8192 <= o <= 8202)


def oracle(c, r):
    """the text of C07 on the implementation's report"""
    bad = []
    d = cfgd(c)
    mw, ts = int(d["max_width"]), int(d["tab_spaces"])
    eol, eou = d["error_on_line_overflow"] == "true", d["error_on_unformatted"] == "true"
    text = c["text"]
    kinds = [k for k, _ in r["classes"]]
    if len(kinds) != len(text):
        return [("classes_len", "CharClasses yields %d items for %d chars" % (len(kinds), len(text)))]
    # terminated lines
    lines = []
    start = 0
    for i, ch in enumerate(text):
        if ch == "\n":
            lines.append((start, i))
            start = i + 1
    rep = {}
    for (line, kind, found, mx, ic, isr) in r["errors"]:
        rep.setdefault(line, []).append((kind, found, mx))
    prev = 0
    for (line, kind, found, mx, ic, isr) in r["errors"]:
        if line < prev or line < 1 or line > len(lines):
            bad.append(("report_order", "reported line numbers not sorted / in range: %r" % r["errors"]))
        prev = line
    for n, (a, b) in enumerate(lines, 1):
        body = [(text[i], kinds[i]) for i in range(a, b) if text[i] != "\r"]
        width = sum(ts if ch == "\t" else 1 for ch, _ in body)
        ends_blank = bool(body) and is_ws(body[-1][0])
        selected = c["sel"] is None or any(lo <= n <= hi for lo, hi in c["sel"])
        skipped = any(lo <= n <= hi for lo, hi in c["skipped"])
        has_comment = any(k in (1, 2, 3, 4, 5, 6) for _, k in body) or kinds[b] in (1, 2, 3)
        has_string = any(k in (4, 5, 6, 7, 8, 9) for _, k in body)
        reported = rep.get(n, [])
        if reported and (not selected or skipped):
            bad.append(("reported_unselected", "line %d reported but skipped=%s selected=%s" % (n, skipped, selected)))
            continue
        for (kind, found, mx) in reported:
            if kind == 0 and not (width > mw and eol):
                bad.append(("overflow_spurious", "line %d reported too wide (found %d) but width is %d, max %d" % (n, found, width, mw)))
            if kind == 1 and not ends_blank:
                bad.append(("trailing_spurious", "line %d reported as ending in a blank but does not" % n))
            if kind == 0 and mx != mw:
                bad.append(("overflow_max", "reported maximum %d != max_width %d" % (mx, mw)))
            if kind == 0 and found not in (width, width - 1):
                bad.append(("overflow_width", "line %d reported %d columns wide, it is %d wide (a tab = %d columns)" % (n, found, width, ts)))
        if not selected or skipped:
            continue
        offending = (width > mw and eol) or ends_blank
        if offending and not reported:
            if eou:
                bad.append(("offending_unreported", "line %d (width %d, max %d, ends_blank %s) not reported with error_on_unformatted on" % (n, width, mw, ends_blank)))
            elif not (has_comment or has_string):
                bad.append(("offending_unreported_plain", "line %d (width %d, ends_blank %s) has no comment/string and is not reported" % (n, width, ends_blank)))
        if ends_blank and not (has_comment or has_string) and not any(k == 1 for k, _, _ in reported):
            bad.append(("trailing_unreported", "line %d ends in a blank, is plain code, and is not reported as such" % n))
    # a reported line makes the run exit with 1: operational flag (main.rs exit_code)
    if any(e[1] in (0, 1) for e in r["errors"]) and not r["flags"][0]:
        bad.append(("diagnostic_exit", "a line is reported (%r) but has_operational_errors is not set: the run would exit 0" % r["errors"][:3]))
    return bad


def nontrivial(c, r):
    return len(r.get("errors", [])) >= 1


def e2e(rep, tier, seed):
    """on real formatting runs: the report must be exactly the offending lines of the EMITTED text, with the
    skipped ranges the formatter itself recorded"""
    import hashlib
    from . import pool
    P = pool.load()
    MOD = 8
    grid = [("30", "2", "false"), ("60", "8", "true"), ("100", "4", "false")]
    cases, meta = [], []
    for p in P:
        for gi, (w, ts, ht) in enumerate(grid):
            if tier != "thorough" and int(hashlib.sha1(("%s|%d" % (p["id"], gi)).encode()).hexdigest()[:6], 16) % MOD != seed % MOD:
                continue
            over = [["max_width", w], ["tab_spaces", ts], ["hard_tabs", ht], ["error_on_line_overflow", "true"], ["error_on_unformatted", "true"]]
            cases.append({"text": p["text"], "config": pool.merged(p["header"], over), "again": False, "lex": False, "entries": True})
            meta.append((p["id"], w, ts, ht))
    long_line = "    let " + "a" * 120 + " = 1;"
    synth = {
        "synth/bad_attr_then_overflow": "#[rustfmt::bogus]\nfn f() {}\nfn main() {\n%s\n}\n" % long_line,
        "synth/overflow_then_bad_attr": "fn main() {\n%s\n}\n#[rustfmt::bogus]\nfn f() {}\n" % long_line,
        "synth/deprecated_attr_then_overflow": "#[rustfmt_skip]\nfn  f( ) {}\nfn main() {\n%s\n}\n" % long_line,
        "synth/two_overflows": "fn main() {\n%s\n%s\n}\n" % (long_line, long_line.replace("a", "b")),
        "synth/overflow_in_string_and_code": "fn main() {\n    let s = \"%s\";\n%s\n}\n" % ("x" * 120, long_line),
    }
    # which code may count as skipped is fixed by construction here: lines with SKIPPED_ belong to #[rustfmt::skip] items
    # or to macro calls copied verbatim; lines with CHECKED_ are ordinary code or macro calls that rustfmt re-indents
    ck, sk = "CHECKED_" + "c" * 120, "SKIPPED_" + "s" * 120
    synth.update({
        "synth/blocklike_failed_macro_paren": "fn main() {\n    bar!(\n        a => b c %s,\n    );\n    let %s = 1;\n}\n" % (ck, ck),
        "synth/blocklike_failed_macro_bracket": "fn main() {\n    bar![\n            a => b c %s,\n            d => e f,\n    ];\n}\n" % ck,
        "synth/verbatim_failed_macro": "fn main() {\n    bar!(a => b c %s);\n    let %s = 1;\n}\n" % (sk, ck),
        "synth/skip_attr_fn": "#[rustfmt::skip]\nfn f() {\n    let %s = 1;\n}\nfn g() {\n    let %s = 1;\n}\n" % (sk, ck),
        "synth/skip_attr_stmt": "fn g() {\n    #[rustfmt::skip]\n    let %s = 1;\n    let %s = 1;\n}\n" % (sk, ck),
        "synth/nested_failed_macro_in_item_macro": "fn main() {\n    outer! {\n        inner!(\n            a => b c %s,\n        );\n    }\n    let %s = 2;\n}\n" % (sk, ck),
    })
    for name, text in synth.items():
        for (w, ts, ht) in grid:
            cases.append({"text": text, "config": [["max_width", w], ["tab_spaces", ts], ["hard_tabs", ht], ["error_on_line_overflow", "true"], ["error_on_unformatted", "true"]], "again": False, "lex": False, "entries": True})
            meta.append((name, w, ts, ht))
    res = common.run_vh_pool("pool", cases, per_case_timeout=15)
    found = n = nerr = 0
    for (pid, w, ts, ht), c, r in zip(meta, cases, res):
        if not isinstance(r, dict) or r.get("out") is None or r.get("entries") is None or r["flags"].get("parsing"):
            continue
        out = r["out"]
        kinds = r.get("out_classes") or []
        if len(kinds) != len(out):
            continue
        n += 1
        errs = [[e[0], e[1], e[2], e[3], False, False] for e in r["entries"] if e[1] in (0, 1)]
        nerr += len(errs)
        if pid.startswith("synth/"):
            olines = out.split("\n")
            for lo, hi in r["skipped"]:
                hit = [k for k in range(lo, hi + 1) if 1 <= k <= len(olines) and "CHECKED_" in olines[k - 1]]
                if hit:
                    if rep.violation("e2e_skipped_range_covers_formatted_code:%s" % pid, {"pool_id": pid, "config": c["config"], "input": c["text"], "out": out, "skipped": r["skipped"], "lines": hit},
                                     "the formatter recorded lines %r of %s as skipped, but they are not skipped code (no skip attribute, not a verbatim copy): their width is never checked" % (hit, pid)):
                        found += 1
        pseudo_case = {"text": out, "config": c["config"], "skipped": [list(x) for x in r["skipped"]], "sel": None}
        pseudo_res = {"classes": [[k, ord(ch)] for k, ch in zip(kinds, out)], "errors": errs,
                      "flags": [r["flags"]["operational"], False, False, False, False, False, False]}
        for key, what in oracle(pseudo_case, pseudo_res):
            if rep.violation("e2e_%s:%s" % (key, pid), {"pool_id": pid, "config": c["config"], "input": c["text"], "out": out, "entries": r["entries"], "skipped": r["skipped"]},
                             "%s [emitted text of %s, max_width %s tab_spaces %s hard_tabs %s]" % (what, pid, w, ts, ht)):
                found += 1
            break
    rep.coverage["e2e_runs_judged"] = n
    rep.coverage["e2e_diagnostics_seen"] = nerr
    rep.coverage["e2e_rule"] = "pool programs x (max_width, tab_spaces, hard_tabs) in %s with both error options on (thorough: all; quick: the 1/%d slice selected by the seed): the LineOverflow / TrailingWhitespace entries of the real report must be exactly the offending lines of the emitted text outside the ranges the formatter recorded as not formatted" % (grid, MOD)
    return found


def skip_range_stream(rep, tier, seed):
    """correspondence of the range recorded for a skip-marked item (coq/C07/Model.v range_recorded) with the formatter's own
    skipped ranges: generated files whose code before each skip-marked item grows, shrinks or keeps its number of lines"""
    import random
    rnd = random.Random("c07-skiprange-%d" % seed)
    cases, metas = [], []
    blk_of = {}
    for ci in range(60 if tier != "thorough" else 800):
        lines, sites = [], []
        for bi in range(rnd.randint(2, 5)):
            k = rnd.random()
            tag = "%d_%d" % (ci, bi)
            if k < 0.45:
                shape = rnd.choice(["plain", "same_line", "two_attrs", "blank_between"])
                start = len(lines) + 1
                if shape == "plain":
                    blk = ["#[rustfmt::skip]", "const SKIP_%s: u8 =" % tag, "    1   +  2;"]
                    site = (start, start, start, 2)          # for an item the "main" span starts at its first attribute
                elif shape == "same_line":
                    blk = ["#[rustfmt::skip] const SKIP_%s: u8 =" % tag, "    1   +  2;"]
                    site = (start, start, start, 1)
                elif shape == "two_attrs":
                    blk = ["#[allow(unused)]", "#[rustfmt::skip]", "const SKIP_%s: u8 =" % tag, "    1   +  2;"]
                    site = (start, start + 1, start, 3)
                else:
                    blk = ["#[rustfmt::skip]", "", "const SKIP_%s: u8 =" % tag, "    1   +  2;"]
                    site = (start, start, start, 3)
                lines += blk
                blk_of["SKIP_%s" % tag] = blk
                sites.append((site, "SKIP_%s" % tag, blk[0]))
            elif k < 0.8:
                lines += rnd.choice([["fn   grow_%s( ) { a(); b(); }"], ["fn shrink_%s(", "    a: u8,", "    b: u8,", ") {", "}"], ["", "", "", "fn gap_%s() {}"], ["fn keep_%s() {}"]])
                lines[-1] = lines[-1].replace("%s", tag)
                lines = [l.replace("%s", tag) for l in lines]
            else:
                lines.append("fn plain_%s() {}" % tag)
        cases.append({"text": "\n".join(lines) + "\n", "config": [], "again": False, "lex": False, "entries": True})
        metas.append(sites)
    res = common.run_vh_pool("pool", cases, per_case_timeout=15)
    exprs, expect = [], []
    for c, sites, r in zip(cases, metas, res):
        if not isinstance(r, dict) or r.get("out") is None or r.get("skipped") is None:
            continue
        olines = r["out"].split("\n")
        got = sorted(tuple(x) for x in r["skipped"])
        want_sites = []
        ok = True
        for (a, b, f, nl), name, first in sites:
            # the output line on which the item (its first attribute) starts
            cand = [i + 1 for i, l in enumerate(olines) if name in l]
            if len(cand) != 1:
                ok = False
                break
            out_start = cand[0] - [i for i, l in enumerate(blk_of[name]) if name in l][0]
            want_sites.append((a, b, f, nl, out_start - 1))
        if not ok:
            continue
        exprs.append("[%s]" % "; ".join("run_skip_range %d %d %d %d %d" % t for t in want_sites))
        expect.append((c, got, want_sites, r["out"]))
    found = 0
    # skip-marked code formatted by a NESTED visitor (impl / trait items, closure bodies): its lines must not be reported either
    W = "w" * 90
    nested = {
        "impl_method": "fn a() {}\nfn b() {}\nimpl X {\n    fn m() {}\n    #[rustfmt::skip]\n    fn skipped() {\n        let x = SKIPPED_%s;\n    }\n}\n" % W,
        "trait_method": "fn a() {}\ntrait T {\n    fn m() {}\n    #[rustfmt::skip]\n    fn skipped() {\n        let x = SKIPPED_%s;\n    }\n}\n" % W,
        "closure_statement": "fn a() {}\nfn b() {\n    let f = || {\n        first();\n        #[rustfmt::skip]\n        let x = SKIPPED_%s;\n        last()\n    };\n}\n" % W,
        "function_statement": "fn a() {}\nfn b() {\n    first();\n    #[rustfmt::skip]\n    let x = SKIPPED_%s;\n    last()\n}\n" % W,
    }
    ncases = [{"text": t, "config": [["max_width", "60"], ["error_on_line_overflow", "true"]], "again": False, "lex": False, "entries": True} for t in nested.values()]
    for (name, text), r in zip(nested.items(), common.run_vh_pool("pool", ncases, per_case_timeout=15)):
        if not isinstance(r, dict) or r.get("out") is None or r.get("entries") is None:
            continue
        olines = r["out"].split("\n")
        hit = [e[0] for e in r["entries"] if e[1] in (0, 1) and 1 <= e[0] <= len(olines) and "SKIPPED_" in olines[e[0] - 1]]
        if hit:
            if rep.violation("skipped_code_reported:nested_%s" % name, {"input": text, "out": r["out"], "entries": r["entries"], "skipped": r.get("skipped")},
                             "a line of skip-marked code (%s) is reported: line(s) %r" % (name, hit)):
                found += 1
    # skip-marked STATEMENTS with several attributes, the last one spanning several lines: the lines of the attributes above the
    # statement are emitted verbatim but are NOT skip-marked code (the recorded range starts where the last attribute ends), so a
    # wide or blank-ended line among them is reported; the statement's own lines are not
    WA = "a" * 70
    for si, (stmt_kind, stmt) in enumerate([("let", ["let  x  =  [1,2,", "        %s];" % ("s" * 70)]), ("expr", ["call_it( 1,2,", "        %s );" % ("s" * 70)]),
                                              ("macro", ["mac!( 1,2,", "        %s );" % ("s" * 70)])]):
        for ai, attrs in enumerate([["#[cfg(any(", "    feature = %s," % WA, "    unix   ", "))]"],
                                    ["#[allow(unused)]", "#[cfg(any(", "    feature = %s," % WA, "    unix   ", "))]"],
                                    ["#[cfg(any(", "    feature = %s," % WA, "))]", "#[allow(", "    unused   ", ")]"]]):
            for _once in (0,):
                al = ["#[rustfmt::skip]"] + attrs
                body = ["fn outer() {", "    first();"] + ["    " + l for l in al] + ["    " + l for l in stmt] + ["    last();", "}"]
                text = "\n".join(body) + "\n"
                c = {"text": text, "config": [["max_width", "60"], ["error_on_line_overflow", "true"]], "again": False, "lex": False, "entries": True}
                r = common.run_vh_pool("pool", [c], per_case_timeout=15)[0]
                if not isinstance(r, dict) or r.get("out") is None or r.get("entries") is None or r["out"] != text:
                    continue
                last_attr_end = 2 + len(al)                    # 1-based line of the last line of the last attribute
                reported = set(e[0] for e in r["entries"] if e[1] in (0, 1))
                must = [i + 1 for i, l in enumerate(body) if 2 < i + 1 < last_attr_end and (len(l) > 60 or l != l.rstrip())]
                mustnot = [i + 1 for i, l in enumerate(body) if last_attr_end < i + 1 <= last_attr_end + len(stmt)]
                miss = [l for l in must if l not in reported]
                extra = [l for l in mustnot if l in reported]
                if miss or extra:
                    if rep.violation("skipped_stmt_attr_lines:%s.%d" % (stmt_kind, ai), {"input": text, "entries": r["entries"], "skipped": r.get("skipped"), "not_reported": miss, "reported_inside": extra},
                                     "a skip-marked %s statement under a multi-line attribute: offending attribute lines %r are not reported / statement lines %r are reported" % (stmt_kind, miss, extra)):
                        found += 1
    if exprs:
        vals = common.run_coq_cases("From V Require Import Base.Text C07.Model C07.Run.\nOpen Scope N_scope.", "", exprs, "c07skip", per_file=200)
        bad = 0
        for (c, got, sites, out), v in zip(expect, vals):
            model = sorted((int(lo), int(hi)) for (okb, lo, hi) in v)
            if any(not okb for (okb, lo, hi) in v):
                continue
            if model != got:
                bad += 1
                if rep.violation("skipped_range_not_the_items_lines", {"input": c["text"], "out": out, "recorded_by_rustfmt": got, "lines_of_the_skipped_items": model, "sites": sites},
                                 "the ranges rustfmt recorded as skipped %r are not the output lines of the skip-marked items %r (model range_recorded)" % (got, model)):
                    found += 1
        rep.coverage["skip_range_cases"] = len(exprs)
        rep.coverage["skip_range_disagreements"] = bad
    return found


def crate_stream(rep, tier, seed):
    """several files formatted in ONE run of the real binary: skipped items and over-wide lines at known places in every file;
    the diagnostics on stderr (file and 1-based line of the emitted text) must be exactly the over-wide lines that are not
    inside a skip-marked item, file by file -- whatever stands before them and whatever the other files contain"""
    import os
    import random
    import re
    import shutil
    ok, blog, _ = common.build_bins()
    if not ok:
        raise RuntimeError("build of /repo binaries failed:\n" + blog)
    env = common.rust_env()
    env.pop("CARGO_TARGET_DIR", None)
    rnd = random.Random("c07-crate-%d" % seed)
    base = os.path.join(common.CACHE, "c07crate")
    found = n = 0
    W = 60
    wide = lambda tag: "    let %s = %s;" % (tag, "w" * 70)          # no string literal: those lines are only reported under error_on_unformatted
    for ti in range(16 if tier != "thorough" else 160):
        shutil.rmtree(base, ignore_errors=True)
        os.makedirs(base)
        names = ["aaa", "mmm", "zzz"][:rnd.randint(1, 3)]
        files = {"main.rs": "".join("mod %s;\n" % x for x in names)}
        for x in names:
            files[x + ".rs"] = ""
        for fname in files:
            parts = [files[fname]]
            for bi in range(rnd.randint(2, 5)):
                k = rnd.random()
                tag = "%s_%d" % (fname[:-3], bi)
                if k < 0.3:
                    # a skip-marked item holding an over-wide line (never reported) ...
                    parts.append("#[rustfmt::skip]\nconst SKIP_%s: u8 =\n    %s;\n" % (tag.upper(), "s" * 75))
                elif k < 0.55:
                    # ... code whose formatting changes the number of lines before whatever follows
                    parts.append(rnd.choice(["fn   grow_%s( ) { a(); b(); }\n", "fn shrink_%s(\n    a: u8,\n    b: u8,\n) {\n}\n", "\n\n\nfn gap_%s() {}\n"]) % tag)
                elif k < 0.85:
                    # ... a function with an unavoidably over-wide line (always reported)
                    parts.append("fn wide_%s() {\n%s\n}\n" % (tag, wide("CHECKED_" + tag)))
                else:
                    parts.append("fn plain_%s() {}\n" % tag)
            files[fname] = "".join(parts)
        for fname, text in files.items():
            open(os.path.join(base, fname), "w").write(text)
        rc, o, e = common.sh([common.bin_path("rustfmt"), "--edition", "2021", "--color", "never", "--config", "max_width=%d,error_on_line_overflow=true" % W, "main.rs"], cwd=base, env=env, timeout=60)
        n += 1
        got = set()
        e = re.sub(r"\x1b\[[0-9;]*m", "", e)
        for m in re.finditer(r"--> (\S+?):(\d+):", e):
            got.add((os.path.basename(m.group(1)), int(m.group(2))))
        want = set()
        for fname in files:
            lines = open(os.path.join(base, fname)).read().split("\n")
            skip_until = -1
            for i, ln in enumerate(lines, 1):
                if ln.strip() == "#[rustfmt::skip]":
                    skip_until = i + 2                      # the attribute line and the two lines of the const
                if len(ln) > W and i > skip_until:
                    want.add((fname, i))
        if got != want or (want and rc != 1):
            after = {f: open(os.path.join(base, f)).read() for f in files}
            if rep.violation("crate_diagnostics", {"files": files, "after": after, "reported": sorted(got), "expected": sorted(want), "rc": rc, "stderr": e[-1500:]},
                             "one run over %d files: reported %r, but the over-wide lines of the emitted texts outside skip-marked items are %r (exit %d)" % (len(files), sorted(got), sorted(want), rc)):
                found += 1
    shutil.rmtree(base, ignore_errors=True)
    rep.coverage["crate_runs"] = n
    rep.coverage["crate_rule"] = "crates of 2..4 files (skip-marked constants holding an over-wide line, functions with an unavoidably over-wide line, code that grows / shrinks when formatted, in random order in every file) formatted in one run of the real binary with error_on_line_overflow: the (file, line) pairs of the diagnostics must be exactly the over-wide lines of the emitted files outside the skip-marked items, and the exit status 1 iff there is one"
    return found


def run(tier, seed, replay):
    # the model needs the implementation's CharClasses stream: run the harness once to fetch it
    def gen(tier_, seed_):
        cases = gen_cases(tier_, seed_)
        ok, blog, _ = common.build_harness()
        if not ok:
            raise RuntimeError("harness build failed:\n" + blog)
        res = common.run_vh("c07", cases)
        for c, r in zip(cases, res):
            c["_classes"] = r.get("classes", [])
        return cases

    def canon_case(c):
        return c

    return common.standard_run(
        PROP, tier, seed, replay,
        dirs=["C07"], props_file="C07/Props.v", trusted=TRUSTED, gen_cases=gen, vh_sub="c07",
        imports="From V Require Import Base.Text C07.Model C07.Run.\nOpen Scope N_scope.",
        model_expr=model_expr, canon_model=canon_model, canon_impl=canon_impl, oracle=oracle,
        nontrivial=nontrivial,
        extra=lambda rep, tier, seed: (e2e(rep, tier, seed) or 0) + crate_stream(rep, tier, seed) + skip_range_stream(rep, tier, seed),
        rule="seeded random texts of 1..8 lines built from code / long runs / tabs / trailing blanks (space, tab, U+00A0, U+3000) / line and block comments / strings spanning lines / CRLF, with 0..3 trailing newlines; max_width in {20,25,30,40,60,100}, tab_spaces 1..8, both error options on/off, random skipped ranges and line selections; non-trivial = at least one diagnostic; distinct by hash",
        per_file=100,
        ties=["C07"] + (["C07nl"] if tier == "thorough" else []),
    )
