"""C09 — released style editions are frozen."""
import hashlib
import json
import os
import re

from . import common, pool
from .common import log

PROP = "C09"
TRUSTED = [
    "Coq 8.16.1 kernel; coq/Gen/C09/Gates.v is REGENERATED from /repo/src on every run by the translator in checks/c09.py (lexer-based scan for every `StyleEdition::EditionNNNN` literal in the formatting code, the enum's variant order, the option-default table and the body of the style_edition_default! macro) and its theorems re-checked: Closed under the global context",
    "the translator itself (checks/c09.py) and the harness lexer (rustc_lexer) it uses; declaration order = PartialOrd is validated on all 25 pairs through the public API in the harness",
    "byte-identity with the pinned release relates two programs and is not a theorem: it is a differential run against a frozen reference build of the pinned sources (/verif/frozen, built once into .cache/target-frozen) on the pool grid",
]
SCAN_EXCLUDE = ("src/config/", "src/test/", "src/bin/", "src/verif_hooks.rs", "src/cargo-fmt/", "src/format-diff/", "src/git-rustfmt/")
OPS = {">=": "Ge", "<=": "Le", ">": "Gt", "<": "Lt", "==": "EqOp", "!=": "NeOp"}


def src_files():
    out = []
    for root, _, files in os.walk(os.path.join(common.REPO, "src")):
        for f in files:
            if f.endswith(".rs"):
                rel = os.path.relpath(os.path.join(root, f), common.REPO)
                if not any(rel.startswith(x) or rel == x for x in SCAN_EXCLUDE):
                    out.append(rel)
    return sorted(out)


def scan_gates():
    """every occurrence of a StyleEdition::EditionN literal in formatting code, classified"""
    files = src_files()
    texts = [open(os.path.join(common.REPO, f)).read() for f in files]
    lexed = common.run_vh("lex", [{"text": t} for t in texts])
    gates, unclassified = [], []
    for f, toks in zip(files, lexed):
        sig = []
        line = 1
        for k, t in toks:
            if k not in ("ws", "lc", "bc", "dlo", "dli", "dbo", "dbi"):
                sig.append((t, line))
            line += t.count("\n")
        # drop everything from `#[cfg(test)]` on (unit tests at the end of the file)
        cut = len(sig)
        for i in range(len(sig) - 6):
            if [x[0] for x in sig[i:i + 7]] == ["#", "[", "cfg", "(", "test", ")", "]"]:
                cut = i
                break
        sig = sig[:cut]
        for i in range(len(sig) - 3):
            if sig[i][0] == "StyleEdition" and sig[i + 1][0] == ":" and sig[i + 2][0] == ":" and re.match(r"^Edition\d{4}$", sig[i + 3][0]):
                year = int(sig[i + 3][0][7:])
                ln = sig[i][1]
                b1 = sig[i - 1][0] if i >= 1 else ""
                b2 = sig[i - 2][0] if i >= 2 else ""
                opx = None
                if b1 == "=" and b2 in (">", "<", "=", "!"):
                    opx = b2 + "="
                elif b1 in (">", "<") and b2 not in ("-", "="):
                    opx = b1
                if opx is None:
                    unclassified.append((f, ln, " ".join(x[0] for x in sig[max(0, i - 4):i + 5])))
                else:
                    gates.append((f, ln, OPS[opx], year))
    return gates, unclassified


def scan_enum():
    src = open(os.path.join(common.REPO, "src/config/options.rs")).read()
    m = re.search(r"pub enum StyleEdition \{(.*?)\n\}", src, re.S)
    years = [int(y) for y in re.findall(r"^\s*Edition(\d{4}),", m.group(1), re.M)] if m else []
    return years


def scan_defaults():
    src = open(os.path.join(common.REPO, "src/config/options.rs")).read()
    i = src.find("config_option_with_style_edition_default!(\n    //")
    if i < 0:
        i = src.rfind("config_option_with_style_edition_default!(")
    j = src.find("\n);", i)
    body = src[i:j]
    body = re.sub(r"//[^\n]*", "", body)
    body = body[body.index("(") + 1:]
    entries = []
    for ent in body.split(";"):
        ent = " ".join(ent.split())
        if not ent:
            continue
        m = re.match(r"^(\w+), (.+?), (?:Edition2024 => (.+?), )?_ => (.+)$", ent)
        if not m:
            entries.append((ent, None, None, False))
            continue
        entries.append((m.group(1), m.group(3), m.group(4), True))
    # the macro that turns `Edition2024 => a, _ => b` into a match: the released editions must share one arm
    mac = open(os.path.join(common.REPO, "src/config/style_edition.rs")).read()
    mac_ok = re.search(r"StyleEdition::Edition2015\s*\|\s*\$crate::config::StyleEdition::Edition2018\s*\|\s*\$crate::config::StyleEdition::Edition2021\s*=>\s*\$default_2015", mac) is not None
    mac_ok = mac_ok and re.search(r"\(\$ty:ident, \$config_ty:ty, _ => \$default:expr\)", mac) is not None
    return entries, mac_ok


def q(s):
    return '"' + s.replace('"', "'") + '"'


def gen_gates(order_table):
    gates, unclassified = scan_gates()
    years = scan_enum()
    entries, mac_ok = scan_defaults()
    d = os.path.join(common.COQ, "Gen", "C09")
    os.makedirs(d, exist_ok=True)
    L = ["(* Gen/C09/Gates.v — REGENERATED on every run by checks/c09.py from /repo/src *)",
         "From V Require Import C09.Model.", "Open Scope string_scope.", "Open Scope N_scope.", ""]
    L.append("(* the variants of `enum StyleEdition`, in declaration order *)")
    L.append("Definition editions : list se := [%s]." % "; ".join("MkSe %d %d" % (i, y) for i, y in enumerate(years)))
    L.append("Definition se_of_year (y : N) : se := match find (fun e => N.eqb (se_year e) y) editions with Some e => e | None => MkSe 99 y end.")
    L.append("Definition released_old : list se := [se_of_year 2015; se_of_year 2018; se_of_year 2021].")
    L.append("")
    L.append("(* every comparison against a StyleEdition literal in the formatting code *)")
    L.append("Definition gates : list gate := [\n%s\n]." % ";\n".join("  MkGate %s %d %s (se_of_year %d)" % (q(f), ln, o, y) for f, ln, o, y in gates))
    L.append("(* occurrences of a StyleEdition literal that are not the right operand of a comparison *)")
    L.append("Definition unclassified : list (string * N * string) := [%s]." % "; ".join("(%s, %d, %s)" % (q(f), ln, q(c)) for f, ln, c in unclassified))
    L.append("(* the option-default table (config_option_with_style_edition_default!) *)")
    L.append("Definition defaults : list (string * dflt) := [\n%s\n]." % ";\n".join(
        "  (%s, %s)" % (q(n), ("From2024 %s %s" % (q(a), q(b))) if a is not None else "Same %s" % q(b)) for n, a, b, ok in entries if ok))
    L.append("Definition unparsed_defaults : list string := [%s]." % "; ".join(q(n) for n, a, b, ok in entries if not ok))
    L.append("Definition macro_shares_old_arm : bool := %s." % ("true" if mac_ok else "false"))
    L.append("(* PartialOrd as observed through the public API on all pairs (row-major, `a <= b`) *)")
    L.append("Definition observed_le : list (N * N * bool) := [%s]." % "; ".join("(%d, %d, %s)" % (a, b, "true" if v else "false") for a, b, v in order_table))
    L.append("")
    L.append("(* C09: the order is total with 2015 < 2018 < 2021 < 2024 < 2027 and is the one the code implements *)")
    L.append("Theorem order_total : map se_year editions = [2015; 2018; 2021; 2024; 2027] /\\ forallb (fun t => let '(a, b, v) := t in Bool.eqb (se_leb (se_of_year a) (se_of_year b)) v) observed_le = true /\\ List.length observed_le = 25%nat.")
    L.append("Proof. vm_compute. repeat split; reflexivity. Qed.")
    L.append("Print Assumptions order_total.")
    L.append("(* every gate evaluates identically for the style editions 2015, 2018 and 2021 *)")
    L.append("Theorem gates_old_equal : forallb (gate_const_on released_old) gates = true.")
    L.append("Proof. vm_compute. reflexivity. Qed.")
    L.append("Print Assumptions gates_old_equal.")
    L.append("(* no formatting code mentions a style edition other than through such a comparison *)")
    L.append("Theorem no_unclassified : unclassified = [].")
    L.append("Proof. reflexivity. Qed.")
    L.append("Print Assumptions no_unclassified.")
    L.append("(* every option default is the same for 2015, 2018 and 2021 *)")
    L.append("Theorem defaults_old_equal : macro_shares_old_arm = true /\\ unparsed_defaults = [] /\\ forallb (fun d => String.eqb (default_for (snd d) (se_of_year 2015)) (default_for (snd d) (se_of_year 2018)) && String.eqb (default_for (snd d) (se_of_year 2018)) (default_for (snd d) (se_of_year 2021))) defaults = true.")
    L.append("Proof. vm_compute. repeat split; reflexivity. Qed.")
    L.append("Print Assumptions defaults_old_equal.")
    L.append("(* non-vacuity: there are gates and defaults, and some gate does distinguish 2021 from 2024 *)")
    L.append("Theorem gates_nontrivial : (10 <= List.length gates)%nat /\\ (50 <= List.length defaults)%nat /\\ existsb (fun g => negb (gate_const_on [se_of_year 2021; se_of_year 2024] g)) gates = true.")
    L.append("Proof. vm_compute. repeat split; try reflexivity; repeat constructor. Qed.")
    L.append("Print Assumptions gates_nontrivial.")
    new = "\n".join(L) + "\n"
    p = os.path.join(d, "Gates.v")
    old = open(p).read() if os.path.exists(p) else ""
    if new != old:
        open(p, "w").write(new)
    return gates, unclassified, entries, mac_ok, years


GRID_W = ["40", "80", "100", "160"]
PRESETS = {"base": [], "compact": [["use_small_heuristics", "Max"], ["fn_params_layout", "Compressed"]],
           "imports": [["imports_granularity", "Crate"], ["group_imports", "StdExternalCrate"]],
           "comments": [["wrap_comments", "true"], ["normalize_comments", "true"]]}
EDITIONS = ["2015", "2018", "2021", "2024"]


CYR = dict(zip("abcdefghijklmnopqrstuvwxyzABCDEFGHIJKLMNOPQRSTUVWXYZ", "абцдефгхийклмнопярстувшхызАБЦДЕФГХИЙКЛМНОПЯРСТУВШХЫЗ"))
WIDE = {c: chr(0xFF21 + ord(c) - 65) if c.isupper() else chr(0xFF41 + ord(c) - 97) for c in CYR}


def respell(text, mode):
    """the same program with the letters of its string literals and comments re-spelled in non-ASCII letters
    (cyr: 2 bytes, 1 column; wide: 3 bytes, 2 columns); `// rustfmt-` header lines, escapes and `extern "C"` stay"""
    tab = CYR if mode == "cyr" else WIDE
    out = []
    i, n = 0, len(text)
    state = None            # None | "lc" | "bc" | "str"
    while i < n:
        c = text[i]
        if state is None:
            if text.startswith("//", i):
                state = "lc"
                if text.startswith("// rustfmt-", i):
                    j = text.find("\n", i)
                    j = n if j < 0 else j
                    out.append(text[i:j])
                    i = j
                    state = None
                    continue
            elif text.startswith("/*", i):
                state = "bc"
            elif c == '"':
                if re.search(r"extern\s*$", text[max(0, i - 10):i]):
                    j = text.find('"', i + 1)
                    j = n if j < 0 else j + 1
                    out.append(text[i:j])
                    i = j
                    continue
                state = "str"
            elif c == "'":
                # char literal or lifetime: copy up to 4 chars verbatim
                m = re.match(r"'(\\.|[^\\'])'", text[i:i + 4])
                if m:
                    out.append(m.group(0))
                    i += len(m.group(0))
                    continue
            out.append(c)
            i += 1
            continue
        if state == "lc":
            if c == "\n":
                state = None
            out.append(tab.get(c, c))
        elif state == "bc":
            if text.startswith("*/", i):
                out.append("*/")
                i += 2
                state = None
                continue
            out.append(tab.get(c, c))
        else:
            if c == "\\" and i + 1 < n:
                out.append(text[i:i + 2])
                i += 2
                continue
            if c == '"':
                state = None
                out.append(c)
            elif c in "{}":
                out.append(c)
            else:
                out.append(tab.get(c, c))
        i += 1
    return "".join(out)


UNI_FORMS = [
    'fn f() {\n    match day {\n        "monday_day" | "tuesday_day" | "wednesday_day" | "thursday_day" | "friday_the_day" | "saturday_the_day" => 1,\n        _ => 0,\n    }\n}\n',
    'fn f() {\n    let message = format!("the quick brown fox {} jumps over the lazy dog {}", first_argument, second_argument);\n}\n',
    'fn f() {\n    let names = ["alpha_name", "beta_name", "gamma_name", "delta_name", "epsilon_name", "zeta_name", "eta_name", "theta_name"];\n}\n',
    'fn f() {\n    let v = Config { name: "some configuration name", description: "a rather long description text", short: "s" };\n}\n',
    'fn f() {\n    call_function("first string argument", "second string argument", "third one").method("chained argument").other("x");\n}\n',
    'fn f() {\n    let total = "first operand of the sum" + "second operand of the sum" + "third operand" + "fourth";\n}\n',
    'fn f() {\n    let x = 1; // a trailing comment that is fairly long and may need to move or wrap somewhere\n    let y = 2; /* block */\n}\n',
    '#[doc = "an attribute with a long documentation string inside of it that goes on"]\n#[cfg(feature = "some_feature_name")]\nfn f() {}\n',
    'const GREETING: &str = "a constant string that is close to the margin of the page";\nstatic OTHER: &[&str] = &["one", "two", "three", "four", "five", "six", "seven"];\n',
    'fn f() {\n    if let Some("pattern string one") | Some("pattern string two") | Some("pattern three") = value { body(); }\n}\n',
    'fn f() {\n    assert_eq!(compute("input text number one"), "expected output text number one", "message {}", detail);\n}\n',
    'fn f() {\n    let closure = |argument| println!("closure body with a long text inside {}", argument);\n    foo(|x| "short")\n}\n',
    'enum E {\n    A = "x".len() as isize, // comment on the variant that is long enough to matter here\n    B, /* another */\n}\n',
    'fn f() -> &\'static str {\n    match kind { Kind::First => "first kind of result text", Kind::Second => "second kind", _ => "other" }\n}\n',
]

# forms only the differential needs (against the frozen build any input is fair): constructs whose layout has edition-specific or
# width-exact rules -- chains through tuple fields / ? / await / indexing, macro calls holding one-line lists, long operands
EXTRA_FORMS = [
    # patterns with an element that cannot be rewritten in the available width (the rest of the statement must still be formatted)
    "match value { [\"a_string_literal_pattern_that_is_much_longer_than_any_narrow_line_could_ever_hold_on_its_own\", second ,  third] => { first_call( ) ; } _ => { } }",
    "match value { (\"a_string_literal_pattern_that_is_much_longer_than_any_narrow_line_could_ever_hold_on_its_own\", [a ,b]) | (_, [ .. ]) => run( a,b ), _ => stop( ) }",
    "let [first_binding ,\"a_string_literal_pattern_that_is_much_longer_than_any_narrow_line_could_ever_hold_on_its_own\", .. ] = slice_value else { return  ; };",
    "let x = some_long_receiver_name.method_call_number_one(argument_one).another_method_call(argument_two).0.1.yet_another_method_call(argument_three);",
    "let y = some_long_receiver_name.method_call_number_one(argument_one).field.0.1.2.yet_another_method_call(argument_three).await?.last_field;",
    "let z = short.0.1.call(); let w = tuple_of_tuples.0 .1 .2; let v = a.0.0.0.0;",
    "let e = receiver[index_one][index_two].method(argument)?.other_method()?.third_method_in_the_chain(with_an_argument)[0];",
    "foo!([alpha_value, beta_value, gamma_value, delta_value, epsilon_value, zeta_value, eta_value, theta_value]);",
    "bar!((first_item, second_item, third_item, fourth_item, fifth_item, sixth_item, seventh_item_of_the_tuple));",
    "baz!{ key_one: value_one, key_two: value_two, key_three: value_three, key_four: value_four_is_longer }",
    "vec![first_element_of_vec, second_element_of_vec, third_element_of_vec, fourth_element_of_vec, fifth_one];",
    "println!(\"{} {} {}\", first_argument_to_print, second_argument_to_print, third_argument_to_print_here);",
    "assert!(some_condition_function(argument_one, argument_two) && another_condition(argument_three), \"message\");",
    "let sum = first_operand_of_sum + second_operand_of_sum * third_operand_of_product - fourth_operand / fifth_operand_value;",
    "let cond = first_condition_holds && second_condition_holds || third_condition_holds && !fourth_condition_holds_too;",
    "let closure_in_call = some_function_name(first_argument, |closure_parameter| closure_parameter.method().other(), third);",
    "let st = StructName { field_one: value_one, field_two: value_two, field_three: nested(call), ..Default::default() };",
    "let arr = [[1, 2, 3], [4, 5, 6], [7, 8, 9], [10, 11, 12], [13, 14, 15], [16, 17, 18], [19, 20, 21], [22, 23, 24]];",
    "match scrutinee_value { Pattern::One(inner) | Pattern::Two(inner) | Pattern::Three(inner) if guard(inner) => body(inner), _ => other() }",
    "if let Some(Wrapper { inner_field_name, other_field_name }) = optional_wrapper_value_expression { use_fields(inner_field_name) }",
    "let typed: HashMap<LongKeyTypeName, Vec<Box<dyn Fn(ArgumentType) -> ResultType + Send + Sync>>> = HashMap::new();",
    "return Err(ErrorKind::SomethingWentWrong { context: context_value, source: Box::new(underlying_error_value) }.into());",
    "let s = \"a string literal that is rather long and sits close to the margin of the line\".to_owned() + other;",
    "for (index_variable, element_variable) in collection_expression.iter().enumerate().filter(|pair| keep(pair)) { body(); }",
    "let r = unsafe { dangerous_function_call(pointer_argument_one, pointer_argument_two, length_argument_value) };",
    "let t = (first_tuple_element_value, second_tuple_element_value, third_tuple_element_value, fourth_tuple_value);",
    "x = if first_condition { value_when_first } else if second_condition { value_when_second } else { value_otherwise };",
    "let g = generic_function::<FirstTypeArgument, SecondTypeArgument, ThirdTypeArgument>(argument_one, argument_two);",
    # many SHORT elements: lists longer than the small-heuristics widths that still fit on one line at some exact width
    "foo!([a, b, c, d, e, f, g, h, i, j, k, l, m, n, o, p, q, r, s, t, u, v, w, x, y, z, aa, bb, cc]);",
    "foo!((a, b, c, d, e, f, g, h, i, j, k, l, m, n, o, p, q, r, s, t, u, v, w, x, y, z, aa, bb, cc, dd));",
    "foo!{a, b, c, d, e, f, g, h, i, j, k, l, m, n, o, p, q, r, s, t, u, v, w, x, y, z, aa, bb, cc, dd, ee}",
    "let arr = [a, b, c, d, e, f, g, h, i, j, k, l, m, n, o, p, q, r, s, t, u, v, w, x, y, z, aa, bb, cc, dd];",
    "call(a, b, c, d, e, f, g, h, i, j, k, l, m, n, o, p, q, r, s, t, u, v, w, x, y, z, aa, bb, cc, dd, ee, ff);",
    "outer!(inner!([a, b, c, d, e, f, g, h, i, j, k, l, m, n, o, p, q, r, s, t, u, v, w, x, y, z]), tail);",
    "let t = (a, b, c, d, e, f, g, h, i, j, k, l, m, n, o, p, q, r, s, t, u, v, w, x, y, z, aa, bb, cc, dd, ee);",
]
EXTRA_ITEMS = [
    # several renames of one crate / several declarations whose names differ only where byte order and version order disagree
    "extern crate serde as serde9; extern crate serde as serde10; extern crate serde as serde_2; extern crate serde as serdeX; extern crate serde as Serde1;",
    "extern crate b10; extern crate b9; extern crate b_2; extern crate bX; extern crate a as z10; extern crate a as z9;",
    "mod m10; mod m9; mod m_2; mod mX; mod M1;",
    "use a::{x10, x9, x_2, xX, X1}; use b10::c; use b9::c; use b_2::c; use bX::c;",
    "fn long_signature<T: FirstBound + SecondBound, U>(first_parameter: FirstType<T>, second_parameter: &mut U) -> ReturnType<T, U> where U: ThirdBound { body() }",
    "impl<T: FirstBound + SecondBound + ThirdBound + FourthBound + FifthBound> SomeTraitName<T> for SomeTypeName<T> where T: Sized {}",
    "pub struct Record { pub first_field: FirstFieldType, pub(crate) second_field: SecondFieldType<Generic>, third: Option<Box<Third>> }",
    "pub enum Choice { FirstVariant(FirstPayloadType, SecondPayloadType), SecondVariant { named_field: NamedFieldType }, Third = 3 }",
    "use some_crate::{first_module::{FirstItem, SecondItem}, second_module::ThirdItem, third_module::{self, FourthItem as Renamed}};",
    "const LOOKUP_TABLE: [(u32, &str); 4] = [(1, \"one\"), (2, \"two\"), (3, \"three\"), (4, \"four_is_longer_than_the_rest\")];",
    "type Callback<'a, T> = Box<dyn for<'b> Fn(&'b T, &'a mut Context) -> Result<Outcome<T>, CallbackError> + Send + 'a>;",
    "macro_rules! helper { ($first:expr, $($rest:expr),*) => { combine($first, helper!($($rest),*)) }; ($only:expr) => { $only }; }",
]

SEL_SNIPPETS = [
    "use foo::{a, x86_128, x86_64, B, CONST};\nuse bar::{self, Z, b9, b10};\n",
    "fn main() {\n    let x = vec![  1,2 ];\n    let Some(value) = some_function_with_a_long_name(argument_number_one) else { return; };\n}\n",
    "impl<T> Trait for Type<T> where T: Bound1 + Bound2 + Bound3 + Bound4 + Bound5 + Bound6 + Bound7 + Bound8 + Bound99 {}\n",
    "fn f() {\n    let s = match x { A => { // c\n 1 } B => veryyyyyyyyyyyyyyyyyyyyyyyyyyyyyyyyyyyyyyyyyyyyyyyyyyyyyyyyyyyyyyyyyyyyyyyyyyyyyyyyyyyyyyyyyyyy + 2 };\n}\n",
]


def selection_stream(rep, tier, seed):
    """(c): which style edition is in force is decided by main.rs / config loading from rustfmt.toml keys and flags;
    run the real binary of the working tree and of the pinned sources on every combination"""
    import itertools
    import shutil
    from concurrent.futures import ThreadPoolExecutor
    ok, blog, _ = common.build_bins()
    if not ok:
        raise RuntimeError("build of /repo binaries failed:\n" + blog)
    frozen_bin = os.path.join(common.CACHE, "target-frozen", "debug", "rustfmt")
    if not os.path.exists(frozen_bin):
        raise RuntimeError("frozen rustfmt binary missing (setup builds it)")
    env = common.rust_env()
    env.pop("CARGO_TARGET_DIR", None)
    root = os.path.join(common.CACHE, "c09sel")
    shutil.rmtree(root, ignore_errors=True)
    combos = []
    for fv, fe, fs, ce, cs, cv in itertools.product([None, "One", "Two"], [None, "2015", "2021", "2024"], [None, "2015", "2024"],
                                                    [None, "2015", "2024"], [None, "2021", "2024"], [None, "One", "Two"]):
        combos.append((fv, fe, fs, ce, cs, cv))
    if tier != "thorough":
        combos = [c for i, c in enumerate(combos) if c[3:] == (None, None, None) or c[:3] == (None, None, None) or (i + seed) % 5 == 0]
    jobs = []
    for ci, (fv, fe, fs, ce, cs, cv) in enumerate(combos):
        d = os.path.join(root, "c%d" % ci)
        os.makedirs(d)
        toml = "".join('%s = "%s"\n' % (k, v) for k, v in (("version", fv), ("edition", fe), ("style_edition", fs)) if v)
        if toml:
            open(os.path.join(d, "rustfmt.toml"), "w").write(toml)
        args = []
        if ce:
            args += ["--edition", ce]
        if cs:
            args += ["--style-edition", cs]
        if cv:
            args += ["--config", "version=%s" % cv]
        for si, sn in enumerate(SEL_SNIPPETS):
            jobs.append((d, toml, args, si, sn))

    def one(j):
        d, toml, args, si, sn = j
        r = []
        for exe in (common.bin_path("rustfmt"), frozen_bin):
            rc, o, e = common.sh([exe] + args, cwd=d, env=env, input=sn, timeout=60)
            r.append((rc, o, e))
        return r

    with ThreadPoolExecutor(max_workers=common.NCPU) as ex:
        res = list(ex.map(one, jobs))
    found = 0
    for (d, toml, args, si, sn), ((rc1, o1, e1), (rc2, o2, e2)) in zip(jobs, res):
        if rc2 != 0:
            continue      # the pinned release rejects this combination
        if (rc1, o1) != (rc2, o2):
            if rep.violation("selection_differs_from_pinned:%d" % si, {"rustfmt_toml": toml, "args": args, "input": sn, "pinned": [rc2, o2], "current": [rc1, o1], "stderr": e1[-400:]},
                             "with rustfmt.toml %r and flags %r the working tree's binary prints a different result than the pinned release for snippet %d" % (toml, args, si)):
                found += 1
    shutil.rmtree(root, ignore_errors=True)
    return len(jobs), found


def hkey(s):
    return int(hashlib.sha1(s.encode()).hexdigest()[:8], 16)


def run(tier, seed, replay):
    rep = common.Reporter(PROP, tier, seed, "proof")
    rep.assumptions = TRUSTED
    ok, blog, bt = common.build_harness()
    if not ok:
        raise RuntimeError("harness build failed:\n" + blog)
    okf, blogf, btf = common.build_frozen()
    if not okf:
        raise RuntimeError("frozen reference build failed:\n" + blogf)
    order = common.run_vh("c09", [{}])[0]["le"]
    gates, unclassified, entries, mac_ok, years = gen_gates([(a, b, v) for a, b, v in order])
    cr = common.coq_phase(["C09", "Gen/C09"], "Gen/C09/Gates.v")
    common.coq_coverage(rep, cr, "python translator (checks/c09.py) -> coq/Gen/C09/Gates.v; cd coq && make Gen/C09/Gates.vo && coqc -Q . V Gen/C09/Gates.v (+ hygiene grep, Print Assumptions allow-list)", TRUSTED)
    rep.coverage["gates"] = len(gates)
    rep.coverage["defaults"] = len(entries)
    found = 0
    # ---- differential runs
    P = pool.load()
    MOD = 8
    sel = []
    for p in P:
        for pr in PRESETS:
            for w in GRID_W:
                if tier == "thorough" or hkey("%s|%s|%s" % (p["id"], pr, w)) % MOD == seed % MOD:
                    sel.append((p, pr, w))
    if replay:
        rp = json.load(open(replay))
        sel = [(p, rp["preset"], rp["width"]) for p in P if p["id"] == rp["pool_id"]]
    cases, meta = [], []
    for p, pr, w in sel:
        for ed in EDITIONS:
            cfg = pool.merged([kv for kv in p["header"] if kv[0] not in ("style_edition", "version")], [["max_width", w], ["style_edition", ed]] + PRESETS[pr])
            cases.append({"text": p["text"], "config": cfg, "again": False, "lex": False})
            meta.append((p["id"], pr, w, ed))
    # non-ASCII re-spellings (string / comment text in 2-byte letters of width 1, or 3-byte letters of width 2) and one
    # width per program drawn from 20..200: against the frozen build any input is fair, equality holds by construction
    for p in P:
        for mode in ("cyr", "wide", "anyw"):
            h = hkey("%s|%s" % (p["id"], mode))
            if replay or (tier != "thorough" and h % (MOD * 2) != seed % (MOD * 2)):
                continue
            w = str(20 + (h // 64) % 181)
            pr = list(PRESETS)[(h // 7) % len(PRESETS)]
            text = p["text"] if mode == "anyw" else respell(p["text"], mode)
            for ed in EDITIONS:
                cfg = pool.merged([kv for kv in p["header"] if kv[0] not in ("style_edition", "version")], [["max_width", w], ["style_edition", ed]] + PRESETS[pr])
                cases.append({"text": text, "config": cfg, "again": False, "lex": False})
                meta.append((p["id"] + "#" + mode, pr, w, ed))
    # the synthetic forms of C01 (statement / pattern / expression / item forms x layout presets x widths) under every edition
    if not replay or rp["pool_id"].startswith("synth/"):
        from . import c01
        for name, si, w, text, cfg in c01.synth_cases(tier, seed + 1):
            if si in (2, 3):
                continue          # those presets fix style_edition themselves
            if replay and ("synth/" + name != rp["pool_id"] or str(rp["width"]) != w or rp["preset"] != "syn%d" % si):
                continue
            if tier != "thorough" and hkey("%s|%s|%s" % (name, si, w)) % 2:
                continue
            for ed in EDITIONS:
                cases.append({"text": text, "config": [kv for kv in cfg if kv[0] != "style_edition"] + [["style_edition", ed]], "again": False, "lex": False})
                meta.append(("synth/" + name, "syn%d" % si, w, ed))
    # forms whose layout depends on how the width of non-ASCII text is measured (bytes / chars / columns)
    if not replay:
        for fi, form in enumerate(UNI_FORMS):
            for mode in ("cyr", "wide"):
                text = respell(form, mode)
                for w in range(20, 131):
                    if tier != "thorough" and (w + fi + seed) % 3:
                        continue
                    for ed in EDITIONS:
                        cases.append({"text": text, "config": [["max_width", str(w)], ["style_edition", ed]], "again": False, "lex": False})
                        meta.append(("uniform/%d#%s" % (fi, mode), "base", str(w), ed))
    if not replay:
        for fi, form in enumerate(EXTRA_FORMS + EXTRA_ITEMS):
            text = ("fn wrapper() {\n    %s\n}\n" % form) if fi < len(EXTRA_FORMS) else form + "\n"
            for w in range(20, 141):           # EVERY width: several layout rules bite only at an exact fit
                for ed in EDITIONS:
                    cases.append({"text": text, "config": [["max_width", str(w)], ["style_edition", ed]], "again": False, "lex": False})
                    meta.append(("extra/%d" % fi, "base", str(w), ed))
    if replay and "input" in rp:
        cases = [{"text": rp["input"], "config": rp["config"], "again": False, "lex": False}]
        meta = [(rp["pool_id"], rp["preset"], rp["width"], rp.get("style_edition", "?"))]
    cur = common.run_vh_pool("pool", cases, per_case_timeout=15)
    ref = common.run_vh_pool("", [{"text": c["text"], "config": c["config"]} for c in cases], per_case_timeout=15, exe=common.FROZEN_EXE)
    n_judged = n_old = 0
    nontrivial = set()
    by_key = {}
    for (pid, pr, w, ed), c, a, b in zip(meta, cases, cur, ref):
        by_key.setdefault((pid, pr, w), {})[ed] = (a, b, c)
        if not isinstance(b, dict) or b.get("out") is None or not b.get("no_errors") or b.get("warnings"):
            continue          # the pinned release does not format this input without error
        n_judged += 1
        out_a = a.get("out") if isinstance(a, dict) else None
        if out_a != b["out"]:
            what = "panic/timeout" if out_a is None else "text differs"
            if rep.violation("differs_from_pinned:%s" % pid, {"pool_id": pid, "preset": pr, "width": w, "style_edition": ed, "config": c["config"], "input": c["text"], "pinned": b["out"], "current": out_a, "current_raw": a if out_a is None else None},
                             "style edition %s: output differs from the pinned release (%s) for %s, preset %s, max_width %s" % (ed, what, pid, pr, w)):
                found += 1
        if b["out"] != c["text"]:
            nontrivial.add((pid, pr, w, ed))
    for (pid, pr, w), eds in by_key.items():
        outs = {}
        for ed in ("2015", "2018", "2021"):
            a = eds.get(ed, (None, None, None))[0]
            if isinstance(a, dict) and pool.accepted(a):
                outs[ed] = a["out"]
        if len(outs) == 3:
            n_old += 1
            if len(set(outs.values())) != 1:
                if rep.violation("old_editions_differ:%s" % pid, {"pool_id": pid, "preset": pr, "width": w, "outs": outs},
                                 "style editions 2015/2018/2021 produce different text for %s, preset %s, max_width %s" % (pid, pr, w)):
                    found += 1
    nsel, fsel = selection_stream(rep, tier, seed) if not replay else (0, 0)
    found += fsel
    if not cr.ok and found == 0:
        what = "the regenerated gate / default theorems no longer check: failed=%s hygiene=%s assumptions=%s unclassified=%r mac_ok=%s" % (cr.failed_files, cr.hygiene, cr.bad_assumptions, unclassified[:5], mac_ok)
        log(cr.build_log[-1500:])
        rep.violation("tie", {"broken": what, "unclassified": unclassified, "gates": gates}, what, no_input=True)
    rep.coverage.update({
        "evaluations": len(cases), "distinct_nontrivial": len(nontrivial),
        "judged_against_pinned": n_judged, "old_edition_triples_compared": n_old,
        "rule": "(a) regenerated theorems: every StyleEdition literal in formatting code is the right operand of an ordering comparison that is constant on {2015,2018,2021}; every option default is shared by them; the order is the declared one. (b) differential: pool x presets %s x max_width %s x style editions %s (thorough: all; quick: the 1/%d slice selected by the seed), plus the synthetic forms stream of C01 (forms x 4 layout presets x widths) under every edition, plus non-ASCII re-spellings of pool programs (string and comment text in 2-byte / double-width letters) and a width drawn from 20..200 per program, plus 14 forms whose layout depends on the measured width of non-ASCII text at every max_width 20..130, plus 33 further forms (chains through tuple fields / ? / await / indexing, macro calls holding one-line lists, long operands, long signatures ...) at every max_width 20..140: the working tree's output must equal the frozen pinned build's for every input the pinned build formats without error, and 2015 = 2018 = 2021 on the working tree. non-trivial = the pinned build changes the text; distinct by (program, preset, width, edition). (c) how the style edition is chosen: the real binaries of the working tree and of the pinned sources are run on %d discriminating snippets under every combination of rustfmt.toml keys (version, edition, style_edition) and command-line flags (--edition, --style-edition, --config version=): same exit status and text" % (list(PRESETS), GRID_W, EDITIONS, MOD, len(SEL_SNIPPETS)),
        "selection_runs": nsel,
        "samples": [{"pool_id": m[0], "preset": m[1], "width": m[2], "style_edition": m[3]} for m in meta[:4]],
        "programs": len(set(m[0] for m in meta)),
        "harness_build_s": round(bt, 1), "frozen_build_s": round(btf, 1),
    })
    return rep.finish()
