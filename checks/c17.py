"""C17 — file_lines confines changes to the selected code."""
import re

from . import common, coqterm

PROP = "C17"
TRUSTED = [
    "Coq 8.16.1 kernel (coqc); vm_compute evaluates the model in cases.v; no native_compute",
    "Print Assumptions of every theorem in coq/C17/Props.v: Closed under the global context (checked each run)",
    "hand-written model coq/C17/Model.v of Range::{is_empty,contains,intersects,adjacent_to,merge}, normalize_ranges (with the retain of the fix: commit), FileLines queries; tied to the code by the correspondence run through hook config::file_lines::verif",
    "Rust's Vec::sort is a correct sort on the derived total order (theorem sort_model_harmless: the sorted permutation is unique)",
    "HashMap lookup by FileName and path canonicalisation are modelled abstractly (file ids; canon = None)",
    "usize overflow of hi + 1 at usize::MAX not modelled",
]


def rrange(rnd, hi=12):
    k = rnd.random()
    a = rnd.randint(0, hi)
    if k < 0.2:
        b = rnd.randint(0, hi)           # may be empty (lo > hi)
    elif k < 0.3:
        b = a
    else:
        b = a + rnd.randint(0, 5)
    return [a, b]


def gen_cases(tier, seed):
    rnd = common.rng(seed, PROP)
    n = 1500 if tier == "quick" else 30000
    cases = [
        {"files": [["stdin", [[1, 5], [3, 2], [4, 8]]]], "qfile": "stdin", "queries": [[2, 7], [1, 8], [3, 2], [9, 9]], "pairs": [[[1, 5], [4, 8]], [[3, 2], [4, 8]]]},
        {"files": None, "qfile": "stdin", "queries": [[1, 1], [5, 2]], "pairs": []},
        {"files": [], "qfile": "stdin", "queries": [[1, 1], [5, 2], [0, 100]], "pairs": []},
        {"files": [["stdin", [[3, 2]]]], "qfile": "stdin", "queries": [[1, 1], [5, 2], [0, 100]], "pairs": []},
    ]
    for _ in range(n):
        nfiles = rnd.choice([1, 1, 1, 2])
        names = ["stdin", "/nonexistent/zz.rs", "/repo/src/lib.rs"]
        files = []
        for i in range(nfiles):
            files.append([names[i], [rrange(rnd) for _ in range(rnd.randint(0, 5))]])
        qfile = rnd.choice(names[:nfiles] + ["stdin"])
        queries = [rrange(rnd, 14) for _ in range(6)]
        pairs = [[rrange(rnd, 6), rrange(rnd, 6)] for _ in range(4)]
        cases.append({"files": files, "qfile": qfile, "queries": queries, "pairs": pairs})
    return cases


def file_id(name):
    return {"stdin": 0, "/nonexistent/zz.rs": 1, "/repo/src/lib.rs": 2}[name]


def model_expr(c):
    R = coqterm.render
    qs = [tuple(q) for q in c["queries"]]
    ps = [(tuple(p[0]), tuple(p[1])) for p in c["pairs"]]
    ops = "[" + "; ".join("run_range_ops %s %s" % (R(a), R(b)) for a, b in ps) + "]"
    if c["files"] is None:
        # FileLines::all()
        q = "map (fun q : N * N => (fl_contains_range fl_all (Some 0) (fst q) (snd q), fl_intersects fl_all (Some 0) (dec_range q), fl_contains_line fl_all (Some 0) (fst q))) %s" % R(qs)
        return "(@None (list (N*N)), %s, %s)" % (q, ops)
    m = [(file_id(f[0]), [tuple(r) for r in f[1]]) for f in c["files"]]
    f = file_id(c["qfile"])
    canon = "false" if c["qfile"] == "/nonexistent/zz.rs" else "true"
    mine = [rs for (fid, rs) in m if fid == f]
    norm = ("Some (run_normalize %s)" % R(mine[0])) if mine else "@None (list (N*N))"
    return "(%s, run_file_queries %s %d %s %s, %s)" % (norm, R(m), f, canon, R(qs), ops)


def canon_model(c, v):
    norm, qs, ops = v
    if isinstance(norm, coqterm.Ctor):
        norm = norm.args[0] if norm.name == "Some" else None
    return {"norm": coqterm.plain(norm), "queries": coqterm.plain(qs),
            "ops": [[a, b, cc, d, (coqterm.plain(e.args[0]) if isinstance(e, coqterm.Ctor) and e.name == "Some" else None)]
                    for (a, b, cc, d, e) in ops]}


def canon_impl(c, r):
    return {"norm": r["norm"], "queries": r["queries"], "ops": r["ops"]}


def U(rs, l):
    return any(a <= l <= b for a, b in rs)


def oracle(c, r):
    """C17's clauses about the selection, evaluated on the implementation's answers:
    overlapping/adjacent ranges behave as their union; an empty selection selects nothing."""
    bad = []
    if c["files"] is None:
        return bad
    rs = None
    for f in c["files"]:
        if f[0] == c["qfile"]:
            rs = f[1]
    canon_fail = c["qfile"] == "/nonexistent/zz.rs"
    sel = [] if (rs is None or canon_fail) else [x for x in rs]
    for q, (cr, it, cl) in zip(c["queries"], r["queries"]):
        a, b = q
        want_line = U(sel, a)
        if cl != want_line:
            bad.append(("contains_line_union", "contains_line(%d) = %s, union of %r says %s" % (a, cl, sel, want_line)))
        want_int = any(U(sel, l) for l in range(a, b + 1))
        if it != want_int:
            bad.append(("intersects_union", "intersects(%d,%d) = %s, union of %r says %s" % (a, b, it, sel, want_int)))
        if a <= b:
            want_cr = all(U(sel, l) for l in range(a, b + 1))
            if cr != want_cr:
                bad.append(("contains_range_union", "contains_range(%d,%d) = %s, union of %r says %s" % (a, b, cr, sel, want_cr)))
    if r["norm"] is not None:
        n = r["norm"]
        for (a, b), (a2, b2) in zip(n, n[1:]):
            if not (a <= b and b + 1 < a2):
                bad.append(("normal_form", "normalised ranges %r not sorted/disjoint/non-adjacent" % n))
    return bad


def nontrivial(c, r):
    if c["files"] is None:
        return False
    for f in c["files"]:
        if f[0] == c["qfile"] and len(f[1]) >= 2:
            return True
    return False


# ---------------------------------------------------------------- end to end: the formatter consults the selection

def fl(ranges):
    import json as _j
    return ["file_lines", _j.dumps([{"file": "stdin", "range": [a, b]} for a, b in ranges])]


def line_of(text_bytes, off):
    return text_bytes[:off].count(b"\n") + 1


def e2e(rep, tier, seed):
    import hashlib
    import random
    from . import pool
    P = [p for p in pool.load() if p["id"].startswith("source/") and not any(k == "file_lines" for k, _ in p["header"])]
    MOD = 5
    if tier != "thorough":
        P = [p for p in P if int(hashlib.sha1(p["id"].encode()).hexdigest()[:6], 16) % MOD == seed % MOD]
    nodes = common.run_vh_pool("nodes", [{"text": p["text"], "config": p["header"]} for p in P], per_case_timeout=20)
    cases, meta = [], []
    for p, nd in zip(P, nodes):
        if not isinstance(nd, dict) or not nd.get("nodes"):
            continue
        b = p["text"].encode("utf-8")
        nlines = p["text"].count("\n") + 1
        items = [(line_of(b, lo), line_of(b, max(lo, hi - 1)), lo, hi, kind) for kind, lo, hi, parent in nd["nodes"] if kind == "item" and parent == "root"]
        if len(items) < 2:
            continue
        rnd = random.Random(p["id"])
        sels = []
        it = rnd.choice(items)
        sels.append(("aligned", [(it[0], it[1])]))
        a = rnd.randint(1, nlines)
        sels.append(("cutting", [(a, min(nlines, a + rnd.randint(0, 6)))]))
        sels.append(("empty_range", [(max(2, a), max(2, a) - 1)]))
        sels.append(("past_end", [(nlines + 3, nlines + 9)]))
        sels.append(("none", []))
        sels.append(("all", [(1, nlines + 1)]))
        for name, R in sels:
            variants = [R]
            if R and name in ("aligned", "cutting"):
                (x, y) = R[0]
                m = (x + y) // 2
                # equivalent selections: split into adjacent / overlapping pieces, add an empty range, permute
                variants.append([(m + 1, y), (x, m)] if m + 1 <= y else [(x, y), (x, y)])
                variants.append([(x, min(y, m + 1)), (m, y), (y + 5, y + 4)])
            for vi, V in enumerate(variants):
                cases.append({"text": p["text"], "config": pool.merged(p["header"], [fl(V)]), "again": False, "lex": False})
                meta.append((p["id"], name, vi, R, items))
        cases.append({"text": p["text"], "config": p["header"], "again": False, "lex": False})
        meta.append((p["id"], "unrestricted", 0, None, items))
    # synthetic programs: attribute lines, blank runs and comments with trailing blanks between items
    rs = random.Random("c17-synth-%d" % (seed if tier != "thorough" else 0))
    nsyn = 60 if tier != "thorough" else 600
    for si in range(nsyn):
        lines, items = [], []
        for ii in range(rs.randint(3, 6)):
            start = len(lines) + 1
            for _ in range(rs.randint(0, 2)):
                lines.append(rs.choice(["#[inline]", "#[cold]", "#[allow(unused)]", "// note", "/* c */"]) + rs.choice(["", "", " ", "\t", "  "]))
            body = rs.choice(["fn  f%d( ) { }", "struct  S%d  {a:u8}", "const C%d :u8=1;", "fn g%d(){\n    let x=1;   \n}"]) % ii
            for bl in body.split("\n"):
                lines.append(bl)
            items.append((start, len(lines)))
            for _ in range(rs.randint(0, 3)):
                lines.append(rs.choice(["", "", "   "]))
        text = "\n".join(lines) + "\n"
        tb = text.encode()
        # byte spans of the items (attributes included), from the line numbers
        offs = [0]
        for l in lines:
            offs.append(offs[-1] + len(l.encode()) + 1)
        its = [(a, b, offs[a - 1], offs[b] - 1, "item") for a, b in items]
        pid = "synth/%d" % si
        for (a, b) in items:
            cases.append({"text": text, "config": [fl([(a, b)])], "again": False, "lex": False})
            meta.append((pid, "aligned", 0, [(a, b)], its))
        cases.append({"text": text, "config": [], "again": False, "lex": False})
        meta.append((pid, "unrestricted", 0, None, its))
    # runs of use / mod / extern crate declarations with blank lines, comments and attribute lines BETWEEN the declarations: a
    # selection that covers only such a line selects no declaration, so nothing may move (regrouping options included)
    for si in range(nsyn // 2):
        kind = rs.choice(["use", "use", "mod", "extern"])
        names = rs.sample(["zeta", "alpha", "std::fmt", "core::mem", "crate::x", "beta::b", "std::cmp", "gamma", "yak", "serde::de"], rs.randint(3, 5))
        if kind != "use":
            names = [x.split("::")[-1] for x in names]
            names = sorted(set(names), key=names.index)
        lines, items, gaps = [], [], []
        for x in names:
            g = rs.random()
            if lines and g < 0.35:
                lines.append("")
                gaps.append(len(lines))
            elif lines and g < 0.6:
                lines.append("// about %s" % x.replace("::", " "))
                gaps.append(len(lines))
            if rs.random() < 0.25:
                lines.append("#[cfg(feature = \"f\")]")
                gaps.append(len(lines))
            start = len(lines) + 1          # the declaration itself: an attribute line above it is a gap line here
            lines.append({"use": "use  %s;", "mod": "mod  %s;", "extern": "extern  crate %s;"}[kind] % x)
            items.append((start, len(lines)))
        lines.append("")
        lines.append("fn  tail( ) { }")
        text = "\n".join(lines) + "\n"
        offs = [0]
        for l in lines:
            offs.append(offs[-1] + len(l.encode()) + 1)
        its = [(a, b, offs[a - 1], offs[b] - 1, "item") for a, b in items]
        pid = "synthrun/%d" % si
        cfgs = [[["group_imports", g], ["reorder_imports", "true"], ["reorder_modules", "true"]] for g in ("Preserve", "StdExternalCrate", "One")]
        for gl in gaps:
            cfg = cfgs[(si + gl) % 3]
            cases.append({"text": text, "config": cfg + [fl([(gl, gl)])], "again": False, "lex": False})
            meta.append((pid, "gap", gl, [(gl, gl)], its))
        cases.append({"text": text, "config": [], "again": False, "lex": False})
        meta.append((pid, "unrestricted", 0, None, its))
    # a selected item is formatted exactly as without a selection, whatever the UNSELECTED items before it declare (skip-name
    # attributes, inner state of the visitor must not leak across an item that is merely copied)
    leak_meta = {}
    for si in range(nsyn // 3):
        blocks = []
        for k in range(rs.randint(3, 5)):
            attr = rs.choice(["", "", "#[rustfmt::skip::macros(vec)]\n", "#[rustfmt::skip::macros(m)]\n", "#[rustfmt::skip::attributes(custom)]\n", "#[inline]\n", "#[rustfmt::skip::macros(vec, m)]\n"])
            blocks.append(attr + "fn  f%d( ) {\n    let  x  =  vec![ 1,2 ] ;\n    m!( a  ,b );\n    #[custom(  x )]\n    let  y = 3 ;\n}" % k)
        text = "\n\n".join(blocks) + "\n"
        pid = "synthleak/%d" % si
        spans, ln = [], 1
        for b_ in blocks:
            n_ = b_.count("\n") + 1
            spans.append((ln, ln + n_ - 1))
            ln += n_ + 1
        leak_meta[pid] = (blocks, spans)
        for k, (a, b) in enumerate(spans):
            cases.append({"text": text, "config": [fl([(a, b)])], "again": False, "lex": False})
            meta.append((pid, "leak", k, [(a, b)], []))
        cases.append({"text": text, "config": [], "again": False, "lex": False})
        meta.append((pid, "unrestricted", 0, None, []))
    # statements of a selected function: select one statement, the others must be emitted line for line
    STMTS = ["let  a%d=1 ;", "call%d( x,y ) ;", "if  a%d {\nb( ) ;\n}", "match x%d {\n1=>2 ,\n_=>3 ,\n}", "let v%d = vec![ 1,2 ,3 ] ;", "// note %d\nlet  z = ( 1 ) ;",
             "for i%d in 0 .. 3 {\nwork( i ) ;\n}", "let s%d = S{a:1,b:2} ;", "x%d . y( ) . z( ) ;", "unsafe  { p%d( ) }", "let c%d = | q | q+1 ;"]
    stmt_meta = {}
    for si in range(nsyn):
        lines, spans = ["fn  outer%d( ) {" % si], []
        for k in range(rs.randint(3, 6)):
            st = rs.choice(STMTS) % k
            ind = " " * rs.choice([0, 2, 4, 4, 7])
            start = len(lines) + 1
            for l in st.split("\n"):
                lines.append(ind + l)
            spans.append((start, len(lines)))
            if rs.random() < 0.3:
                lines.append("")
        if si % 2:
            # a trailing value expression (no semicolon): under the newest style edition it takes another path through the statement code
            st = rs.choice(["compute%d( b,1 )", "if c%d { 1 }else{ 2 }", "match m%d {\n1=>2 ,\n_=>3 ,\n}", "{\nlet q%d = 1 ;\nq+1\n}", "x%d . y( ) . z( )", "[ 1,2 ,%d ]"]) % si
            ind = " " * rs.choice([0, 2, 4, 7])
            start = len(lines) + 1
            for l in st.split("\n"):
                lines.append(ind + l)
            spans.append((start, len(lines)))
        lines.append("}")
        lines.append("fn  other( ) { }")
        text = "\n".join(lines) + "\n"
        pid = "synthstmt/%d" % si
        stmt_meta[pid] = (lines, spans)
        se = [["style_edition", "2024"]] if si % 4 in (1, 2) else []
        for (a, b) in spans:
            cases.append({"text": text, "config": [fl([(a, b)])] + se, "again": False, "lex": False})
            meta.append((pid, "stmt", 0, [(a, b)], []))
        cases.append({"text": text, "config": [], "again": False, "lex": False})
        meta.append((pid, "unrestricted", 0, None, []))
    # diagnostics only for selected lines: one-line items (formatting never changes the number of lines), many of them
    # ending in blanks or too wide; whatever is reported must lie inside the selection
    for si in range(nsyn):
        lines = []
        for k in range(rs.randint(6, 14)):
            l = rs.choice(["fn  d%d( ) { }", "const D%d :u8=1;", "struct  T%d ;", "static S%d :u8=2;", "type A%d=u8;"]) % k
            if rs.random() < 0.3:
                l = "const W%d: &str = \"%s\";" % (k, "w" * 110)
            lines.append(l + rs.choice(["", "", " ", "   ", "\t"]))
        text = "\n".join(lines) + "\n"
        a = rs.randint(1, len(lines))
        b = min(len(lines), a + rs.randint(0, 3))
        cases.append({"text": text, "config": [fl([(a, b)]), ["error_on_line_overflow", "true"], ["error_on_unformatted", "true"]], "again": False, "lex": False, "entries": True})
        meta.append(("synthdiag/%d" % si, "diag", 0, [(a, b)], []))
        cases.append({"text": text, "config": [], "again": False, "lex": False})
        meta.append(("synthdiag/%d" % si, "unrestricted", 0, None, []))
    res = common.run_vh_pool("pool", cases, per_case_timeout=15)
    found = n = 0
    by = {}
    for (pid, name, vi, R, items), c, r in zip(meta, cases, res):
        by.setdefault(pid, {})[(name, vi, str(R))] = (c, r, R, items)
    for pid, d in by.items():
        full = d.get(("unrestricted", 0, "None"))
        if full is None or not pool.accepted(full[1]):
            continue
        text = full[0]["text"]
        tb = text.encode("utf-8")
        for (name, vi, _rk), (c, r, R, items) in d.items():
            if name == "diag":
                if isinstance(r, dict) and r.get("entries") is not None and r.get("out") is not None:
                    n += 1
                    (a, b) = R[0]
                    outside = [e for e in r["entries"] if e[1] in (0, 1) and not (a <= e[0] <= b)]
                    if outside:
                        if rep.violation("e2e_diagnostic_outside_selection", {"pool_id": pid, "selection": R, "config": c["config"], "input": c["text"], "out": r["out"], "entries": r["entries"]},
                                         "with lines %d-%d selected, a line-width / trailing-blank diagnostic is issued for line(s) %r of %s" % (a, b, [e[0] for e in outside], pid)):
                            found += 1
                    olines = r["out"].split("\n")
                    ilines = c["text"].split("\n")
                    # the item's own bytes: blanks after its last token are not part of it
                    changed_outside = [k + 1 for k, (x, y) in enumerate(zip(ilines, olines)) if x.rstrip() != y.rstrip() and not (a <= k + 1 <= b)]
                    if changed_outside or len(olines) != len(ilines):
                        if rep.violation("e2e_unselected_item_changed:%s" % pid, {"pool_id": pid, "selection": R, "input": c["text"], "out": r["out"]},
                                         "unselected one-line items (lines %r) of %s changed under selection %r" % (changed_outside, pid, R)):
                            found += 1
                continue
            if name == "unrestricted" or not pool.accepted(r):
                continue
            n += 1
            out = r["out"]
            base = {"pool_id": pid, "selection": R, "variant": vi, "config": c["config"], "input": text, "out": out}
            if name == "leak":
                blocks, spans = leak_meta[pid]
                ub = full[1]["out"].rstrip("\n").split("\n\n")
                ob = out.rstrip("\n").split("\n\n")
                if len(ub) == len(blocks) and len(ob) == len(blocks):
                    for i, blk in enumerate(blocks):
                        want_b = ub[i] if i == vi else blk
                        if ob[i] != want_b:
                            what_ = "the selected item is not formatted as without a selection" if i == vi else "an unselected item changed"
                            if rep.violation("e2e_selected_item_differs_from_unrestricted" if i == vi else "e2e_unselected_item_changed:%s" % pid, dict(base, item_index=i, expected=want_b, got=ob[i]),
                                             "%s: item %d of %s under selection %r: expected %r, got %r" % (what_, i, pid, R, want_b[:120], ob[i][:120])):
                                found += 1
                            break
                continue
            if name == "gap":
                for (l1, l2, lo, hi, kind) in items:
                    snippet = tb[lo:hi].decode("utf-8", "replace")
                    if snippet not in out:
                        if rep.violation("e2e_unselected_run_changed", dict(base, item_lines=[l1, l2], item=snippet),
                                         "line %d of %s holds no declaration (blank / comment / attribute line between them), yet with only that line selected the declaration %r is rewritten" % (vi, pid, snippet)):
                            found += 1
                        break
                continue
            if name == "stmt":
                lines, spans = stmt_meta[pid]
                olines = out.split("\n")
                for (a, b) in spans:
                    if (a, b) == tuple(R[0]):
                        continue
                    want = lines[a - 1:b]
                    # the statement's own bytes: from its first token (the indentation before it is not part of it)
                    ok = "\n".join(want).lstrip() in out
                    if not ok:
                        if rep.violation("e2e_unselected_statement_changed", dict(base, statement_lines=[a, b], statement=want),
                                         "an unselected statement (lines %d-%d) of the selected function of %s is not emitted byte for byte under selection %r: %r" % (a, b, pid, R, want)):
                            found += 1
                        break
                # the last line (fn other) is an unselected item
                if lines[-1] not in olines:
                    if rep.violation("e2e_unselected_item_changed:%s" % pid, base, "the unselected item after the selected function of %s was changed" % pid):
                        found += 1
                continue
            if name in ("none", "empty_range", "past_end") and vi == 0:
                if out.rstrip("\n") != text.replace("\r\n", "\n").rstrip("\n") and out.rstrip("\n") != text.rstrip("\n"):
                    if rep.violation("e2e_empty_selection:%s" % pid, base, "a selection that selects no line of the file (%s %r) changed the text of %s" % (name, R, pid)):
                        found += 1
                continue
            if name == "all":
                if out != full[1]["out"]:
                    if rep.violation("e2e_full_selection:%s" % pid, base, "selecting every line of %s gives a different text than no restriction" % pid):
                        found += 1
                continue
            if vi > 0:
                ref = next((v for (nm, v0, _), v in d.items() if nm == name and v0 == 0), None)
                if ref is not None and pool.accepted(ref[1]) and ref[1]["out"] != out:
                    if rep.violation("e2e_union:%s" % pid, base, "selections with the same union format %s differently: %r vs %r" % (pid, R, c["config"][-1][1])):
                        found += 1
                continue
            # unselected top-level items are emitted byte for byte
            for (l1, l2, lo, hi, kind) in items:
                if any(not (l2 < a or b < l1) for a, b in R):
                    continue
                snippet = tb[lo:hi].decode("utf-8", "replace")
                first = snippet.lstrip().split(None, 1)[0] if snippet.strip() else ""
                if snippet.replace("\r\n", "\n") not in out.replace("\r\n", "\n"):
                    is_run = re.match(r"^(pub(\([^)]*\))?\s+)?(use|mod|extern\s+crate)\b", snippet.lstrip()) is not None and snippet.rstrip().endswith(";")
                    # by design a run of use / mod / extern crate declarations is rewritten as a whole when ONE OF ITS MEMBERS is
                    # selected (recorded finding); a selection that touches no declaration at all must leave every run alone
                    run_member_selected = any(
                        re.match(r"^(#\[[^\]]*\]\s*)*(pub(\([^)]*\))?\s+)?(use|mod|extern\s+crate)\b", tb[lo2:hi2].decode("utf-8", "replace").lstrip()) is not None
                        and any(not (m2 < a or b < m1) for a, b in R) for (m1, m2, lo2, hi2, _k2) in items)
                    key = "e2e_partially_selected_run" if (is_run and run_member_selected) else "e2e_unselected_item_changed:%s" % pid
                    if rep.violation(key, dict(base, item_lines=[l1, l2], item=snippet),
                                     "an unselected top-level item (lines %d-%d) of %s is not emitted byte for byte under selection %r: %r" % (l1, l2, pid, R, snippet[:100])):
                        found += 1
                    break
    rep.coverage["e2e_runs_judged"] = n
    found += binary_selection(rep, tier, seed)
    rep.coverage["e2e_rule"] = "pool source programs (thorough: all; quick: the 1/%d selected by the seed) x selections {one item exactly, a random window cutting through items, an empty range, a range past the end, no range, every line} and for the first two, two equivalent re-spellings (adjacent / overlapping pieces, an extra empty range, permuted): unselected top-level items byte for byte; synthetic functions of 3..6 badly formatted statements with one statement selected: every other statement line for line; one-line items ending in blanks / too wide with a random window selected: diagnostics only for lines inside it, lines outside unchanged; through the binary: the same selection given for a path and for stdin gives the same text, and a file not named in the selection is not written; empty selections change nothing; full selection = unrestricted; equal unions give equal text; runs of use / mod / extern crate declarations with blank, comment and attribute lines between them under every group_imports setting, with only such an in-between line selected: no declaration may change; 3..5 functions some of which carry rustfmt::skip::macros / skip::attributes declarations, each selected in turn: the selected one is formatted exactly as without a selection, the others are copied" % MOD
    return found


def binary_selection(rep, tier, seed):
    """path vs stdin spelling of the same selection, and files not named in the selection, through the real binary"""
    import json as _j
    import os
    import random
    import shutil
    ok, blog, _ = common.build_bins()
    if not ok:
        raise RuntimeError("build of /repo binaries failed:\n" + blog)
    env = common.rust_env()
    env.pop("CARGO_TARGET_DIR", None)
    d = os.path.join(common.CACHE, "c17bin")
    rs = random.Random("c17-bin-%d" % seed)
    found = n = 0
    for k in range(12 if tier != "thorough" else 80):
        shutil.rmtree(d, ignore_errors=True)
        os.makedirs(d)
        items = ["fn  a%d( ) { }" % k, "struct  S  {a:u8}", "fn  b( x:u8 )->u8{x}", "const C :u8=1;", "fn  c( ) {\n  let y=2 ;\n}"]
        rs.shuffle(items)
        text = "mod m;\n" + "\n".join(items) + "\n"
        open(os.path.join(d, "lib.rs"), "w").write(text)
        mtext = "pub fn  inner( ){ }\n"
        open(os.path.join(d, "m.rs"), "w").write(mtext)
        nl = text.count("\n")
        a = rs.randint(1, nl)
        b = min(nl, a + rs.randint(0, 2))
        full = os.path.join(os.path.realpath(d), "lib.rs")
        for spelled in ("lib.rs", full):
            sel_path = _j.dumps([{"file": spelled, "range": [a, b]}])
            rc1, o1, e1 = common.sh([common.bin_path("rustfmt"), "--unstable-features", "--file-lines", sel_path, "--emit", "stdout", "-q", spelled], cwd=d, env=env, timeout=60)
            sel_stdin = _j.dumps([{"file": "stdin", "range": [a, b]}])
            rc2, o2, e2 = common.sh([common.bin_path("rustfmt"), "--unstable-features", "--file-lines", sel_stdin], cwd=d, env=env, timeout=60, input=text)
            n += 1
            # the path run prints lib.rs (and m.rs unchanged, if at all); compare the lib.rs part with the stdin output
            if o2 and o2 not in o1:
                if rep.violation("e2e_path_vs_stdin", {"text": text, "range": [a, b], "file_spelling": spelled, "path_out": o1, "stdin_out": o2, "stderr": (e1 + e2)[-300:]},
                                 "lines %d-%d selected for the path %r and for stdin give different texts" % (a, b, spelled)):
                    found += 1
            # in place: a file not named in the selection is not rewritten
            rc3, o3, e3 = common.sh([common.bin_path("rustfmt"), "--unstable-features", "--file-lines", sel_path, spelled], cwd=d, env=env, timeout=60)
            if open(os.path.join(d, "m.rs")).read() != mtext:
                if rep.violation("e2e_unnamed_file_written", {"text": text, "range": [a, b], "file_spelling": spelled},
                                 "m.rs is not named in the selection %s but was rewritten" % sel_path):
                    found += 1
            open(os.path.join(d, "lib.rs"), "w").write(text)
            open(os.path.join(d, "m.rs"), "w").write(mtext)
    shutil.rmtree(d, ignore_errors=True)
    rep.coverage["binary_selection_runs"] = n
    return found


def run(tier, seed, replay):
    return common.standard_run(
        PROP, tier, seed, replay,
        dirs=["C17"], props_file="C17/Props.v", trusted=TRUSTED, gen_cases=gen_cases, vh_sub="c17",
        imports="From V Require Import Base.Text C17.Model C17.Run.\nOpen Scope N_scope.",
        model_expr=model_expr, canon_model=canon_model, canon_impl=canon_impl, oracle=oracle,
        nontrivial=nontrivial,
        extra=e2e,
        rule="seeded random selections: 1-2 files x 0..5 ranges each over lines 0..17 (20% possibly empty lo>hi, singletons, overlapping, adjacent), stdin / existing / non-canonicalisable file names, 6 query ranges + 4 range pairs per case; non-trivial = queried file has >= 2 ranges; distinct by hash",
        ties=["C17"],
    )
