"""C17 — file_lines confines changes to the selected code (range algebra part)."""
from . import common, coqterm

PROP = "C17"
TRUSTED = [
    "Coq 8.16.1 kernel (coqc); vm_compute evaluates the model in cases.v; no native_compute",
    "Print Assumptions of every theorem in coq/C17/Props.v: Closed under the global context (checked each run)",
    "hand-written model coq/C17/Model.v of Range::{is_empty,contains,intersects,adjacent_to,merge}, normalize_ranges (with the retain of the fix: commit), FileLines queries; tied to the code by the correspondence run through hook config::file_lines::verif",
    "Rust's Vec::sort is a correct sort on the derived total order (theorem sort_model_harmless: the sorted permutation is unique)",
    "HashMap lookup by FileName and path canonicalisation are modelled abstractly (file ids; canon = None)",
    "usize overflow of hi + 1 at usize::MAX not modelled",
]


def rrange(rnd, hi=12):
    k = rnd.random()
    a = rnd.randint(0, hi)
    if k < 0.2:
        b = rnd.randint(0, hi)           # may be empty (lo > hi)
    elif k < 0.3:
        b = a
    else:
        b = a + rnd.randint(0, 5)
    return [a, b]


def gen_cases(tier, seed):
    rnd = common.rng(seed, PROP)
    n = 1500 if tier == "quick" else 30000
    cases = [
        {"files": [["stdin", [[1, 5], [3, 2], [4, 8]]]], "qfile": "stdin", "queries": [[2, 7], [1, 8], [3, 2], [9, 9]], "pairs": [[[1, 5], [4, 8]], [[3, 2], [4, 8]]]},
        {"files": None, "qfile": "stdin", "queries": [[1, 1], [5, 2]], "pairs": []},
        {"files": [], "qfile": "stdin", "queries": [[1, 1], [5, 2], [0, 100]], "pairs": []},
        {"files": [["stdin", [[3, 2]]]], "qfile": "stdin", "queries": [[1, 1], [5, 2], [0, 100]], "pairs": []},
    ]
    for _ in range(n):
        nfiles = rnd.choice([1, 1, 1, 2])
        names = ["stdin", "/nonexistent/zz.rs", "/repo/src/lib.rs"]
        files = []
        for i in range(nfiles):
            files.append([names[i], [rrange(rnd) for _ in range(rnd.randint(0, 5))]])
        qfile = rnd.choice(names[:nfiles] + ["stdin"])
        queries = [rrange(rnd, 14) for _ in range(6)]
        pairs = [[rrange(rnd, 6), rrange(rnd, 6)] for _ in range(4)]
        cases.append({"files": files, "qfile": qfile, "queries": queries, "pairs": pairs})
    return cases


def file_id(name):
    return {"stdin": 0, "/nonexistent/zz.rs": 1, "/repo/src/lib.rs": 2}[name]


def model_expr(c):
    R = coqterm.render
    qs = [tuple(q) for q in c["queries"]]
    ps = [(tuple(p[0]), tuple(p[1])) for p in c["pairs"]]
    ops = "[" + "; ".join("run_range_ops %s %s" % (R(a), R(b)) for a, b in ps) + "]"
    if c["files"] is None:
        # FileLines::all()
        q = "map (fun q : N * N => (fl_contains_range fl_all (Some 0) (fst q) (snd q), fl_intersects fl_all (Some 0) (dec_range q), fl_contains_line fl_all (Some 0) (fst q))) %s" % R(qs)
        return "(@None (list (N*N)), %s, %s)" % (q, ops)
    m = [(file_id(f[0]), [tuple(r) for r in f[1]]) for f in c["files"]]
    f = file_id(c["qfile"])
    canon = "false" if c["qfile"] == "/nonexistent/zz.rs" else "true"
    mine = [rs for (fid, rs) in m if fid == f]
    norm = ("Some (run_normalize %s)" % R(mine[0])) if mine else "@None (list (N*N))"
    return "(%s, run_file_queries %s %d %s %s, %s)" % (norm, R(m), f, canon, R(qs), ops)


def canon_model(c, v):
    norm, qs, ops = v
    if isinstance(norm, coqterm.Ctor):
        norm = norm.args[0] if norm.name == "Some" else None
    return {"norm": coqterm.plain(norm), "queries": coqterm.plain(qs),
            "ops": [[a, b, cc, d, (coqterm.plain(e.args[0]) if isinstance(e, coqterm.Ctor) and e.name == "Some" else None)]
                    for (a, b, cc, d, e) in ops]}


def canon_impl(c, r):
    return {"norm": r["norm"], "queries": r["queries"], "ops": r["ops"]}


def U(rs, l):
    return any(a <= l <= b for a, b in rs)


def oracle(c, r):
    """C17's clauses about the selection, evaluated on the implementation's answers:
    overlapping/adjacent ranges behave as their union; an empty selection selects nothing."""
    bad = []
    if c["files"] is None:
        return bad
    rs = None
    for f in c["files"]:
        if f[0] == c["qfile"]:
            rs = f[1]
    canon_fail = c["qfile"] == "/nonexistent/zz.rs"
    sel = [] if (rs is None or canon_fail) else [x for x in rs]
    for q, (cr, it, cl) in zip(c["queries"], r["queries"]):
        a, b = q
        want_line = U(sel, a)
        if cl != want_line:
            bad.append(("contains_line_union", "contains_line(%d) = %s, union of %r says %s" % (a, cl, sel, want_line)))
        want_int = any(U(sel, l) for l in range(a, b + 1))
        if it != want_int:
            bad.append(("intersects_union", "intersects(%d,%d) = %s, union of %r says %s" % (a, b, it, sel, want_int)))
        if a <= b:
            want_cr = all(U(sel, l) for l in range(a, b + 1))
            if cr != want_cr:
                bad.append(("contains_range_union", "contains_range(%d,%d) = %s, union of %r says %s" % (a, b, cr, sel, want_cr)))
    if r["norm"] is not None:
        n = r["norm"]
        for (a, b), (a2, b2) in zip(n, n[1:]):
            if not (a <= b and b + 1 < a2):
                bad.append(("normal_form", "normalised ranges %r not sorted/disjoint/non-adjacent" % n))
    return bad


def nontrivial(c, r):
    if c["files"] is None:
        return False
    for f in c["files"]:
        if f[0] == c["qfile"] and len(f[1]) >= 2:
            return True
    return False


def run(tier, seed, replay):
    return common.standard_run(
        PROP, tier, seed, replay,
        dirs=["C17"], props_file="C17/Props.v", trusted=TRUSTED, gen_cases=gen_cases, vh_sub="c17",
        imports="From V Require Import Base.Text C17.Model C17.Run.\nOpen Scope N_scope.",
        model_expr=model_expr, canon_model=canon_model, canon_impl=canon_impl, oracle=oracle,
        nontrivial=nontrivial,
        rule="seeded random selections: 1-2 files x 0..5 ranges each over lines 0..17 (20% possibly empty lo>hi, singletons, overlapping, adjacent), stdin / existing / non-canonicalisable file names, 6 query ranges + 4 range pairs per case; non-trivial = queried file has >= 2 ranges; distinct by hash",
    )
