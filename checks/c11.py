"""C11 — reordering is a deterministic, order-insensitive permutation (comparator core + permutation oracle)."""
import itertools
import re

from . import common, coqterm

PROP = "C11"
TRUSTED = [
    "Coq 8.16.1 kernel (coqc); vm_compute evaluates the model in cases.v; no native_compute",
    "Print Assumptions of every theorem in coq/C11/Props.v: Closed under the global context (checked each run)",
    "hand-written model coq/C11/Model.v of sort.rs (VersionChunkIter, version_sort; usize = 64 bits) and reorder.rs compare_items; tied to the code by the correspondence run through hooks verif_hooks::order (version_sort, compare_items_matrix)",
    "Rust's slice::sort_by is a correct stable sort for a total preorder (theorem any_stable_sort_agrees makes the model's insertion sort stand for it; the run compares sort_by's result with the model's)",
    "Ord for UseSegment/UseTree (imports.rs) is not modelled here; covered only by the end-to-end permutation oracle",
    "str::cmp = lexicographic on code points (UTF-8 order)",
]
ALPHA = ["a", "B", "_", "0", "1", "9", "é", "b", "Z"]


def rand_ident(rnd):
    k = rnd.random()
    if k < 0.15:
        return rnd.choice(["a", "b", "x", "_"]) + "0" * rnd.randint(0, 3) + str(rnd.randint(0, 30))
    if k < 0.22:
        return rnd.choice(["a", "x"]) + str(rnd.choice([2 ** 64 - 1, 2 ** 64, 2 ** 64 + 5, 10 ** 25])) + rnd.choice(["", "b", "c", "_1"])
    n = rnd.randint(0, 6)
    return "".join(rnd.choice(ALPHA) for _ in range(n))


def valid_ident(s):
    import re
    return re.match(r"^[A-Za-z_][A-Za-z0-9_]*$", s) is not None and s != "_" and s not in ("as", "mod", "crate", "self", "super", "fn", "in", "if", "do", "Self")


def gen_cases(tier, seed):
    rnd = common.rng(seed, PROP)
    cases = []
    # comparator matrices over identifier universes
    nmat = 120 if tier == "quick" else 1500
    if tier == "thorough":
        # exhaustive: all strings of length <= 2 over the alphabet, in blocks
        uni = [""] + ["".join(p) for n in (1, 2) for p in itertools.product(ALPHA[:7], repeat=n)]
        for i in range(0, len(uni), 8):
            for j in range(0, len(uni), 8):
                names = uni[i:i + 8] + uni[j:j + 8]
                cases.append({"kind": "vsm", "names": names})
    cases.append({"kind": "vsm", "names": ["a18446744073709551616b", "a18446744073709551616c", "a", "a18446744073709551615", "a01", "a1", "a001", "x9", "x10", "_a", "a_", "A"]})
    for _ in range(nmat):
        names = [rand_ident(rnd) for _ in range(rnd.randint(2, 10))]
        cases.append({"kind": "vsm", "names": names})
    # families that share a prefix, so that numeric chunks meet at the same position
    NUMS = ["9", "10", "09", "010", "0", "00", "1", "100", str(2 ** 64 - 1), str(2 ** 64), str(10 ** 20), str(10 ** 21 + 5), "18446744073709551615", "99999999999999999999"]
    for _ in range(nmat // 3):
        pre = rnd.choice(["a", "x_", "B", "", "v1_"])
        suf = rnd.choice(["", "", "b", "_2"])
        names = [pre + n + suf for n in rnd.sample(NUMS, rnd.randint(3, 7))]
        if pre == "":
            names = ["n" + x for x in names]
        cases.append({"kind": "vsm", "names": names})
    # two numeric chunks: the names agree on the first one (value and zeros) and differ in the zeros of a later one
    for _ in range(nmat // 4):
        pre = rnd.choice(["x", "v", "b", "arm_v"])
        first = rnd.choice(["1", "86", "7", "01", "2"])
        sep = rnd.choice(["_", "c", "_x"])
        second = rnd.choice(["1", "64", "3"])
        names = [pre + first + sep + ("0" * z) + second for z in rnd.sample(range(0, 4), rnd.randint(2, 4))] + [pre + first + sep + "9", pre + first]
        rnd.shuffle(names)
        cases.append({"kind": "vsm", "names": names})
    # compare_items on mod / extern crate groups
    nit = 60 if tier == "quick" else 600
    for _ in range(nit):
        kind = rnd.choice([0, 1])
        items = []
        for _ in range(rnd.randint(2, 7)):
            ident = rand_ident(rnd)
            while not valid_ident(ident):
                ident = "a" + rand_ident(rnd).replace("é", "e")
                if not valid_ident(ident):
                    ident = "m%d" % rnd.randint(0, 99)
            orig = None
            if kind == 1 and rnd.random() < 0.4:
                orig = "c" + ("0" * rnd.randint(0, 2)) + str(rnd.randint(0, 12))
            items.append([kind, ident, orig])
        cases.append({"kind": "items", "se": rnd.choice(["2015", "2021", "2024"]), "items": items})
    # end-to-end: every permutation of a group formats to the same text
    nperm = 25 if tier == "quick" else 200
    for _ in range(nperm):
        n = rnd.randint(2, 4 if tier == "quick" else 5)
        form = rnd.choice(["mod", "extern", "use", "uselist"])
        names = set()
        while len(names) < n:
            s = rand_ident(rnd)
            if valid_ident(s) and len(s) < 12:
                names.add(s)
            elif rnd.random() < 0.15:
                names.add(rnd.choice(["r#match", "r#type", "r#a1", "r#B", "r#fn", "r#x10", "r#x9"]))
        # `B` next to `r#B` names one module twice (ranked equal, so their order is the input's): not a valid group
        names = {x for x in names if not (x.startswith("r#") and x[2:] in names)}
        if len(names) < 2:
            names |= {"a1", "a2"}
        names = sorted(names)
        if form in ("mod", "extern") and any(x in ("r#match", "r#type", "r#fn") for x in names) and form == "extern":
            names = [x for x in names if not x.startswith("r#")] or ["a1", "a2"]
        if form == "mod":
            decls = ["mod %s;" % x for x in names]
        elif form == "extern":
            decls = ["extern crate %s;" % x for x in names]
        elif form == "use":
            decls = ["use %s::x;" % x for x in names]
        else:
            decls = None
        texts = []
        for perm in itertools.permutations(names if decls is None else decls):
            if decls is None:
                texts.append("use root::{%s};\n" % ", ".join(perm))
            else:
                texts.append("\n".join(perm) + "\n")
        se = rnd.choice(["2015", "2021", "2024"])
        cases.append({"kind": "perms", "config": [["style_edition", se]], "texts": texts, "names": names, "form": form})
    # large groups (> 20 declarations, where an unstable sort would differ from a stable one) holding imports that
    # differ only in their alias: ranked equal, they keep their relative order; every shuffle that keeps it gives one text
    SEG = ["alpha", "beta", "chi", "delta", "eta", "gamma", "iota", "kappa", "mid", "mu", "nu", "omega", "pi", "rho", "sigma", "tau", "fmt", "io", "Result", "Write", "x9", "x10", "B", "_u"]
    nlarge = 6 if tier == "quick" else 60
    for _ in range(nlarge):
        n = rnd.randint(22, 34)
        paths = set()
        while len(paths) < n:
            paths.add("::".join(rnd.choice(SEG) for _ in range(rnd.randint(2, 3))))
        paths = sorted(paths)
        decls = ["use %s;" % q for q in paths]
        pairs = []
        for q in rnd.sample(paths, rnd.randint(1, 3)):
            al = "use %s as Al%d;" % (q, len(pairs))
            pairs.append(("use %s;" % q, al))
            decls.append(al)
        first_first = rnd.random() < 0.5
        texts = []
        for _ in range(10):
            perm = list(decls)
            rnd.shuffle(perm)
            for plain, al in pairs:       # fix the relative order of every alias-equal pair
                i, j = perm.index(plain), perm.index(al)
                lo, hi = min(i, j), max(i, j)
                perm[lo], perm[hi] = (plain, al) if first_first else (al, plain)
            texts.append("\n".join(perm) + "\n")
        cases.append({"kind": "perms", "config": [["style_edition", rnd.choice(["2015", "2024"])]], "texts": texts, "names": paths, "form": "use_large"})
    # one name in its plain and its raw spelling (r#foo / foo rank equal from style edition 2024 on), with and without aliases, next to
    # longer paths through it: the equal-ranked spellings keep their relative order, every shuffle that keeps it gives one text
    nraw = 10 if tier == "quick" else 120
    for _ in range(nraw):
        b = rnd.choice(["foo", "alpha", "x10", "Beta", "a1"])
        cls = rnd.sample(["use %s as z;" % b, "use r#%s as y;" % b, "use %s;" % b, "use r#%s;" % b, "use %s as w;" % b], rnd.randint(2, 3))
        others = rnd.sample(["use %s::bar;" % b, "use r#%s::baz;" % b, "use %s::r#qux;" % b, "use fop;", "use fon::x;", "use %s0;" % b, "use r#%sa;" % b], rnd.randint(1, 3))
        decls = cls + others
        texts = []
        for _k in range(10):
            perm = list(decls)
            rnd.shuffle(perm)
            idx = sorted(perm.index(x) for x in cls)
            for i, x in zip(idx, cls):      # the equal-ranked spellings in one fixed relative order
                perm[i] = x
            texts.append("\n".join(perm) + "\n")
        cases.append({"kind": "perms", "config": [["style_edition", rnd.choice(["2024", "2024", "2015"])]], "texts": texts, "names": decls, "form": "use_raw_alias"})
    # nested lists whose entries share leading segments and are not yet normalised (one-element lists, unsorted inner lists)
    nnest = 12 if tier == "quick" else 150
    for _ in range(nnest):
        def entry(depth):
            head = rnd.choice(["p", "q", "io", "fmt"])
            k = rnd.random()
            if depth < 2 and k < 0.6:
                inner = [entry(depth + 1) for _ in range(rnd.randint(1, 3))]
                return (head, inner)
            return (head + "::" + rnd.choice(["a", "z", "m", "n", "BufRead", "Write", "x2", "x10"]), None)
        top = [entry(0) for _ in range(rnd.randint(2, 4))]
        def render(e, shuffle):
            head, inner = e
            if inner is None:
                return head
            inner = list(inner)
            if shuffle:
                rnd.shuffle(inner)
            return "%s::{%s}" % (head, ", ".join(render(x, shuffle) for x in inner))
        texts = []
        for k in range(8):
            tp = list(top)
            if k:
                rnd.shuffle(tp)
            texts.append("use y::{%s};\n" % ", ".join(render(e, k > 0) for e in tp))
        if len(set(texts)) > 1:
            cases.append({"kind": "perms", "config": [["style_edition", rnd.choice(["2015", "2024"])]], "texts": texts, "names": [], "form": "use_nested"})
    # group boundaries: an element never crosses a blank line (mod / extern crate always; use unless regrouping),
    # a #[macro_use] item, a skipped item or an item of another kind
    nb = 40 if tier == "quick" else 500
    for _ in range(nb):
        form = rnd.choice(["mod", "extern", "use"])
        names = set()
        while len(names) < 6:
            x = rand_ident(rnd)
            if valid_ident(x) and len(x) < 10 and not overflow_name(x):
                names.add(x)
        names = list(names)
        rnd.shuffle(names)
        g1, g2 = names[:3], names[3:]
        decl = {"mod": "mod %s;", "extern": "extern crate %s;", "use": "use %s::y;"}[form]
        boundary = rnd.choice(["blank", "macro_use", "macro_use_list", "skip", "skip_old", "other_kind"])
        if boundary == "blank":
            mid = ""
        elif boundary == "macro_use":
            mid = "#[macro_use]\n" + (decl % "zz_macro")
        elif boundary == "macro_use_list":
            mid = rnd.choice(["#[macro_use(lazy_static)]\n", "#[macro_use(zq_one, zq_two)]\n", "#[doc(hidden)]\n#[macro_use(zq_m)]\n"]) + (decl % "zz_macro")
        elif boundary == "skip_old":
            mid = rnd.choice(["#[rustfmt_skip]\n", "#[cfg_attr(rustfmt, rustfmt::skip)]\n"]) + (decl % "zz_skip")
        elif boundary == "skip":
            mid = "#[rustfmt::skip]\n" + (decl % "zz_skip")
        else:
            mid = "const ZZ_OTHER: u8 = 0;" if form != "use" else "mod zz_other;"
        def spell(x):
            # some imports are spelled with a brace list (or a glob) at the ROOT of the path: `use {x::y, x::w};`
            if form == "use" and rnd.random() < 0.3:
                return rnd.choice(["use {%s::y, %s::w};", "use {%s::y, other_root::%s};", "use {%s::*, %s::w};"]) % (x, x)
            return decl % x
        text = "\n".join(spell(x) for x in g1) + "\n" + mid + "\n" + "\n".join(spell(x) for x in g2) + "\n"
        cfg = [["style_edition", rnd.choice(["2015", "2024"])], ["group_imports", rnd.choice(["Preserve", "StdExternalCrate", "One"])],
               ["reorder_imports", rnd.choice(["true", "true", "false"])], ["reorder_modules", rnd.choice(["true", "true", "false"])]]
        cases.append({"kind": "perms", "config": cfg, "texts": [text], "names": names, "form": form, "boundary": boundary, "g1": g1, "g2": g2})
    return cases


def model_expr(c):
    R = coqterm.render
    if c["kind"] == "vsm":
        ns = R(c["names"])
        return "(let ns := %s in (map (fun a => map (fun b => run_vs a b) ns) ns, run_sort_names ns))" % ns
    if c["kind"] == "items":
        its = "[" + "; ".join("(%d, %s, %s)" % (k, R(i), ("Some " + R(o)) if o is not None else "@None text") for k, i, o in c["items"]) + "]"
        return "(let its := %s in map (fun a => map (fun b => run_items %s a b) its) its)" % (its, c["se"])
    return "0"


def canon_model(c, v):
    if c["kind"] == "vsm":
        m, srt = v
        return {"matrix": coqterm.plain(m), "sorted": [coqterm.untext(x) for x in srt]}
    if c["kind"] == "items":
        return {"matrix": coqterm.plain(v)}
    return None


def canon_impl(c, r):
    if c["kind"] == "vsm":
        return {"matrix": r["matrix"], "sorted": r["sorted"]}
    if c["kind"] == "items":
        return {"matrix": r["matrix"]}
    return None


OPP = {0: 2, 1: 1, 2: 0}


def overflow_name(s):
    import re
    return any(int(d) >= 2 ** 64 for d in re.findall(r"[0-9]+", s))


def oracle(c, r):
    bad = []
    if c["kind"] in ("vsm", "items"):
        m = r["matrix"]
        if m is None:
            return [("items_unparsable", "harness could not parse the generated items: %r" % c)]
        n = len(m)
        for i in range(n):
            if m[i][i] != 1:
                bad.append(("cmp_refl", "cmp(x,x) != Equal for element %d of %r" % (i, c)))
            for j in range(n):
                if m[j][i] != OPP[m[i][j]]:
                    bad.append(("cmp_antisym", "cmp(%d,%d)=%d but cmp(%d,%d)=%d in %r" % (i, j, m[i][j], j, i, m[j][i], c)))
                for k in range(n):
                    if m[i][j] in (0, 1) and m[j][k] in (0, 1) and m[i][k] == 2:
                        bad.append(("cmp_trans", "cmp not transitive on elements %d,%d,%d of %r" % (i, j, k, c)))
                    if m[i][j] == 1 and m[i][k] != m[j][k]:
                        bad.append(("cmp_eq_cong", "Equal is not a congruence on elements %d,%d,%d of %r" % (i, j, k, c)))
            if bad:
                break
        if c["kind"] == "vsm" and not bad:
            names = c["names"]
            for i in range(n):
                for j in range(n):
                    if m[i][j] == 1 and names[i] != names[j]:
                        key = "vs_eq_distinct_overflow" if (overflow_name(names[i]) or overflow_name(names[j])) else "vs_eq_distinct"
                        bad.append((key, "version_sort ranks distinct identifiers Equal: %r vs %r" % (names[i], names[j])))
    if c["kind"] == "perms" and "boundary" in c:
        out = r["outs"][0]
        if out is None:
            return [("perm_format_failed", "formatting failed for %r" % c["texts"][0])]
        cfgd = dict(c["config"])
        regroup = c["form"] == "use" and cfgd["group_imports"] != "Preserve"
        if c["boundary"] == "blank" and regroup:
            return bad          # regrouping merges the blank-line groups of imports (allowed)
        order = []
        for ln in out.split("\n"):
            for x in c["names"] + ["zz_macro", "zz_skip", "zz_other", "ZZ_OTHER"]:
                if re.search(r"\b%s\b" % re.escape(x), ln):
                    order.append(x)
        def pos(x):
            return order.index(x) if x in order else -1
        if any(pos(x) < 0 for x in c["names"]):
            return [("boundary_element_lost", "a declaration is missing from %r" % out)]
        if c["boundary"] == "blank":
            # the blank line must still separate the two groups
            blocks = [b for b in re.split(r"\n\s*\n", out.strip()) if b.strip()]
            sets = [set(x for x in c["names"] if re.search(r"\b%s\b" % re.escape(x), b)) for b in blocks]
            if sets != [set(c["g1"]), set(c["g2"])]:
                bad.append(("boundary_crossed", "%s declarations moved across a blank line (%r): %r -> %r" % (c["form"], c["config"], c["texts"][0], out)))
        else:
            marker = {"macro_use": "zz_macro", "macro_use_list": "zz_macro", "skip": "zz_skip", "skip_old": "zz_skip", "other_kind": "zz_other" if c["form"] == "use" else "ZZ_OTHER"}[c["boundary"]]
            m = pos(marker)
            if m < 0 or not (all(pos(x) < m for x in c["g1"]) and all(pos(x) > m for x in c["g2"])):
                bad.append(("boundary_crossed", "%s declarations moved across a %s item (%r): %r -> %r" % (c["form"], c["boundary"], c["config"], c["texts"][0], out)))
        return bad
    if c["kind"] == "perms":
        outs = r["outs"]
        if any(o is None for o in outs):
            return [("perm_format_failed", "formatting failed for some permutation of %r" % c["names"])]
        if len(set(outs)) != 1:
            key = "perm_order_dependent_overflow" if any(overflow_name(x) for x in c["names"]) else "perm_order_dependent"
            bad.append((key, "permutations of %r (%s, %r) format to %d different texts" % (c["names"], c["form"], c["config"], len(set(outs)))))
        else:
            # the output contains exactly the input's elements
            for x in c["names"]:
                if outs[0].count(x) < 1:
                    bad.append(("perm_element_lost", "element %r missing from output %r" % (x, outs[0])))
    return bad


def nontrivial(c, r):
    if c["kind"] in ("vsm", "items"):
        return r.get("matrix") is not None and len(r["matrix"]) >= 3
    return len(c["texts"]) >= 6 or "boundary" in c


def run(tier, seed, replay):
    return common.standard_run(
        PROP, tier, seed, replay,
        dirs=["C11"], props_file="C11/Props.v", trusted=TRUSTED, gen_cases=gen_cases, vh_sub="c11",
        imports="From V Require Import Base.Text C11.Ord C11.Model C11.Run.\nOpen Scope N_scope.",
        model_expr=model_expr,
        canon_model=canon_model, canon_impl=canon_impl, oracle=oracle, nontrivial=nontrivial,
        rule="(a) version_sort comparison matrices + sort_by over identifier lists (alphabet a B _ 0 1 9 é b Z, leading zeros, numbers around 2^64) compared with the model; (b) compare_items matrices for generated mod / extern crate groups under style editions 2015/2021/2024; (c) end to end: every permutation of a group of 2..5 mod / extern crate / use declarations / use-list names, 10 shuffles of groups of 22..34 imports containing alias-only pairs (relative order of each pair kept), 10 shuffles of groups holding one name in its plain and raw spelling with and without aliases next to longer paths through it (relative order of the equal-ranked spellings kept), and 8 shuffles (at every level) of nested import lists with repeated leading segments, are formatted and must give one text. non-trivial = >= 3 elements (>= 6 permutations); distinct by hash",
        per_file=40,
    )
