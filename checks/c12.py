"""C12 — diff-based reports reconstruct the formatted text exactly."""
import itertools
import json
import os
import xml.etree.ElementTree as ET

from . import common, coqterm
from .common import log

PROP = "C12"
TRUSTED = [
    "Coq 8.16.1 kernel (coqc); vm_compute used to evaluate the model in cases.v; no native_compute",
    "Print Assumptions of every theorem in coq/C12/Props.v: Closed under the global context (checked on each run)",
    "hand-written model coq/C12/Model.v of diff::lines (diff 0.1.12), make_diff, ModifiedLines::from, json/checkstyle line arithmetic, XmlEscaped; tied to the code by the correspondence run (hook verif_hooks::diff, emit_files)",
    "Base/Text.v model of str::lines / split_inclusive (compared through diff_script)",
    "model of ModifiedLines Display / FromStr (print_modified, parse_modified: u32/usize decimal printing and parsing, split_terminator, split_whitespace, usize = 64 bit); tied to the code by the correspondence run on generated reports and texts (public API ModifiedLines/ModifiedChunk, no hook); parse_modified_pre (the parser before 686d4f4) has no implementation left to compare with",
    "python oracles of this check (apply chunks, hunk consistency), python json / xml.etree parsers for well-formedness",
    "serde_json string escaping is not modelled (documents are parsed by an independent parser instead)",
]

ALPHA = ["a", "b", ""]


def texts(maxlen):
    out = []
    for n in range(0, maxlen + 1):
        for seq in itertools.product(ALPHA, repeat=n):
            body = "\n".join(seq)
            if n == 0:
                out.append("")
                out.append("\n")
            else:
                out.append(body)
                out.append(body + "\n")
    return sorted(set(out))


def rust_lines(t):
    """str::lines of the pinned toolchain"""
    parts = t.split("\n")
    had_final = t.endswith("\n")
    if parts and parts[-1] == "":
        parts = parts[:-1]
        fin = False
    else:
        fin = True  # last piece has no LF
    res = []
    for i, p in enumerate(parts):
        last_no_lf = fin and i == len(parts) - 1
        if not last_no_lf and p.endswith("\r"):
            p = p[:-1]
        res.append(p)
    return res


def dlines(t):
    return rust_lines(t) + ([""] if t.endswith("\n") else [])


def gen_cases(tier, seed):
    rnd = common.rng(seed, PROP)
    cases = []
    maxlen = 3 if tier == "quick" else 4
    ts = texts(maxlen)
    pairs = [(a, b) for a in ts for b in ts]
    if tier == "quick":
        # all pairs up to length 2 (exhaustive) + a seeded third of the length-3 pairs
        small = set(texts(2))
        pairs = [p for p in pairs if (p[0] in small and p[1] in small) or rnd.random() < 0.08]
    for (a, b) in pairs:
        for ctx in range(0, 4):
            cases.append({"a": a, "b": b, "ctx": ctx, "emit": ctx == 0})
    # random larger texts with odd characters (CR, specials, non-ASCII, form feed)
    words = ["fn main() {", "}", "    let x = 1;", "<a & 'b' \"c\">", "x\r", "", "  ", "é中", "1 2 3", "\x0c",
             "a &lt; b &amp;&amp; c", "&quot;q&quot; &apos; &gt;", "&amp;amp; &#60; &lt", "&& &mut x",
             # each special character ALONE on a line (an escaping shortcut keyed on some of them misses the others)
             "    a < b", "    a << b", "while i <= n {", "x > y", "p & q", "say \"hi", "it's", "<", ">", "&", "\"", "'", "<<<", "a<b<c"]
    nrand = 300 if tier == "quick" else 3000
    for _ in range(nrand):
        la = [rnd.choice(words) for _ in range(rnd.randint(0, 9))]
        lb = list(la)
        for _ in range(rnd.randint(0, 4)):
            op = rnd.randint(0, 2)
            if op == 0 and lb:
                del lb[rnd.randrange(len(lb))]
            elif op == 1:
                lb.insert(rnd.randint(0, len(lb)), rnd.choice(words))
            elif lb:
                lb[rnd.randrange(len(lb))] = rnd.choice(words)
        sep_a = rnd.choice(["\n", "\n", "\r\n"])
        sep_b = rnd.choice(["\n", "\n", "\r\n"])
        a = sep_a.join(la) + rnd.choice(["", sep_a])
        b = sep_b.join(lb) + rnd.choice(["", sep_b])
        ctx = rnd.randint(0, 3)
        name = rnd.choice(["src/x.rs", "src/a&b.rs", "d<1>/m.rs", 'q"uote.rs', "it's.rs", "é/中.rs"])
        cases.append({"a": a, "b": b, "ctx": ctx, "emit": True, "name": name})
    return cases


# ---------------------------------------------------------------- ModifiedLines Display / FromStr cases

PP_LINES = ["", "x\r", "\r", "\r\r", "a\rb", "1 2 3", "2 0 0", "0 0 1", "7", "4294967295 0 0", "+1 1 0",
            "  lead", "trail  ", " ", "\t", "\x0c", "é中", "\U0001d518", "\u00a0", "\u3000x\u2028", "fn main() {", "}",
            "1 0 1\r", "-", "٣ ٣ ٣"]
PP_LF_LINES = ["a\nb", "a\n2 0 0", "\n", "x\r\n", "q\n 3 1 0 junk"]
PP_NUMS = [0, 1, 2, 3, 9, 10, 25, 99, 100, 65535, 4294967294, 4294967295]


def print_ml(chunks):
    """Display for ModifiedLines (only used to build input texts to mutate; never compared)"""
    return "".join("%d %d %d\n" % (o, r, len(ls)) + "".join(l + "\n" for l in ls) for (o, r, ls) in chunks)


def gen_pp_cases(tier, rnd):
    cases = []
    n = 320 if tier == "quick" else 3000
    for i in range(n):
        chunks = []
        for _ in range(rnd.randint(0, 4)):
            pool = PP_LINES + (PP_LF_LINES if i % 8 == 7 else [])
            lines = [rnd.choice(pool) for _ in range(rnd.choice([0, 0, 1, 1, 2, 3, 5]))]
            num = lambda: rnd.choice(PP_NUMS) if rnd.random() < 0.7 else rnd.randrange(1 << 32)
            chunks.append([num(), num(), lines])
        text = print_ml(chunks)
        # the text to parse: the printed one, or a mutation of it
        for _ in range(rnd.choice([0, 1, 1, 2, 3])):
            parts = text.split("\n")
            k = rnd.randrange(len(parts))
            m = rnd.randint(0, 13)
            if m == 0:
                text = text[:-1] if text.endswith("\n") else text + "\n"      # final newline dropped / doubled
            elif m == 1:
                parts[k] = parts[k].replace(" ", rnd.choice(["\t", "  ", "\u00a0", "\u3000", "\r", " \x0b ", "\u200b", "\x1f"]), rnd.randint(1, 2))
            elif m == 2:
                parts[k] = rnd.choice(["+", " ", "00", "-", "\t+", "+0", "++"]) + parts[k]
            elif m == 3:
                parts[k] = parts[k] + rnd.choice([" junk", " 7", "\r", " ", "x", " \r", "\u2029"])
            elif m == 4:
                parts[k] = rnd.choice(["4294967296 0 0", "0 4294967296 0", "0 0 4294967296", "1 1 18446744073709551615",
                                       "1 1 18446744073709551616", "99999999999999999999999 0 0", "1 0", "1", "", "a b c",
                                       "1 -1 0", "1 0 0x0", "1 0 ٠", "1e0 0 0", "1 0 0.0", "1 0 +0", "4294967295 4294967295 0"])
            elif m == 5 and len(parts) > 1:
                del parts[k]                                                     # a line too few / header lost
            elif m == 6:
                parts.insert(k, rnd.choice(PP_LINES))                            # a line too many
            elif m == 7:
                parts[k] = parts[k] + "\r"                                       # CRLF line ending
            elif m == 8:
                text = text.replace("\n", "\r\n")
            elif m == 9:
                ws = parts[k].split(" ")
                if len(ws) == 3 and ws[2].isdigit():
                    ws[2] = str(max(0, int(ws[2]) + rnd.choice([-1, 1])))        # count off by one
                    parts[k] = " ".join(ws)
            elif m == 10:
                text = text + rnd.choice(["0 0 0", "1 1 1", "1 1 1\nlast", "1 1 1\nlast\r", "\n", "\r", " "])
            # 11..13: leave as is
            if m in (1, 2, 3, 4, 5, 6, 7, 9):
                text = "\n".join(parts)
        cases.append({"pp": True, "chunks": chunks, "text": text})
    return cases


def pp_oracle(c, r):
    """print/parse clause evaluated on the implementation's own results"""
    if "panic" in r:
        return [("panic", "ModifiedLines Display/FromStr panicked: " + r["panic"])]
    lines = [l for ch in c["chunks"] for l in ch[2]]
    if not any("\n" in l for l in lines) and r["reparsed"] != c["chunks"]:
        cr_line = any(l.endswith("\r") for l in lines)
        return [("roundtrip_cr" if cr_line else "roundtrip",
                 "ModifiedLines does not survive Display/FromStr: %r printed as %r parsed as %r" % (c["chunks"], r["printed"], r["reparsed"]))]
    if not r["fixpoint"]:
        return [("parse_print_parse", "text %r parses to %r, which does not survive Display/FromStr" % (c["text"], r["parsed"]))]
    return []


def pp_exprs(cases):
    return ["pp_case %s %s" % (coqterm.render([(o, r, list(ls)) for (o, r, ls) in c["chunks"]]), coqterm.text(c["text"]))
            for c in cases]


def pp_canon(vals):
    T = coqterm.untext

    def chunks(v):
        # `Some [..]` is read as an application of Some, `None` as None
        if v is None:
            return None
        cs = v.args[0] if isinstance(v, coqterm.Ctor) else v
        return [[o, r, [T(l) for l in ls]] for (o, r, ls) in cs]
    return [{"printed": T(p), "reparsed": chunks(rp), "parsed": chunks(pa)} for (p, rp, pa) in vals]


# ---------------------------------------------------------------- oracles on the implementation's results


def apply_chunks(orig, chunks):
    out = []
    pos = 1
    rest = list(orig)
    for (lo, rem, lines) in chunks:
        if lo < pos:
            return None
        k = lo - pos
        if len(rest) < k + rem:
            return None
        out += rest[:k] + list(lines)
        rest = rest[k + rem:]
        pos = lo + rem
    return out + rest


def oracle(case, r):
    """the statement of C12 evaluated on the implementation's own results; returns list of (key, what)"""
    bad = []
    a, b, ctx = case["a"], case["b"], case["ctx"]
    la, lb = dlines(a), dlines(b)
    if "panic" in r:
        return [("panic", "make_diff panicked: " + r["panic"])]
    # modified-lines reconstructs
    ml = [(c[0], c[1], c[2]) for c in r["ml"]]
    got = apply_chunks(la, ml)
    if got != lb:
        bad.append(("apply", "chunks applied to the original give %r, formatted lines are %r" % (got, lb)))
    # empty iff same lines
    if (len(r["mm"]) == 0) != (la == lb):
        bad.append(("empty_iff", "report empty=%s but same-lines=%s" % (len(r["mm"]) == 0, la == lb)))
    # hunks consistent with both texts
    prev_o = prev_n = 0
    for (ln, lo, lines) in r["mm"]:
        o_side = [s for (k, s) in lines if k in (0, 2)]
        n_side = [s for (k, s) in lines if k in (0, 1)]
        if la[lo - 1:lo - 1 + len(o_side)] != o_side or lo < 1:
            bad.append(("hunk_orig", "hunk at orig line %d: %r vs text %r" % (lo, o_side, la[lo - 1:lo - 1 + len(o_side)])))
        if lb[ln - 1:ln - 1 + len(n_side)] != n_side or ln < 1:
            bad.append(("hunk_new", "hunk at new line %d: %r vs text %r" % (ln, n_side, lb[ln - 1:ln - 1 + len(n_side)])))
        if lo < prev_o or ln < prev_n:
            bad.append(("hunk_order", "hunks overlap or are out of order"))
        prev_o, prev_n = lo + len(o_side), ln + len(n_side)
    # print / parse round trip
    if not r["roundtrip"]:
        cr_line = any(l.endswith("\r") for c in ml for l in c[2])
        bad.append(("roundtrip_cr" if cr_line else "roundtrip", "ModifiedLines does not survive Display/FromStr: %r" % r["printed"]))
    em = r.get("emit") or {}
    if em:
        # json: well-formed, same numbers and texts as the chunks
        try:
            doc = json.loads(em["json"]["out"])
            blocks = doc[0]["mismatches"] if doc else []
            if doc and not ml:
                # "a report is empty exactly when the two texts have the same lines"
                bad.append(("json_nonempty", "the two texts have the same lines (no chunk) but the json report is not empty: %r" % (em["json"]["out"][:200],)))
            if ml and not doc:
                bad.append(("json_empty", "the texts differ in %d chunks but the json report is empty" % len(ml)))
            if len(blocks) != len(ml):
                bad.append(("json_blocks", "json has %d blocks, report has %d chunks" % (len(blocks), len(ml))))
            for blk, (lo, rem, lines) in zip(blocks, ml):
                exp = "".join(l + "\n" for l in lines)
                if blk["original_begin_line"] != lo or blk["expected"] != exp:
                    bad.append(("json_block", "json block %r vs chunk %r" % (blk, (lo, rem, lines))))
                orig = "".join(l + "\n" for l in la[lo - 1:lo - 1 + rem])
                if blk["original"] != orig:
                    bad.append(("json_original", "json original %r vs text %r" % (blk["original"], orig)))
                if rem > 0 and blk["original_end_line"] != lo + rem - 1:
                    bad.append(("json_oend", "original_end_line %r" % blk))
                # a block without lines on one side still names a line there (inclusive range, 1-based): never an inverted
                # range, never line 0
                if rem == 0 and not (blk["original_end_line"] >= blk["original_begin_line"] >= 1):
                    bad.append(("json_oend", "inverted / zero original range of an insert-only block %r" % blk))
                if len(lines) == 0 and not (blk["expected_end_line"] >= blk["expected_begin_line"] >= 1):
                    bad.append(("json_eend", "inverted / zero expected range of a delete-only block %r" % blk))
                if len(lines) > 0 and blk["expected_end_line"] != blk["expected_begin_line"] + len(lines) - 1:
                    bad.append(("json_eend", "expected_end_line %r" % blk))
                eb = blk["expected_begin_line"]
                if lb[eb - 1:eb - 1 + len(lines)] != list(lines):
                    bad.append(("json_ebegin", "expected_begin_line %d does not point at the expected lines" % eb))
        except (ValueError, KeyError, IndexError) as e:
            bad.append(("json_wellformed", "json document not well-formed: %s" % e))
        # checkstyle: well-formed XML, line numbers name lines of the formatted text
        xml = em["checkstyle"]["out"]
        try:
            root = ET.fromstring(xml)
            fe = root.find("./file")
            if fe is None or fe.get("name") != case.get("name", "src/x.rs"):
                bad.append(("checkstyle_name", "file name attribute %r" % (fe.get("name") if fe is not None else None)))
            errs = root.findall("./file/error")
            n_exp = sum(len(c[2]) for c in ml)
            if len(errs) != n_exp:
                bad.append(("checkstyle_count", "%d errors, %d expected lines" % (len(errs), n_exp)))
            for e in errs:
                n = int(e.get("line"))
                msg = e.get("message")
                want = "Should be `%s`" % (lb[n - 1] if 0 < n <= len(lb) else None)
                if norm_attr(want) != msg:
                    bad.append(("checkstyle_line", "error line %d message %r, formatted line is %r" % (n, msg, want)))
        except ET.ParseError as e:
            forbidden = any((ord(ch) < 32 and ch not in "\t\n\r") for c in ml for l in c[2] for ch in l)
            name_special = any(ch in case.get("name", "") for ch in "&<\"")
            bad.append(("checkstyle_forbidden_char" if forbidden else ("checkstyle_name_unescaped" if name_special else "checkstyle_wellformed"),
                        "checkstyle document not well-formed: %s" % e))
        # modified-lines emitter prints the same report
        if em["modified_lines"]["out"] != r["printed"]:
            bad.append(("ml_emitter", "emitter output differs from Display"))
    return bad


def norm_attr(s):
    # XML attribute value normalisation: tab/newline/CR -> space
    return s.replace("\t", " ").replace("\n", " ").replace("\r", " ")


# ---------------------------------------------------------------- model side


def model_results(cases, pp_cases=()):
    """(results of `case` for cases, results of `pp_case` for pp_cases); one sharded coqc run for both"""
    exprs = ["case %d %s %s" % (c["ctx"], coqterm.text(c["a"]), coqterm.text(c["b"])) for c in cases]
    exprs += pp_exprs(pp_cases)
    if not exprs:
        return [], []
    vals = common.run_coq_cases("From V Require Import Base.Text C12.Model C12.Run.\nOpen Scope N_scope.", "", exprs, "c12")
    return vals[:len(cases)], pp_canon(vals[len(cases):])


def canon_model(v):
    script, mm, ml, jb, cs = v
    T = coqterm.untext
    return {
        "script": [[k, T(s)] for (k, s) in script],
        "mm": [[ln, lo, [[k, T(s)] for (k, s) in lines]] for (ln, lo, lines) in mm],
        "ml": [[lo, rem, [T(l) for l in lines]] for (lo, rem, lines) in ml],
        "json": [[a, b, c, d, T(o), T(e)] for (a, b, c, d, o, e) in jb],
        "cs": [[n, T(m)] for (n, m) in cs],
    }


def canon_impl(r):
    out = {"script": r["script"], "mm": r["mm"], "ml": r["ml"]}
    em = r.get("emit") or {}
    if em:
        try:
            doc = json.loads(em["json"]["out"])
            blocks = doc[0]["mismatches"] if doc else []
            out["json"] = [[b["original_begin_line"], b["original_end_line"], b["expected_begin_line"],
                            b["expected_end_line"], b["original"], b["expected"]] for b in blocks]
        except Exception:
            out["json"] = "unparsable"
        import re
        out["cs"] = [[int(n), m] for (n, m) in re.findall(
            r'<error line="(\d+)" severity="warning" message="Should be `(.*?)`" />', em["checkstyle"]["out"], re.S)]
    return out


def printed_diff_stream(rep, tier, seed):
    """the diff as PRINTED by `rustfmt --check` (titles `Diff in FILE:N:` followed by ' ' / '-' / '+' lines): every context and
    removed line is the line of the original at the stated number, every context and added line the line of the formatted text"""
    import re
    import shutil
    import subprocess
    okb, blog, _ = common.build_bins()
    if not okb:
        raise RuntimeError("build of /repo binaries failed:\n" + blog)
    env = common.rust_env()
    env.pop("CARGO_TARGET_DIR", None)
    rnd = common.rng(seed, PROP + "printed")
    d = os.path.join(common.CACHE, "c12printed")
    found = n = 0
    for ci in range(40 if tier != "thorough" else 600):
        shutil.rmtree(d, ignore_errors=True)
        os.makedirs(d)
        lines = []
        for u in range(rnd.randint(2, 5)):
            kind = rnd.choice(["split", "join", "fix", "fix", "blank"])
            if kind == "split":
                lines.append("fn s%d() {} fn t%d() {}" % (u, u))                 # one line becomes two (more added than removed)
            elif kind == "join":
                lines += ["fn j%d(" % u, ") {", "}"]                                # three lines become one
            elif kind == "blank":
                lines += ["", "", ""]                                               # blank lines are dropped
            else:
                lines.append("fn  x%d( ) {}" % u)
            for k in range(rnd.randint(0, 9)):                                      # a run of clean lines: every gap from 0 to 9
                lines.append("fn c%d_%d() {}" % (u, k))
        text = "\n".join(lines) + "\n"
        f = os.path.join(d, "a.rs")
        open(f, "w").write(text)
        pr = subprocess.run([common.bin_path("rustfmt"), "--check", "--color", "never", "--config-path", "/dev/null", f], capture_output=True, text=True, env=dict(os.environ, **env), timeout=60)
        pf = subprocess.run([common.bin_path("rustfmt"), "--emit", "stdout", "-q", "--config-path", "/dev/null", f], capture_output=True, text=True, env=dict(os.environ, **env), timeout=60)
        if pr.returncode not in (0, 1) or pf.returncode != 0:
            continue
        n += 1
        orig, fmt = text.split("\n"), pf.stdout.split("\n")
        bad = None
        shift = 0                   # formatted line number = original line number + shift, between hunks
        cur_o = cur_f = None
        for ln in pr.stdout.split("\n"):
            m = re.match(r"^Diff in .*?:(\d+):$", ln)
            if m:
                cur_o = int(m.group(1))
                cur_f = cur_o + shift
                continue
            if cur_o is None or ln == "":
                continue
            tag, body = ln[0], ln[1:]
            if tag in " -":
                if cur_o - 1 >= len(orig) or orig[cur_o - 1] != body:
                    bad = "line %r is printed as original line %d, which is %r" % (body, cur_o, orig[cur_o - 1] if cur_o - 1 < len(orig) else None)
                    break
                cur_o += 1
            if tag in " +":
                if cur_f - 1 >= len(fmt) or fmt[cur_f - 1] != body:
                    bad = "line %r is printed as formatted line %d, which is %r" % (body, cur_f, fmt[cur_f - 1] if cur_f - 1 < len(fmt) else None)
                    break
                cur_f += 1
            if tag == "+":
                shift += 1
            elif tag == "-":
                shift -= 1
        if (pr.returncode == 1) != (text != pf.stdout):
            bad = bad or "--check exits %d although original %s formatted" % (pr.returncode, "==" if text == pf.stdout else "!=")
        if bad:
            if rep.violation("printed_diff_inconsistent", {"input": text, "check_stdout": pr.stdout, "formatted": pf.stdout}, "the diff printed by --check is not consistent with the two texts: %s" % bad):
                found += 1
    shutil.rmtree(d, ignore_errors=True)
    rep.coverage["printed_diff_runs"] = n
    return found


def run(tier, seed, replay):
    rep = common.Reporter(PROP, tier, seed, "proof")
    rep.assumptions = TRUSTED
    # 1-2. prove
    cr = common.coq_phase(["C12"], "C12/Props.v")
    common.coq_coverage(rep, cr, "cd coq && make C12/Props.vo && coqc -Q . V C12/Props.v  (hygiene grep + Print Assumptions allow-list)", TRUSTED)
    proof_ok = cr.ok
    if not proof_ok:
        log("C12: proof phase failed: built=%s hygiene=%s bad_assumptions=%s\n%s" % (cr.built, cr.hygiene, cr.bad_assumptions, cr.build_log[-1500:]))
    # 3. build implementation
    ok, blog, bt = common.build_harness()
    if not ok:
        raise RuntimeError("harness build failed:\n" + blog)
    # 4. correspond
    if replay:
        cases = [json.load(open(replay))["case"]]
        pp_cases = [c for c in cases if c.get("pp")]
        cases = [c for c in cases if not c.get("pp")]
    else:
        cases = gen_cases(tier, seed)
        pp_cases = gen_pp_cases(tier, common.rng(seed, PROP + "pp"))
    impl = common.run_vh("c12", cases) if cases else []
    pp_impl = common.run_vh("c12", pp_cases) if pp_cases else []
    model_ok = True
    try:
        have_model = cr.built or os.path.exists(os.path.join(common.COQ, "C12/Run.vo"))
        model, pp_model = model_results(cases, pp_cases) if have_model else (None, None)
    except Exception as e:
        log("C12: model evaluation failed: %s" % e)
        model = None
        pp_model = None
    disagreements = []
    nontrivial = set()
    if model is not None:
        for c, r, m in zip(cases, impl, model):
            if "panic" in r:
                disagreements.append((c, "impl panicked", r))
                continue
            cm = canon_model(m)
            ci = canon_impl(r)
            for k in ci:
                if ci[k] != cm[k]:
                    disagreements.append((c, k, {"impl": ci[k], "model": cm[k]}))
                    break
        for c, r, m in zip(pp_cases, pp_impl, pp_model or []):
            if "panic" in r:
                disagreements.append((c, "impl panicked", r))
                continue
            for k in ("printed", "reparsed", "parsed"):
                if r[k] != m[k]:
                    disagreements.append((c, "pp_" + k, {"impl": r[k], "model": m[k]}))
                    break
    for c, r in zip(cases, impl):
        if "mm" in r and len(r["mm"]) >= 1:
            nontrivial.add(common.case_hash(c))
    pp_nontrivial = set()
    for c, r in zip(pp_cases, pp_impl):
        if any(ch[2] for ch in c["chunks"]) or r.get("parsed"):
            pp_nontrivial.add(common.case_hash(c))
    # 5. oracle on the implementation (always), search
    found = 0
    for c, r in zip(cases, impl):
        for key, what in oracle(c, r):
            if rep.violation(key, {"case": c, "impl": r}, what):
                found += 1
            break
    for c, r in zip(pp_cases, pp_impl):
        for key, what in pp_oracle(c, r):
            if rep.violation(key, {"case": c, "impl": r}, what):
                found += 1
            break
    if not replay:
        found += printed_diff_stream(rep, tier, seed)
    tie_broken = (not proof_ok) or model is None or pp_model is None or disagreements
    if tie_broken and found == 0:
        what = []
        if not proof_ok:
            what.append("theorems of coq/C12/Props.v no longer check (failed: %s; hygiene: %s; assumptions: %s)" % (cr.failed_files, cr.hygiene, cr.bad_assumptions))
        if model is None or pp_model is None:
            what.append("model could not be evaluated")
        if disagreements:
            what.append("correspondence model/implementation broken on %d cases, first: %r" % (len(disagreements), disagreements[0]))
        rep.violation("tie", {"broken": what, "first_disagreement": disagreements[:1]}, "; ".join(what), no_input=True)
    rep.coverage.update({
        "evaluations": len(cases) + len(pp_cases),
        "distinct_nontrivial": len(nontrivial) + len(pp_nontrivial),
        "rule": "pairs of texts over lines {a,b,empty} with/without final newline (exhaustive to length %s; seeded sample beyond) x context 0..3, plus seeded random edits of multi-line texts with CR / XML specials / non-ASCII; non-trivial = report has at least one hunk; distinct by hash of the case; plus %d generated ModifiedLines values (0..4 chunks, lines with CR / trailing CR / empty / header look-alikes / blanks / non-ASCII, one in eight with LF inside a line, u32 extremes) each with a text to parse (the printed text or a seeded mutation: white space, signs, zeros, overflow, counts off by one, CRLF, missing final newline): Display, FromStr of that and FromStr of the text compared with the model; non-trivial = a chunk with lines or a text that parses to a non-empty report" % ("2" if tier == "quick" else "4", len(pp_cases)),
        "samples": ([cases[i] for i in range(0, len(cases), max(1, len(cases) // 4))][:4] + pp_cases[:1]),
        "correspondence_disagreements": len(disagreements),
        "traces_validated_against_impl": (len(cases) + len(pp_cases)) if (model is not None and pp_model is not None) else 0,
        "print_parse_cases": len(pp_cases),
        "harness_build_s": round(bt, 1),
    })
    return rep.finish()
