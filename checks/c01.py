"""C01 — formatting preserves the meaning of the program (verified validator run on real in/out pairs)."""
import hashlib
import json
import os
import random
import subprocess

from . import common, pool, coqterm
from .common import log

PROP = "C01"
MODELRUN = os.path.join(common.CACHE, "c01", "modelrun")
TRUSTED = [
    "Coq 8.16.1 kernel; the theorems of coq/C01/Props.v (Print Assumptions: Closed under the global context) are about the token normaliser `norm` of coq/C01/Model.v: it is total, ignores white space and comments, preserves every essential atom (identifiers, literals, operators, keywords, lifetimes, attributes, doc comments) in order and multiplicity through the core pipeline, and every pass of the core pipeline is a chain of the closed list of style steps (relation Equiv). The formatter itself is NOT modelled: the property is decided per run by this proved validator on the implementation's real (input, output) pairs, so the level is partial",
    "not proved (stated in coq/C01/Props.v as *_partial): one end-to-end statement through reorder_runs (canonical strings of import / mod runs), merge_derives inside macro matchers, the atom-level normalisations done in `tree`, injectivity of flatten; fuel sufficiency of the closures loop",
    "extraction: Require Extraction + ExtrOcamlBasic only (bool, option, unit, list, prod, sumbool, sumor); nat, positive, N stay extracted inductives; no Extract Constant / Extract Inductive of ours; the OCaml driver ocaml/c01/main.ml (int <-> N, UTF-8, hex, md5, line reading) is trusted; a sample of every run is re-evaluated by vm_compute inside Coq and compared with the extracted binary",
    "rustc_lexer (the harness tokeniser of inputs and outputs) and rustfmt's own parser (re-formatting the output in process decides `parses under the same edition`)",
    "under use_field_init_shorthand = true the collapse `{ f: f,` -> `{ f,` is applied to the token lists of input and output by a python pre-pass (checks/c01.py: collapse_field_init) before the proved normaliser: trusted, not proved",
    "adequacy of the closed list of normalisations as a definition of `denotes the same program` (no formal semantics of Rust is available)",
]
GRID_WIDTHS = ["20", "37", "50", "80", "100", "200"]
PRESETS = {
    "base": [],
    "se2024": [["style_edition", "2024"]],
    "compact": [["use_small_heuristics", "Max"], ["fn_params_layout", "Compressed"], ["brace_style", "AlwaysNextLine"], ["match_arm_blocks", "false"]],
    "imports": [["imports_granularity", "Crate"], ["group_imports", "StdExternalCrate"], ["reorder_modules", "true"]],
    "vertical": [["use_small_heuristics", "Off"], ["match_block_trailing_comma", "true"], ["trailing_comma", "Always"], ["struct_lit_single_line", "false"], ["fn_single_line", "true"]],
    "literals": [["hex_literal_case", "Upper"], ["float_literal_trailing_zero", "Always"], ["format_strings", "true"], ["remove_nested_parens", "true"], ["force_explicit_abi", "false"]],
    "macros": [["format_macro_matchers", "true"], ["format_macro_bodies", "true"], ["overflow_delimited_expr", "true"], ["merge_derives", "false"]],
}
GRID_PRESETS = ["base", "se2024", "compact", "imports", "vertical", "literals", "macros"]
GRID_LAYOUTS = ["orig", "lines", "random"]
# options whose purpose is to rewrite tokens in ways the validator does not know (the shorthand rewrites are in the
# property's closed list but not in the validator; the comment options re-flow doc text by design): programs whose
# header sets them are not judged, and the evidence says so
UNJUDGED = {"use_try_shorthand": "true", "normalize_doc_attributes": "true",
            "condense_wildcard_suffixes": "true", "wrap_comments": "true", "normalize_comments": "true",
            "format_code_in_doc_comments": "true", "reorder_impl_items": "true"}
# programs on which the validator is known to be incomplete (a normalisation of the property's closed list that `norm`
# does not implement): not judged, listed in the evidence
INCOMPLETE = {"source/issue-4808.rs": "parentheses inserted around a closure that is the receiver of a method call (`|| .. .method()` -> `(|| ..).method()`): the closed list allows it, `norm` has no rule for it"}
KIND = {"ws": 0, "lc": 1, "bc": 2, "shebang": 3, "dlo": 4, "dli": 5, "dbo": 6, "dbi": 7, "id": 8, "rid": 9, "lt": 10,
        "p": 11, "unk": 12, "lit:int": 20, "lit:float": 21, "lit:char": 22, "lit:byte": 23, "lit:str": 24,
        "lit:bstr": 25, "lit:cstr": 26, "lit:rstr": 27, "lit:rbstr": 28, "lit:rcstr": 29}


# ---------------------------------------------------------------- synthetic forms x every width
# "a multi-line signature at width 37, a where-clause under another brace style, a rarely used modifier keyword on the
# vertical path": every syntactic form below is formatted at every max_width 20..130 under several layout presets
SYN_STMTS = [
    "let (a,) = f();", "if let Some((first_element,)) = optional_value { use_it(first_element) }", "match t { (a,) => a, ((b,),) => b }", "for (index,) in iterator {}",
    "let ((a,), [b, .., c], S { d, e: _, .. }, T(f, ..), g @ 1..=5, &h, ref mut i, _) = value;", "let x: (u8,) = (1,);", "let y: fn((u8,)) -> (u8,) = identity;",
    "let closure = |(a,): (u8,), b: &mut [u8]| -> u8 { a };", "let z = ((first_value,), (second_value,), ());", "let w = &mut *(pointer as *mut (u8,));",
    "let v = if a { (1,) } else { (2,) };", "call(argument,);", "let q = <(A,) as Trait>::CONST;", "let r = [(1,), (2,)];", "let (mut a, ref b, ref mut c, &d, &mut e) = t;",
    "let label = 'outer: loop { break 'outer (1,); };", "let s = Struct { tuple: (1,), ..Default::default() };", "let t = x as u8 as (u16) as u32;", "return (value,);",
    "let u = unsafe { &*(p as *const dyn Trait) };", "let n = -(-x) + !(!y) - *(&z);", "let m = a..b; let k = ..=c; let j = d..; let i = ..;",
    "let h = move || async move { yield_now().await };", "let g = static_fn::<{ N + 1 }, 'static, u8>();", "let f = r#match + r#type.r#fn();", "let e = 1_000u64 + 0xFF_u8 as u64 + 1e-3_f32 as u64 + 0b1010 + 0o77;",
    "let d = b'a' as char == 'a' && \"s\" == r\"s\" && b\"b\" == br#\"b\"#;", "let c = matches!(x, Some(1 | 2) | None);", "let b = x?.y()?.z?;", "let a = loop { break; };",
    # block-like expressions in operand position (a cast / method call / ? / operator applied to if, match, unsafe, loop, a plain
    # block), as a closure body, a call argument and an initialiser: wrapping them in braces or dropping braces changes the parse
    "let widen = |value: u32| if value > threshold_for_the_big_case { big_value_here } else { small_value_here } as u64;",
    "consume(values.iter().map(|value| if value > threshold_for_the_big_case { big_value_here } else { small_value_here } as u64));",
    "let pick = |value| match value { First => first_result_value, Second => second_result_value, _ => other_value }.convert_into();",
    "let run = move |input| unsafe { perform_the_dangerous_operation(input, another_argument_value) }?.finish_it();",
    "let looped = || loop { break produce_a_value_for_the_loop(); } as usize + offset_of_the_result;",
    "let negated = |flag| !if flag { first_branch_value_of_it() } else { second_branch_value_of_it() };",
    # arm and closure bodies that are blocks which must stay blocks: labelled, unsafe, const, async, with an attribute or a statement
    "match found { Some(v) => 'found: { if v > limit { break 'found limit } else { v } } None => 'none: { fallback() } }",
    "match kind { A => unsafe { call_it() }, C => async { wait().await }, D => { #[allow(unused)] value } E => { side_effect(); } F => { value } }",
    # generic arguments of every kind on a METHOD call in a chain (const literal, negative, braced, lifetime, inferred)
    "let c = it.array_chunks::<4>().map_windows::<_, _, 2>(f).cast::<'static, u8>().convert::<{ N + 1 }>().neg::<-1>().plain::<u8>();",
    "let d = receiver.first::<'a>().second::<true>().third::<{ usize::MAX }, Vec<u8>>(argument).fourth::<\"s\">();",
    # redundant nested parentheses (removed by default): the operand is laid out once per pass
    "let ok = ((first_operand_of_the_condition && second_operand_of_the_condition));", "if ((((first_long_condition_name || another_long_condition_name)))) { body(); }",
    "let v = (((compute_the_first_part(argument) + compute_the_second_part(argument)))) * ((scale_factor));",
    "let labelled = || 'outer: { if ready() { break 'outer 1 } 2 };", "let wrapped = |x| { x };", "let stmt_body = |x| { x; };",
]
SYN_ITEMS = [
    "impl<'a, T: Trait<'a> + ?Sized, U: Other<T, Assoc = u8>> !Marker<'a, T, U> for Container<'a, T, U> {}", "unsafe impl<T: ?Sized + Send> !Sync for Wrapper<T> where T: Copy {}",
    "impl S { pub(crate) default unsafe extern \"C\" fn method(&self, (a,): (u8,)) -> (u8,) { (a,) } }", "pub const unsafe extern \"C\" fn const_unsafe_extern(argument: u8) -> u8 { argument }",
    "pub async unsafe fn async_unsafe<'a>(argument: &'a mut u8) -> &'a u8 { argument }", "unsafe extern \"C\" { pub safe fn safe_fn(a: u8); pub unsafe fn unsafe_fn(); pub static mut MUTABLE: u8; pub safe static SAFE: u8; }",
    "pub auto trait AutoTrait {}", "pub unsafe auto trait UnsafeAuto {}", "pub(in crate::a::b) static mut GLOBAL: (u8,) = (1,);", "pub(super) const NAME: &'static str = \"x\";",
    "type Alias<T: ?Sized> where T: 'static = Box<(T,)>;", "fn generic<const N: usize, T>(x: [T; N]) -> impl Iterator<Item = &'static dyn for<'a> Fn(&'a T) -> &'a T> + '_ { x }",
    "fn pointers(x: &'_ mut dyn Trait, y: *const u8, z: *mut u8, w: !) -> ! { loop {} }", "struct Tuple<'a, T: 'a + ?Sized>(&'a mut T, PhantomData<fn() -> T>, pub (u8,));",
    "trait Gat { type G<'a>: Iterator<Item = &'a u8> where Self: 'a; const C: (u8,) = (1,); fn f<'a>(&'a self) -> Self::G<'a>; }",
    "#[cfg_attr(feature = \"x\", derive(Debug), allow(unused))] #[doc = \"text\"] #[must_use = \"reason\"] pub fn attributed() {}",
    "enum E { #[default] A, #[cfg(x)] B(#[allow(unused)] u8), C { #[serde(rename = \"d\")] d: (u8,) } = 3 }", "pub macro decl_macro($a:expr) { $a }",
    "impl<T> Trait for T where for<'a> &'a T: IntoIterator<Item = (u8,)>, T: ?Sized + 'static, {}", "pub fn where_single<T>(x: T) -> T where T: Clone { x }", "extern crate alloc as renamed; extern \"C\" fn abi() {} extern fn default_abi() {}",
    "fn variadic_and_self(self: &mut Self, mut a: u8, _: (), ref b: u8) {} fn dyn_star(x: &dyn (Fn(u8) -> u8)) {}", "pub struct Vis { pub a: u8, pub(crate) b: u8, pub(super) c: u8, pub(in crate::m) d: u8, pub(self) e: u8, f: u8 }",
    "const _: () = { assert!(true); }; static X: [u8; { 1 + 2 }] = [0; 3];", "union U { a: (u8,), b: ManuallyDrop<String> }", "mod m { #![allow(unused)] //! inner doc\n pub use super::*; }",
    "/// outer doc\n/** block doc */\n#[inline(always)]\nfn documented() {}", "impl<const N: usize> Default for A<N> where [u8; N]: Sized { fn default() -> Self { Self([0; N]) } }",
]
# recorded defects of the unchanged tree (known findings, keyed by these names): tokens are dropped
DEFECT_FORMS = [
    ("defect.inner_attr_empty_impl", "impl EmptyImpl { #![allow(inner_one)] }\n"),
    ("defect.inner_attr_empty_trait", "trait EmptyTrait { #![allow(inner_two)] }\n"),
    ("defect.inner_attr_empty_extern", "extern \"C\" { #![allow(inner_three)] }\n"),
    ("defect.inner_attr_closure_body", "fn wrapper() {\n    let c = || { #![allow(inner_four)] 1 };\n}\n"),
    ("defect.vec_repeat_stray_token", "fn wrapper() {\n    let v = vec![1; 2 3];\n}\n"),
]
SYN_MACRO_VARS = {"e": ["size", "zebra", "freeze"], "x": ["fuzzx", "zx_y"], "i": ["zip", "azimuth"], "s": ["zs", "buzzsaw"], "t": ["zt", "ritzt"], "n": ["zn", "horizon_zn"], "ty": ["zty", "fuzzty"], "a": ["za", "pizza"]}
SYN_PRESETS = [[], [["indent_style", "Visual"]], [["style_edition", "2024"]], [["indent_style", "Visual"], ["style_edition", "2024"], ["fn_params_layout", "Vertical"]],
               [["brace_style", "AlwaysNextLine"], ["control_brace_style", "AlwaysNextLine"], ["where_single_line", "true"], ["fn_single_line", "true"]],
               [["use_small_heuristics", "Max"], ["trailing_comma", "Never"], ["overflow_delimited_expr", "true"], ["match_arm_blocks", "false"]]]


def synth_cases(tier, seed):
    from . import c16
    progs = []
    for i, st in enumerate(SYN_STMTS):
        progs.append(("stmt%d" % i, "fn wrapper(value: T) -> R {\n    %s\n}\n" % st))
    for i, e in enumerate(c16.SWEEP_EXPRS):
        progs.append(("expr%d" % i, "fn wrapper() {\n    let (first_binding_name,) = %s;\n}\n" % e))
    # the same statements with comments where the formatter has to place them: a trailing comment with a continuation
    # line after the last statement of a block, a two-line block comment, leading comment lines, a comment before `else`
    for i, st in enumerate(SYN_STMTS[::2] + ["let (first_binding_name,) = %s;" % e for e in c16.SWEEP_EXPRS[::3]]):
        progs.append(("cstmt%d.trail" % i, "fn wrapper(value: T) -> R {\n    first();\n    %s // trailing comment, first line\n    // continuation of the trailing comment\n}\n" % st))
        progs.append(("cstmt%d.block" % i, "fn wrapper(value: T) -> R {\n    %s /* block comment, first line\n       second line of it */\n    last()\n}\n" % st))
        progs.append(("cstmt%d.lead" % i, "fn wrapper(value: T) -> R {\n    // leading comment\n    // with two lines\n    %s\n\n    /* detached */\n}\n" % st))
    progs.append(("celse", "fn wrapper() {\n    if condition_one {\n        a();\n    } // why the else\n    // second line\n    else {\n        b(); // trailing in else\n        // continued\n    }\n}\n"))
    progs.append(("cmatch", "fn wrapper() {\n    match value {\n        // before the arm\n        A => 1, // after the arm\n        // between\n        B => {\n            2 // last expression comment\n            // continued\n        }\n    }\n}\n"))
    for i, it in enumerate(SYN_ITEMS + c16.SWEEP_ITEMS):
        progs.append(("item%d" % i, it + "\n"))
        progs.append(("item%d.nested" % i, "mod outer {\n    mod inner {\n" + it + "\n    }\n}\n"))
    for v, names in SYN_MACRO_VARS.items():
        frag = "expr" if v != "ty" else "ty"
        for nm in names:
            use = "let %s   =   $%s;" % (nm, v) if v != "ty" else "let %s: $%s   =   make();" % (nm, v)
            progs.append(("macro_%s_%s" % (v, nm), "macro_rules! with_%s {\n    ($%s:%s) => {\n        %s\n            consume(%s,   0);\n    };\n}\n" % (nm, v, frag, use, nm)))
    progs += DEFECT_FORMS
    out = []
    widths = list(range(20, 131))
    for pi, (name, text) in enumerate(progs):
        for si, pre in enumerate(SYN_PRESETS):
            for w in widths:
                if tier != "thorough" and (w + pi + si + seed) % 6:
                    continue
                out.append((name, si, str(w), text, [["max_width", str(w)], ["edition", "2024"]] + pre))
    return out


IMP_VIS = ["", "", "pub ", "pub(crate) ", "pub(super) ", "pub(in crate::m) ", "pub(in crate::m::n) ", "pub(self) "]
IMP_ATTR = ["", "", "", "#[cfg(feature = \"x\")]\n", "#[allow(unused_imports)]\n", "#[cfg(not(feature = \"x\"))]\n"]
IMP_ROOTS = ["crate::a", "crate::a::b", "crate::a::b::c", "std::collections", "std::io", "core::fmt", "serde", "serde::de", "super::sibling", "self::child"]


def import_cases(tier, seed):
    """runs of `use` items with distinct leaves, prefix-related paths, every kind of visibility and a few attributes, inside two
    nested modules, under every imports_granularity x group_imports: (name, preset-id, width, text, config)"""
    rnd = random.Random("c01-imports-%d" % seed)
    out = []
    for k in range(40 if tier != "thorough" else 600):
        n = rnd.randint(2, 6)
        lines = []
        for j in range(n):
            root = rnd.choice(IMP_ROOTS)
            shape = rnd.random()
            if shape < 0.5:
                path = "%s::Leaf%d%d" % (root, k, j)
            elif shape < 0.8:
                path = "%s::{Left%d%d, inner::Right%d%d}" % (root, k, j, k, j)
            else:
                path = "%s::deep%d::{A%d%d, b%d::{C%d%d, D%d%d}}" % (root, j, k, j, j, k, j, k, j)
            lines.append("        %s%suse %s;" % (rnd.choice(IMP_ATTR).replace("\n", "\n        "), rnd.choice(IMP_VIS), path))
            if rnd.random() < 0.15:
                lines.append("")
        text = "mod m {\n    mod n {\n" + "\n".join(lines) + "\n        fn after() {}\n    }\n}\n"
        for gi, g in enumerate(["Preserve", "Crate", "Module", "Item", "One"]):
            for qi, q in enumerate(["Preserve", "StdExternalCrate", "One"]):
                if tier != "thorough" and (k + gi + qi + seed) % 3:
                    continue
                w = rnd.choice(["40", "60", "100"])
                out.append(("imports%d" % k, 100 + gi * 3 + qi, w, text, [["max_width", w], ["edition", "2021"], ["imports_granularity", g], ["group_imports", q]]))
    return out


FIELD_FORMS = [
    "let h = Handler { callback: callback::<u32>, fallback: #[allow(unused)] fallback, name: name, other: other.clone(), wrapped: (wrapped), r#type: r#type, last: last };",
    "let p = Point { x: x, y: y.0, z: -z, w: &w, v: v as u8, u: u?, t: *t, s: s!(), r: r[0], q: q::Q, ..base };",
    "let Pair { left: left, right: ref right, mid: mid @ 1..=2, tail: _ } = pair;",
    "let nested = Outer { inner: Inner { a: a, b: b::<T>() }, inner2: inner2, f: |a: a| a, g: g as g };",
    "match value { Shape { kind: kind, size: size::MAX } => 1, Shape { kind: kind, .. } if kind == kind => 2 }",
    "let t = Tuple { 0: 0, 1: one, one: one, long_field_name_number_one: long_field_name_number_one, long_field_name_number_two: long_field_name_number_two::<Generic> };",
]


def field_cases(tier, seed):
    """struct literals / patterns whose fields are initialised by a same-named path, with and without generic arguments, attributes,
    operators ..., under use_field_init_shorthand = true at many widths"""
    out = []
    for fi, f in enumerate(FIELD_FORMS):
        text = "fn wrapper() {\n    %s\n}\n" % f
        for w in range(20, 131):
            if tier != "thorough" and (w + fi + seed) % 5:
                continue
            out.append(("fieldinit%d" % fi, 200, str(w), text, [["max_width", str(w)], ["edition", "2021"], ["use_field_init_shorthand", "true"]]))
    return out


def collapse_field_init(toks):
    """`{ f: f,` -> `{ f,` on a lexer token list (white space and comments transparent).  The property's closed list allows this
    rewrite under use_field_init_shorthand; it is NOT part of the proved normaliser (trusted python pre-pass, applied to input
    and output alike, so it can only hide a difference that has exactly this shape)"""
    sig = [i for i, (k, t) in enumerate(toks) if k not in ("ws", "lc", "bc")]
    drop = set()
    for n in range(1, len(sig) - 3):
        a, b, c, d, e = (toks[sig[n + j]] for j in (-1, 0, 1, 2, 3))
        if a[1] in ("{", ",", "]") and b[0] in ("id", "rid") and c[1] == ":" and d[0] == b[0] and d[1] == b[1] and e[1] in (",", "}"):
            drop.add(sig[n + 1])
            drop.add(sig[n + 2])
    return [t for i, t in enumerate(toks) if i not in drop]


def opts_code(cfg):
    o = {}
    for k, v in cfg:
        o[k] = v
    c = 0
    if o.get("remove_nested_parens", "true") == "true":
        c |= 1
    if o.get("force_explicit_abi", "true") == "true":
        c |= 2
    if o.get("hex_literal_case", "Preserve") != "Preserve":
        c |= 4
    if o.get("float_literal_trailing_zero", "Preserve") != "Preserve":
        c |= 8
    if o.get("merge_derives", "true") == "true":
        c |= 16
    if o.get("edition", "2015") == "2015":
        c |= 32
    return c


def ocaml_input(code, toks):
    lines = ["OPTS %d" % code]
    for k, t in toks:
        lines.append("%d\t%s" % (KIND.get(k, 12), t.encode("utf-8", "surrogatepass").hex()))
    lines.append("")
    return "\n".join(lines) + "\n"


def run_model(cases, full=False):
    """cases: [(opts code, tokens)] -> [(natoms, md5)] or, with full, [[atom..]]"""
    if not cases:
        return []
    nsh = min(common.NCPU, max(1, len(cases) // 20))
    shards = [cases[i::nsh] for i in range(nsh)]

    def one(sh):
        inp = "".join(ocaml_input(c, t) for c, t in sh)
        r = subprocess.run([MODELRUN] + (["--full"] if full else []), input=inp.encode(), stdout=subprocess.PIPE, stderr=subprocess.PIPE, timeout=3000)
        if r.returncode != 0:
            raise RuntimeError("modelrun failed: %s" % r.stderr.decode()[-500:])
        out = []
        for line in r.stdout.decode().split("\n"):
            if not line.strip():
                continue
            parts = line.split(" ")
            if full:
                out.append([bytes.fromhex(h).decode("utf-8", "surrogatepass") for h in parts[2:]])
            else:
                out.append((int(parts[0]), parts[1]))
        if len(out) != len(sh):
            raise RuntimeError("modelrun: %d results for %d programs" % (len(out), len(sh)))
        return out
    from concurrent.futures import ThreadPoolExecutor
    with ThreadPoolExecutor(max_workers=nsh) as ex:
        outs = list(ex.map(one, shards))
    res = [None] * len(cases)
    for k, o in enumerate(outs):
        for j, v in enumerate(o):
            res[k + j * nsh] = v
    return res


def build_model():
    """modelrun is rebuilt on every run from the extraction that the Coq build has just written"""
    ml = os.path.join(common.VERIF, "ocaml", "c01", "norm.ml")
    vo = os.path.join(common.COQ, "C01", "Extract.vo")
    if not os.path.exists(ml) or (os.path.exists(vo) and os.path.getmtime(ml) < os.path.getmtime(os.path.join(common.COQ, "C01", "Model.vo"))):
        common.sh(["coqc", "-Q", ".", "V", "C01/Extract.v"], cwd=common.COQ, timeout=600)
    rc, o, e = common.sh(["sh", os.path.join(common.VERIF, "ocaml", "c01", "build.sh")], timeout=600)
    if rc != 0 or not os.path.exists(MODELRUN):
        raise RuntimeError("ocaml build of the extracted C01 normaliser failed:\n" + (o + e)[-1500:])


def hash_i(s):
    return int(hashlib.sha1(s.encode()).hexdigest()[:8], 16)


def first_diff(a, b):
    n = min(len(a), len(b))
    for i in range(n):
        if a[i] != b[i]:
            return i
    return n


def sig(a, b, i):
    """signature of a mismatch: the first differing pair of atoms (a canonical import-run string counts as USE)"""
    def at(l):
        x = l[i] if i < len(l) else "<end>"
        return "USE" if x.startswith("USE[") else x
    return hashlib.sha1((at(a) + "->" + at(b)).encode()).hexdigest()[:8]


def unjudged(cfg):
    return [k for k, v in cfg if UNJUDGED.get(k) == v]


def run(tier, seed, replay):
    rep = common.Reporter(PROP, tier, seed, "proof")
    rep.assumptions = TRUSTED
    cr = common.coq_phase(["C01"], "C01/Props.v")
    common.coq_coverage(rep, cr, "cd coq && make C01/Props.vo C01/Extract.vo && coqc -Q . V C01/Props.v (+ hygiene grep, Print Assumptions allow-list); sh ocaml/c01/build.sh", TRUSTED)
    if not cr.ok:
        log("C01 proof phase failed: %s %s %s\n%s" % (cr.hygiene, cr.bad_assumptions, cr.failed_files, cr.build_log[-1500:]))
    ok, blog, bt = common.build_harness()
    if not ok:
        raise RuntimeError("harness build failed:\n" + blog)
    have_model = True
    try:
        build_model()
    except RuntimeError as ex:
        if cr.ok:
            raise
        have_model = os.path.exists(MODELRUN)
        log("C01: %s" % ex)
    P = pool.load()
    MOD = 42
    want = seed % MOD
    sel, need_lex = [], set()
    for p in P:
        for lay in GRID_LAYOUTS:
            for pr in GRID_PRESETS:
                for w in GRID_WIDTHS:
                    if tier == "thorough" or hash_i("%s|%s|%s|%s" % (p["id"], lay, pr, w)) % MOD == want:
                        sel.append((p, lay, pr, w))
                        if lay != "orig":
                            need_lex.add(p["id"])
    if replay:
        rp = json.load(open(replay))
        sel = [(p, rp["layout"], rp["preset"], rp["width"]) for p in P if p["id"] == rp["pool_id"]]
        need_lex = {rp["pool_id"]}
    lex_in = [p for p in P if p["id"] in need_lex]
    lexed = dict(zip([p["id"] for p in lex_in], common.run_vh_pool("lex", [{"text": p["text"]} for p in lex_in], per_case_timeout=20)))
    cases, meta, texts = [], [], {}
    n_unjudged = 0
    for p, lay, pr, w in sel:
        over = [["max_width", w]] + PRESETS[pr]
        cfg = pool.merged(p["header"], over)
        if unjudged(cfg) or p["id"] in INCOMPLETE:
            n_unjudged += 1
            continue
        tk = (p["id"], lay)
        if tk not in texts:
            if lay == "orig":
                texts[tk] = p["text"]
            else:
                toks = lexed.get(p["id"])
                texts[tk] = pool.relayout(toks, lay, random.Random("%s-%s" % (p["id"], lay))) if isinstance(toks, list) else None
        if texts[tk] is None:
            continue
        cases.append({"text": texts[tk], "config": cfg, "again": True, "lex": True})
        meta.append((p["id"], lay, pr, w))
    n_pool = len(cases)
    if not replay or json.load(open(replay)).get("pool_id", "").startswith("synth/"):
        for name, si, w, text, cfg in synth_cases(tier, seed) + import_cases(tier, seed) + field_cases(tier, seed):
            if replay and ("synth/" + name != rp["pool_id"] or str(rp["width"]) != w or rp["preset"] != "syn%d" % si):
                continue
            cases.append({"text": text, "config": cfg, "again": True, "lex": True})
            meta.append(("synth/" + name, "orig", "syn%d" % si, w))
    res = common.run_vh_pool("pool", cases, per_case_timeout=20)
    judged = []          # (index, opts code)
    found = 0
    n_changed = 0
    for i, ((pid, lay, pr, w), c, r) in enumerate(zip(meta, cases, res)):
        if not pool.accepted(r) or r["out"] == "" or not isinstance(r.get("in_tokens"), list):
            continue
        base = {"pool_id": pid, "layout": lay, "preset": pr, "width": w, "config": c["config"], "input": c["text"], "output": r["out"]}
        # (1) the emitted text parses under the same edition: rustfmt's own parser accepts it
        f2 = r.get("flags2") or {}
        if r.get("out2") is None or f2.get("parsing"):
            base["flags2"] = f2
            if rep.violation("unparsable:%s" % pid, base, "the text rustfmt emitted for %s (layout %s, %s/w%s) is not accepted by its own parser" % (pid, lay, pr, w)):
                found += 1
            continue
        if ["use_field_init_shorthand", "true"] in [list(kv) for kv in c["config"]]:
            r["in_tokens"] = collapse_field_init(r["in_tokens"])
            r["out_tokens"] = collapse_field_init(r["out_tokens"])
        judged.append((i, opts_code(c["config"])))
        if r["out"] != c["text"]:
            n_changed += 1
    mismatches = []
    if have_model:
        ins = run_model([(oc, res[i]["in_tokens"]) for i, oc in judged])
        outs = run_model([(oc, res[i]["out_tokens"]) for i, oc in judged])
        mism = [(i, oc) for (i, oc), a, b in zip(judged, ins, outs) if a != b]
        if mism:
            fa = run_model([(oc, res[i]["in_tokens"]) for i, oc in mism], full=True)
            fb = run_model([(oc, res[i]["out_tokens"]) for i, oc in mism], full=True)
            for (i, oc), a, b in zip(mism, fa, fb):
                pid, lay, pr, w = meta[i]
                k = first_diff(a, b)
                key = "tokens_differ:%s:%s" % (pid, sig(a, b, k))
                mismatches.append(key)
                base = {"pool_id": pid, "layout": lay, "preset": pr, "width": w, "config": cases[i]["config"], "input": cases[i]["text"],
                        "output": res[i]["out"], "opts_code": oc, "first_differing_atom": k,
                        "norm_in_around": a[max(0, k - 6):k + 6], "norm_out_around": b[max(0, k - 6):k + 6]}
                if rep.violation(key, base, "normal forms of input and output differ for %s (layout %s, %s/w%s) at atom %d: in %r / out %r"
                                 % (pid, lay, pr, w, k, a[max(0, k - 2):k + 3], b[max(0, k - 2):k + 3])):
                    found += 1
        # (3) the extracted binary against vm_compute inside Coq on a sample
        small = [(i, oc) for i, oc in judged if len(res[i]["out_tokens"]) <= 600]
        rnd = random.Random("c01-sample-%d" % seed)
        sample = rnd.sample(small, min(len(small), 24 if tier != "thorough" else 96))
        sample_bad = 0
        if sample and cr.ok:
            exprs = ["run_norm %d [%s]" % (oc, "; ".join("(%d, %s)" % (KIND.get(k, 12), coqterm.text(t)) for k, t in res[i]["out_tokens"])) for i, oc in sample]
            vals = common.run_coq_cases("From V Require Import Base.Text C01.Model C01.Run.\nOpen Scope N_scope.", "", exprs, "c01_sample", per_file=2, timeout=1200)
            got = [[coqterm.untext(x) for x in v] for v in vals]
            ext = run_model([(oc, res[i]["out_tokens"]) for i, oc in sample], full=True)
            for (i, oc), g, e in zip(sample, got, ext):
                if g != e:
                    sample_bad += 1
                    rep.violation("tie", {"broken": "extracted normaliser and vm_compute disagree", "pool_id": meta[i][0], "opts_code": oc, "coq": g[:40], "ocaml": e[:40]},
                                  "the extracted C01 normaliser disagrees with the Coq definition on %s" % meta[i][0], no_input=True)
    else:
        sample, sample_bad = [], 0
    if (not cr.ok or not have_model) and found == 0:
        rep.violation("tie", {"broken": "theorems of coq/C01/Props.v no longer check, or the extracted validator cannot be built", "failed": cr.failed_files,
                              "hygiene": cr.hygiene, "assumptions": cr.bad_assumptions},
                      "C01 validator theorems no longer check", no_input=True)
    dump = os.environ.get("VERIF_DUMP_KEYS")
    if dump:
        with open(dump, "a") as f:
            for k in mismatches:
                f.write(k + "\n")
    rep.coverage.update({
        "evaluations": len(cases), "pool_runs": n_pool, "synthetic_runs": len(cases) - n_pool, "accepted_and_judged": len(judged), "distinct_nontrivial": n_changed,
        "synthetic_rule": "%d statement / pattern forms, the expression and item forms of the C16 margin sweep, %d further item forms (rare modifiers, negative impls, restricted visibilities, GATs, attributes; each also two modules deep), half of the statements again with trailing / block / leading comments that have continuation lines, and %d macro_rules definitions whose bodies use identifiers containing z<metavariable>, x %d layout presets (Block / Visual indent, style edition 2024, vertical parameters, next-line braces, Max heuristics) x every max_width 20..130 (quick: one width in six, selected by the seed); plus generated runs of use items (distinct leaves, prefix-related paths, every kind of visibility, cfg / allow attributes, nested lists, inside two modules) under every imports_granularity x group_imports" % (len(SYN_STMTS), len(SYN_ITEMS), len(SYN_MACRO_VARS), len(SYN_PRESETS)),
        "not_judged_option_outside_validator": n_unjudged,
        "rule": "fixed grid: committed pool (%d programs) x layouts %s x presets %s x max_width %s; thorough = whole grid, quick = the 1/%d slice selected by the seed. For every run rustfmt accepts: (1) the output is formatted again in process and must be accepted by the parser; (2) the rustc_lexer token streams of input and output are normalised by the extracted, proved `norm` under the run's options and must be equal; (3) a sample is re-evaluated by vm_compute in Coq. Cases whose configuration sets one of %s to true are not judged (these options rewrite tokens in ways the validator does not implement), nor are %s" % (len(P), GRID_LAYOUTS, GRID_PRESETS, GRID_WIDTHS, MOD, sorted(UNJUDGED), INCOMPLETE),
        "programs": len(P),
        "vm_compute_sample": len(sample), "vm_compute_sample_disagreements": sample_bad,
        "timeouts": sum(1 for r in res if isinstance(r, dict) and "timeout" in r),
        "crashes": sum(1 for r in res if isinstance(r, dict) and ("crash" in r or "panic" in r)),
        "harness_build_s": round(bt, 1),
    })
    return rep.finish()
