"""C20 — the --backup write protocol never loses the original."""
import os
import re
import shutil
import subprocess

from . import common, coqterm
from .common import log

PROP = "C20"
TRUSTED = [
    "Coq 8.16.1 kernel (coqc); vm_compute evaluates the model in cases.v; no native_compute",
    "Print Assumptions of every theorem in coq/C20/Props.v: Closed under the global context (checked each run)",
    "file-system assumptions stated in coq/C20/Model.v: rename is atomic and changes nothing when it fails; write is not atomic (any prefix may be left); one file system",
    "hand-written model of files_with_backup.rs:18-29; tied to the code by (a) the crash-point hook (RUSTFMT_VERIF_CRASH) comparing the directory contents after each crash/fault point with the model's state, (b) strace comparing the real order of openat/rename with the model's operation list",
    "Path::with_extension gives three distinct names for FILE.rs (model hypothesis tmp/bk/file pairwise distinct); a mid-write crash is modelled, not provoked",
]
POINTS = ["bk:before_write_tmp", "bk:after_write_tmp", "bk:after_rename_bk", "bk:after_rename_tmp"]
SRC = [
    "fn  main( ) {   let x=1 ; }\n",
    "struct  A{a:u32,b:u32}\nfn f( ){}\n",
    "fn g() {}\n",                     # already formatted
    "// c\nfn  h(a:u8,b:u8)->u8{a+b}\n",
    # the original BYTES must be recoverable: terminators and a byte-order mark are part of them
    "fn  k( ) {\r\n    let x=1 ;\r\n}\r\n",
    "\ufefffn  m( ) {   let y=2 ; }\n",
    "\ufeffstruct  B{a:u32}\r\nfn n( ){}\n",
]
# every way of asking for the backup protocol
SPELLINGS = [["--backup"], ["--backup", "--emit", "files"], ["--emit", "files", "--backup"], ["--emit=files", "--backup"],
             ["--config", "make_backup=true"],
             # backups asked for by the configuration FILE given on the command line (cfgdir/ is not an ancestor of the sources)
             ["--config-path", "cfgdir/rustfmt.toml"]]


def rustfmt(args, cwd, env=None, timeout=60):
    e = common.rust_env()
    e.pop("CARGO_TARGET_DIR", None)
    if env:
        e.update(env)
    return common.sh([common.bin_path("rustfmt")] + args, cwd=cwd, env=e, timeout=timeout)


def formatted(text, d):
    p = os.path.join(d, "probe.rs")
    open(p, "w", newline="").write(text)
    rc, o, e = rustfmt(["--emit", "stdout", "-q", "probe.rs"], d)
    os.remove(p)
    if rc != 0:
        raise RuntimeError("cannot format probe: " + e)
    return o


def snapshot(d, stems):
    out = {}
    for s in stems:
        for ext in ("rs", "tmp", "bk"):
            p = os.path.join(d, s + "." + ext)
            out[s + "." + ext] = open(p, newline="", encoding="utf-8").read() if os.path.exists(p) else None
    return out


def run(tier, seed, replay):
    rep = common.Reporter(PROP, tier, seed, "proof")
    rep.assumptions = TRUSTED
    cr = common.coq_phase(["C20"], "C20/Props.v")
    common.coq_coverage(rep, cr, "cd coq && make C20/Props.vo && coqc -Q . V C20/Props.v (+ hygiene grep, Print Assumptions allow-list)", TRUSTED)
    if not cr.ok:
        log("C20 proof phase failed: %s %s %s\n%s" % (cr.hygiene, cr.bad_assumptions, cr.failed_files, cr.build_log[-1500:]))
    ok, blog, bt = common.build_bins()
    if not ok:
        raise RuntimeError("build of /repo binaries failed:\n" + blog)
    rnd = common.rng(seed, PROP)
    base = os.path.join(common.CACHE, "c20")
    shutil.rmtree(base, ignore_errors=True)
    os.makedirs(base)
    fmt_of = {t: formatted(t, base) for t in SRC}
    cases = []
    stems = ["a", "b", "c"]
    nsets = 3 if tier == "quick" else 12
    for si in range(nsets):
        texts = [rnd.choice(SRC) for _ in stems]
        if si == 0:
            texts = [SRC[0], SRC[1], SRC[3]]
        if si == 1:
            texts = [SRC[4], SRC[5], SRC[6]]
        changed = [i for i, t in enumerate(texts) if fmt_of[t] != t]
        for k in range(1, len(changed) + 1):       # act on the k-th REWRITTEN file
            for pi, pt in enumerate(POINTS):
                for mode in ("abort", "fail"):
                    # operations of the model completed when the point is reached: [remove tmp; write tmp; rename; rename]
                    cases.append({"texts": texts, "k": k, "point": pt, "n_complete": 0 if pi == 0 else pi + 1, "mode": mode})
        cases.append({"texts": texts, "k": 0, "point": None, "n_complete": 4, "mode": "none"})
    # model side: state of the target file after n complete operations
    exprs = []
    for c in cases:
        changed = [t for t in c["texts"] if fmt_of[t] != t]
        t = changed[c["k"] - 1] if c["k"] >= 1 else (changed[0] if changed else c["texts"][0])
        c["_target_text"] = t
        exprs.append("(run_stopped %s %s %d 0 false, run_ops %s %s)" % (coqterm.text(t), coqterm.text(fmt_of[t]), c["n_complete"], coqterm.text(t), coqterm.text(fmt_of[t])))
    model = None
    try:
        model = common.run_coq_cases("From V Require Import Base.Text C20.Model C20.Run.\nOpen Scope N_scope.", "", exprs, "c20")
    except Exception as e:
        log("C20: model evaluation failed: %s" % str(e)[-1000:])
    disagreements = []
    found = 0
    nontrivial = set()
    for ci, c in enumerate(cases):
        d = os.path.join(base, "case%d" % ci)
        os.makedirs(d)
        for s, t in zip(stems, c["texts"]):
            open(os.path.join(d, s + ".rs"), "w", newline="", encoding="utf-8").write(t)
        os.makedirs(os.path.join(d, "cfgdir"))
        open(os.path.join(d, "cfgdir", "rustfmt.toml"), "w").write("make_backup = true\n")
        env = {}
        c["flags"] = SPELLINGS[ci % len(SPELLINGS)]
        if c["mode"] == "abort":
            env["RUSTFMT_VERIF_CRASH"] = "%s@%d" % (c["point"], c["k"])
        elif c["mode"] == "fail":
            env["RUSTFMT_VERIF_CRASH"] = "fail:%s@%d" % (c["point"], c["k"])
        rc, o, e = rustfmt(c["flags"] + [s + ".rs" for s in stems], d, env=env)
        snap = snapshot(d, stems)
        changed_stems = [s for s, t in zip(stems, c["texts"]) if fmt_of[t] != t]
        # --- property oracle: the invariant for every file of the run
        for s, t in zip(stems, c["texts"]):
            f, bk, tmp = snap[s + ".rs"], snap[s + ".bk"], snap[s + ".tmp"]
            if not (f == t or bk == t):
                if rep.violation("original_lost", {"case": c, "snapshot": snap, "file": s}, "original of %s.rs is in neither %s.rs nor %s.bk after %s %s" % (s, s, s, c["mode"], c["point"])):
                    found += 1
            if f is not None and f not in (t, fmt_of[t]):
                if rep.violation("partial_file", {"case": c, "snapshot": snap, "file": s}, "%s.rs holds neither the original nor the formatted text" % s):
                    found += 1
            if fmt_of[t] == t and (bk is not None or tmp is not None):
                if rep.violation("bk_for_unchanged", {"case": c, "snapshot": snap, "file": s}, "unchanged file %s.rs got a .bk/.tmp" % s):
                    found += 1
        if c["mode"] == "none":
            for s, t in zip(stems, c["texts"]):
                if fmt_of[t] != t and not (snap[s + ".rs"] == fmt_of[t] and snap[s + ".bk"] == t and snap[s + ".tmp"] is None):
                    if rep.violation("success_post", {"case": c, "snapshot": snap}, "after a successful run %s.rs/%s.bk are not formatted/original" % (s, s)):
                        found += 1
            if rc != 0:
                if rep.violation("success_exit", {"case": c, "rc": rc, "stderr": e[-500:]}, "uninterrupted --backup run exits %d" % rc):
                    found += 1
        if c["mode"] == "fail" and rc != 1:
            if rep.violation("fault_exit", {"case": c, "rc": rc, "stderr": e[-500:]}, "I/O error at %s gives exit status %d, expected 1" % (c["point"], rc)):
                found += 1
        # --- correspondence: the acted-on file's three names against the model
        if model is not None and c["k"] >= 1:
            st, ops = model[ci]
            s = changed_stems[c["k"] - 1]
            got = [snap[s + ".rs"], snap[s + ".tmp"], snap[s + ".bk"]]
            want = None
            if isinstance(st, coqterm.Ctor) and st.name == "Some":
                want = [coqterm.untext(x.args[0]) if isinstance(x, coqterm.Ctor) and x.name == "Some" else None for x in st.args[0]]
            if got != want:
                disagreements.append((c, {"impl": got, "model": want}))
            nontrivial.add(common.case_hash({k: v for k, v in c.items() if not k.startswith("_")}))
        shutil.rmtree(d, ignore_errors=True)
    # --- real failures and stale siblings: FILE.bk / FILE.tmp already there as a non-empty directory (the rename / the
    # write then really fails), or as a stale file longer / shorter than the new text; odd file names
    pre_states = ["bk_dir", "tmp_dir", "stale_tmp_long", "stale_tmp_short", "stale_bk", "plain",
                  # a backup left by an EARLIER run (the file was edited since) together with a failure of this run:
                  # a real one (FILE.tmp is a directory) or an injected one / an abort at each named point
                  "stale_bk+tmp_dir", "stale_tmp_long+bk_dir",
                  # stale siblings that are symbolic links: to the file itself, to another file (which must stay untouched)
                  "tmp_symlink_self", "tmp_symlink_other", "bk_symlink_other"] + ["stale_bk+%s:%s" % (m, pt) for pt in POINTS for m in ("fail", "abort")]
    names = ["a.rs", "noext", "m.d.rs", "b.tmp", "c.bk"]
    n_pre = 0
    for nm in names:
        for ps in pre_states:
            d = os.path.join(base, "pre_%s_%s" % (nm.replace(".", "_"), ps))
            os.makedirs(d)
            t = SRC[0]
            f = os.path.join(d, nm)
            open(f, "w", newline="", encoding="utf-8").write(t)
            stem = nm.rsplit(".", 1)[0] if "." in nm else nm
            ext = nm.rsplit(".", 1)[1] if "." in nm else ""
            # the sibling names the protocol is documented to use; for FILE.tmp / FILE.bk they would be the file itself, so
            # any other pair of names is accepted there (judged through the invariant only)
            tmp_p, bk_p = os.path.join(d, stem + ".tmp"), os.path.join(d, stem + ".bk")
            collide = ext in ("tmp", "bk")
            if not collide:
                if ps == "bk_dir":
                    os.makedirs(os.path.join(bk_p, "x"))
                elif ps == "tmp_dir":
                    os.makedirs(os.path.join(tmp_p, "x"))
                elif ps == "stale_tmp_long":
                    open(tmp_p, "w").write("// stale\n" * 40)
                elif ps == "stale_tmp_short":
                    open(tmp_p, "w").write("x")
                elif ps == "stale_bk":
                    open(bk_p, "w").write("// old backup\n")
                elif ps == "stale_bk+tmp_dir":
                    open(bk_p, "w").write("// old backup\n")
                    os.makedirs(os.path.join(tmp_p, "x"))
                elif ps == "stale_tmp_long+bk_dir":
                    open(tmp_p, "w").write("// stale\n" * 40)
                    os.makedirs(os.path.join(bk_p, "x"))
                elif ps == "tmp_symlink_self":
                    os.symlink(nm, tmp_p)
                elif ps in ("tmp_symlink_other", "bk_symlink_other"):
                    open(os.path.join(d, "other.txt"), "w").write("precious\n")
                    os.symlink("other.txt", tmp_p if ps.startswith("tmp") else bk_p)
                elif ps.startswith("stale_bk+"):
                    open(bk_p, "w").write("// old backup\n")
            elif ps != "plain":
                shutil.rmtree(d, ignore_errors=True)
                continue
            n_pre += 1
            penv = {}
            if ":" in ps:
                m, pt = ps.split("+", 1)[1].split(":", 1)
                penv["RUSTFMT_VERIF_CRASH"] = ("fail:%s" % pt) if m == "fail" else pt
            rc, o, e = rustfmt(["--backup", nm], d, env=penv)
            listing = {}
            for x in sorted(os.listdir(d)):
                px = os.path.join(d, x)
                try:
                    listing[x] = open(px, newline="", encoding="utf-8").read() if os.path.isfile(px) else ("<dir>" if os.path.isdir(px) else "<dangling link>")
                except OSError:
                    listing[x] = "<unreadable: link loop>"
            case = {"name": nm, "pre_state": ps, "rc": rc, "stderr": e[-300:], "after": listing}
            cur = listing.get(nm)
            holders = [x for x, v in listing.items() if v == t]
            PRE_K = {"plain": (0, 0), "bk_dir": (0, 4), "tmp_dir": (4, 0), "stale_tmp_long": (1, 0), "stale_tmp_short": (1, 0), "stale_bk": (0, 1),
                     "stale_bk+tmp_dir": (4, 1), "stale_tmp_long+bk_dir": (1, 4), "tmp_symlink_self": (2, 0), "tmp_symlink_other": (3, 0), "bk_symlink_other": (0, 3)}
            if ps in PRE_K and not collide and model is not None:
                # the same pre-state in the model (files / links / directories): did the run succeed, and what does each of
                # FILE, FILE.tmp, FILE.bk and the other file read as afterwards (O original, F formatted, S stale text, P the other file's)
                def sym(v):
                    return {t: "O", fmt_of[t]: "F", "precious\n": "P", None: None, "<dir>": None, "<dangling link>": None, "<unreadable: link loop>": None}.get(v, "S")
                try:
                    mv = common.run_coq_cases("From V Require Import Base.Text C20.Model C20.Run.\nOpen Scope N_scope.", "",
                                              ["run_pre [79] [70] %d %d" % PRE_K[ps]], "c20pre")[0]
                    mok, (mf, mt, mb), mo = mv

                    def msym(x):
                        if isinstance(x, coqterm.Ctor) and x.name == "Some":
                            return {(79,): "O", (70,): "F", (120,): "S", (112,): "P"}.get(tuple(coqterm.plain(x.args[0])), "?")
                        return None
                    got = [rc == 0, sym(listing.get(nm)), sym(listing.get(stem + ".tmp")), sym(listing.get(stem + ".bk")), sym(listing.get("other.txt")) if "other.txt" in listing else "P"]
                    wantm = [bool(mok), msym(mf), msym(mt), msym(mb), msym(mo)]
                    if got != wantm:
                        disagreements.append(({"pre_state": ps, "name": nm}, {"impl": got, "model": wantm, "listing": listing}))
                except Exception as ex:
                    log("C20: pre-state model evaluation failed: %s" % str(ex)[-300:])
            if "other.txt" in listing and listing["other.txt"] != "precious\n":
                if rep.violation("other_path_touched", {"case": case}, "rustfmt --backup %s with pre-state %s wrote through a symbolic link into another file" % (nm, ps)):
                    found += 1
            if not holders:
                if rep.violation("original_lost", {"case": case}, "rustfmt --backup %s with pre-state %s (exit %d): the original text is in no file of the directory any more" % (nm, ps, rc)):
                    found += 1
            if cur is not None and cur not in (t, fmt_of[t]):
                if rep.violation("partial_file", {"case": case}, "rustfmt --backup %s with pre-state %s: the file holds neither the original nor the formatted text" % (nm, ps)):
                    found += 1
            if ps == "plain" and model is not None:
                try:
                    mv = common.run_coq_cases("From V Require Import Base.Text C20.Model C20.Run.\nOpen Scope N_scope.", "",
                                              ["run_names %s %s" % (coqterm.text(stem), ("(Some %s)" % coqterm.text(ext)) if "." in nm else "None")], "c20names")[0]
                    want_bk = coqterm.untext(mv[1])
                    if rc == 0 and listing.get(want_bk) != t:
                        disagreements.append(({"names": nm}, {"impl": sorted(listing), "model_bk_name": want_bk}))
                except Exception as ex:
                    log("C20: names model evaluation failed: %s" % str(ex)[-300:])
            if rc == 0 and (cur != fmt_of[t] or (not collide and listing.get(stem + ".bk") != t)):
                if rep.violation("success_post", {"case": case}, "rustfmt --backup %s with pre-state %s exits 0 but the file / its .bk are not formatted / original" % (nm, ps)):
                    found += 1
            if ps in ("bk_dir", "tmp_dir", "stale_bk+tmp_dir", "stale_tmp_long+bk_dir") and rc != 1:
                if rep.violation("fault_exit", {"case": case}, "rustfmt --backup %s: the %s cannot succeed, exit status %d, expected 1" % (nm, "rename to .bk" if ps == "bk_dir" else "write of .tmp", rc)):
                    found += 1
            shutil.rmtree(d, ignore_errors=True)
    # --- a SHORT write: the kernel accepts only a prefix of the temporary file (file-size limit, SIGXFSZ ignored); neither a crash nor,
    # at first, an error -- the protocol must notice that not everything was written
    d = os.path.join(base, "short_write")
    os.makedirs(d)
    big = "".join("fn  f%04d( a:u32,b:u32 )->u32{a+b+%d}\n" % (k, k) for k in range(1400))
    open(os.path.join(d, "big.rs"), "w").write(big)
    big_fmt = formatted(big, d)

    def limit():
        import resource
        import signal
        signal.signal(signal.SIGXFSZ, signal.SIG_IGN)
        resource.setrlimit(resource.RLIMIT_FSIZE, (16384, 16384))
    e_ = common.rust_env()
    e_.pop("CARGO_TARGET_DIR", None)
    pr = subprocess.run([common.bin_path("rustfmt"), "--backup", "big.rs"], cwd=d, env=dict(os.environ, **e_), capture_output=True, text=True, timeout=120, preexec_fn=limit)
    listing = {x: open(os.path.join(d, x)).read() for x in sorted(os.listdir(d)) if os.path.isfile(os.path.join(d, x))}
    cur = listing.get("big.rs")
    case = {"name": "big.rs", "pre_state": "file-size limit 16384 bytes, formatted text %d bytes" % len(big_fmt), "rc": pr.returncode, "stderr": pr.stderr[-300:], "sizes_after": {k: len(v) for k, v in listing.items()}}
    n_pre += 1
    if big not in listing.values():
        if rep.violation("original_lost", {"case": case}, "rustfmt --backup big.rs under a file-size limit (exit %d): the original text is in no file of the directory any more" % pr.returncode):
            found += 1
    if cur is not None and cur not in (big, big_fmt):
        if rep.violation("partial_file", {"case": case}, "rustfmt --backup big.rs under a file-size limit (exit %d): the file holds %d bytes, neither the original (%d) nor the formatted text (%d)" % (pr.returncode, len(cur), len(big), len(big_fmt))):
            found += 1
    if pr.returncode == 0 and cur != big_fmt:
        if rep.violation("success_post", {"case": case}, "rustfmt --backup big.rs under a file-size limit exits 0 but the file is not the formatted text"):
            found += 1
    shutil.rmtree(d, ignore_errors=True)
    # --- one file reached under two spellings of its path (a recorded defect of the module resolver, C13): it is emitted twice
    d = os.path.join(base, "two_spellings")
    os.makedirs(os.path.join(d, "sub"))
    open(os.path.join(d, "lib.rs"), "w").write('#[path = "a.rs"]\nmod a;\n#[path = "sub/../a.rs"]\nmod b;\n')
    open(os.path.join(d, "a.rs"), "w").write(SRC[0])
    rc, o, e = rustfmt(["--backup", "lib.rs"], d)
    listing = {x: open(os.path.join(d, x)).read() for x in sorted(os.listdir(d)) if os.path.isfile(os.path.join(d, x))}
    if SRC[0] not in listing.values():
        if rep.violation("original_lost_two_spellings", {"case": {"rc": rc, "after": listing}}, "a.rs reached as a.rs and as sub/../a.rs: after rustfmt --backup lib.rs (exit %d) the original of a.rs is in no file" % rc):
            found += 1
    shutil.rmtree(d, ignore_errors=True)
    rep.coverage["pre_state_runs"] = n_pre
    # --- order of the real system calls (strace) against the model's operation list
    strace_ok = None
    d = os.path.join(base, "strace")
    os.makedirs(d)
    open(os.path.join(d, "a.rs"), "w").write(SRC[0])
    e = common.rust_env()
    e.pop("CARGO_TARGET_DIR", None)
    try:
        rc, o, err = common.sh(["strace", "-f", "-e", "trace=openat,rename,renameat,renameat2,unlink,unlinkat", common.bin_path("rustfmt"), "--backup", "a.rs"], cwd=d, env=e, timeout=120)
        seq = []
        for line in err.split("\n"):
            m = re.search(r'openat\([^,]+, "([^"]+)", ([A-Z_|]+)', line)
            if m and re.search(r"a\.(rs|tmp|bk)$", m.group(1)) and ("O_WRONLY" in m.group(2) or "O_RDWR" in m.group(2)):
                seq.append(["write", os.path.basename(m.group(1))])
            m = re.search(r'rename(?:at2?)?\((?:[^,"]+, )?"([^"]+)", (?:[^,"]+, )?"([^"]+)"', line)
            if m:
                seq.append(["rename", os.path.basename(m.group(1)), os.path.basename(m.group(2))])
            m = re.search(r'unlink(?:at)?\((?:[^,"]+, )?"([^"]+)"', line)
            if m and re.search(r"a\.(rs|tmp|bk)$", m.group(1)):
                seq.append(["unlink", os.path.basename(m.group(1))])
        want = [["unlink", "a.tmp"], ["write", "a.tmp"], ["rename", "a.rs", "a.bk"], ["rename", "a.tmp", "a.rs"]]
        if "strace: " in err and not seq and "ptrace" in err.lower():
            strace_ok = None
        else:
            strace_ok = seq == want
            if not strace_ok:
                disagreements.append(({"strace": True}, {"impl": seq, "model": want}))
        if model is not None:
            names = {1: "a.rs", 2: "a.tmp", 3: "a.bk"}
            mops = [["write", names[a]] if k == 0 else (["unlink", names[a]] if k == 2 else ["rename", names[a], names[b]]) for (k, a, b) in model[0][1]]
            if mops != want:
                disagreements.append(({"model_ops": True}, {"model": mops, "expected": want}))
    except (OSError, subprocess.TimeoutExpired) as ex:
        log("C20: strace unavailable: %s" % ex)
    shutil.rmtree(base, ignore_errors=True)
    okt, whatt = common.tie_phase(rep, "C20")
    if not okt:
        disagreements.append(({"regenerated_tie": True}, whatt))
    tie_broken = (not cr.ok) or model is None or disagreements
    if tie_broken and found == 0:
        what = []
        if not cr.ok:
            what.append("theorems of coq/C20/Props.v no longer check (%s %s %s)" % (cr.failed_files, cr.hygiene, cr.bad_assumptions))
        if model is None:
            what.append("model could not be evaluated")
        if disagreements:
            what.append("correspondence broken on %d cases, first: %r" % (len(disagreements), disagreements[0]))
        rep.violation("tie", {"broken": what, "first_disagreements": disagreements[:3]}, "; ".join(what)[:2000], no_input=True)
    show = [{k: v for k, v in c.items() if not k.startswith("_")} for c in cases]
    rep.coverage.update({
        "evaluations": len(cases),
        "distinct_nontrivial": len(nontrivial),
        "exhaustive": True,
        "rule": "every crash point (4) x {abort, injected I/O error} x every position of the rewritten file in a 3-file run, plus the uninterrupted run, for %d sets of source files; real `rustfmt --backup` processes; directory contents compared with the model state; plus runs where FILE.bk / FILE.tmp already exist as a non-empty directory (real failure of the rename / write) or as stale files (alone, and a stale FILE.bk combined with a real or injected failure or an abort at each named point of this run; FILE.tmp / FILE.bk as symbolic links to the file itself or to another file), and file names without extension, with two dots, ending in .tmp / .bk; non-trivial = a file is actually being rewritten when the fault hits" % nsets,
        "samples": show[:3] + show[-1:],
        "correspondence_disagreements": len(disagreements),
        "traces_validated_against_impl": len(cases),
        "strace_order_checked": strace_ok,
        "bins_build_s": round(bt, 1),
    })
    return rep.finish()
