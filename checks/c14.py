"""C14 — configuration resolution: discovery of the config file, precedence of file / --config / flags /
defaults, deprecated aliases, width heuristics, --print-config round trip."""
import json
import os
import re
import shutil
from concurrent.futures import ThreadPoolExecutor

from . import common, coqterm
from .common import log

PROP = "C14"
TRUSTED = [
    "Coq 8.16.1 kernel (coqc); vm_compute evaluates the model in cases.v; no native_compute",
    "Print Assumptions of every theorem in coq/C14/Props.v: Closed under the global context (checked each run)",
    "hand-written model coq/C14/Model.v of config/mod.rs (get_toml_path, resolve_project_file, load_config, config_path, to_toml), config/config_type.rs (create_config!: setters, fill_from_parsed_config, override_value, set_heuristics and the alias hooks), config/options.rs (WidthHeuristics, the default table) and bin/main.rs (apply_to); restricted to 26 options; tied to the code by running the real rustfmt binary (--print-config current) on random directory layouts / config files / command lines and comparing with run_discover / run_effective / run_scaled",
    "abstractions stated in Model.v: canonical absolute paths without symlinks; config files as parsed tables; usize = 64 bit; f32 arithmetic of WidthHeuristics::scaled replaced by exact rationals (validated here for every max_width in the tier's range); stderr warnings and the `accessed` flag not modelled; nightly build",
    "the property's expected values are recomputed in python from the case (independent of the model): nearest config file / dotted name / home / config dir / --config-path; --config > flag > file > default of the effective style edition; successors of deprecated aliases; explicit widths clamped to max_width, derived ones <= max_width",
    "the order in which apply_to iterates the --config HashMap is arbitrary; cases whose outcome depends on it are generated only in one dedicated case",
]

NAMES = ["max_width", "hard_tabs", "tab_spaces", "newline_style", "use_small_heuristics", "fn_call_width",
         "attr_fn_like_width", "struct_lit_width", "struct_variant_width", "array_width", "chain_width",
         "single_line_if_else_max_width", "single_line_let_else_max_width", "imports_granularity",
         "merge_imports", "fn_args_layout", "fn_params_layout", "edition", "style_edition", "version",
         "color", "unstable_features", "hide_parse_errors", "show_parse_errors", "emit_mode", "make_backup"]
ENUMS = {3: ["Auto", "Windows", "Unix", "Native"], 4: ["Off", "Max", "Default"],
         13: ["Preserve", "Crate", "Module", "Item", "One"], 15: ["Compressed", "Tall", "Vertical"],
         16: ["Compressed", "Tall", "Vertical"], 17: ["2015", "2018", "2021", "2024"],
         18: ["2015", "2018", "2021", "2024", "2027"], 19: ["One", "Two"], 20: ["Always", "Never", "Auto"],
         24: ["Files", "Stdout", "Coverage", "Checkstyle", "Json", "ModifiedLines", "Diff"]}
BOOLS = {1, 14, 21, 22, 23, 25}
WIDTHS = list(range(5, 13))
HIDDEN = {14, 15, 22}
DEFAULT_WIDTH = {5: 60, 6: 70, 7: 18, 8: 35, 9: 60, 10: 60, 11: 50, 12: 50}
I64_MAX = 2 ** 63 - 1
MW, USH, IG, MI, FAL, FPL, ED, SE, VER, COLOR, UF, HPE, SPE, EMIT, BACKUP = 0, 4, 13, 14, 15, 16, 17, 18, 19, 20, 21, 22, 23, 24, 25
EMIT_FLAG = ["files", "stdout", "coverage", "checkstyle", "json"]
COMP = {1: ".rustfmt.toml", 2: "rustfmt.toml", 3: "rustfmt"}
COQ_IMPORTS = "From V Require Import Base.Text C14.Model C14.Run.\nOpen Scope N_scope."


def default_of(se, k):
    """the default table of config/options.rs (only style_edition and version depend on the style edition)"""
    new = se in (3, 4)
    return {0: 100, 1: 0, 2: 4, 3: 0, 4: 2, 5: 60, 6: 70, 7: 18, 8: 35, 9: 60, 10: 60, 11: 50, 12: 50, 13: 0, 14: 0,
            15: 1, 16: 1, 17: 0, 18: 3 if new else 0, 19: 1 if new else 0, 20: 2, 21: 0, 22: 0, 23: 1, 24: 0, 25: 0}[k]


def show(k, v, toml):
    if k in ENUMS:
        s = ENUMS[k][v]
        return '"%s"' % s if toml else s
    if k in BOOLS:
        return "true" if v else "false"
    return str(v)


def parse_print(out):
    """`key = value` lines of --print-config -> ({modelled option id: encoded value}, {every key: raw text})"""
    vals, raw = {}, {}
    for line in out.split("\n"):
        k, sep, v = line.partition(" = ")
        if not sep:
            continue
        raw[k] = v
        if k in NAMES:
            i = NAMES.index(k)
            s = v.strip().strip('"')
            try:
                if i in ENUMS:
                    vals[i] = ENUMS[i].index(s)
                elif i in BOOLS:
                    vals[i] = {"true": 1, "false": 0}[s]
                else:
                    vals[i] = int(s)
            except (ValueError, KeyError):
                vals[i] = ("unparsed", s)
    return vals, raw


def rustfmt(args, env_extra, cwd=None, timeout=60):
    e = common.rust_env()
    e.pop("CARGO_TARGET_DIR", None)
    e.update(env_extra)
    return common.sh([common.bin_path("rustfmt")] + args, cwd=cwd, env=e, timeout=timeout)


def pmap(f, xs):
    with ThreadPoolExecutor(max_workers=common.NCPU) as ex:
        return list(ex.map(f, xs))


# ---------------------------------------------------------------------------------------------------
# (a) discovery

def comp_name(c):
    return COMP.get(c, "d%d" % c)


def real_path(root, p):
    return os.path.join(root, *[comp_name(c) for c in p]) if p else root


def gen_discovery(rnd, idx):
    depth = rnd.randint(0, 3)
    chain = [10, 11, 12]
    start = chain[:depth]
    dirs = [chain[:i] for i in range(0, 4)]
    files = []          # [path, kind]   kind 0 parses, 1 does not parse, 2 metadata error (ENOTDIR)
    taken = set()

    def put(p, kind=None):
        if tuple(p) in taken:
            return
        taken.add(tuple(p))
        files.append([p, (1 if rnd.random() < 0.08 else 0) if kind is None else kind])

    dens = rnd.choice([0.1, 0.25, 0.5])
    for i in range(0, 4):
        for nm in (1, 2):
            r = rnd.random()
            if r < dens:
                put(chain[:i] + [nm])
            elif r < dens + 0.08:
                if tuple(chain[:i] + [nm]) not in taken:
                    taken.add(tuple(chain[:i] + [nm]))
                    dirs.append(chain[:i] + [nm])          # a DIRECTORY named (.)rustfmt.toml
    home = cfg = None
    hk = rnd.random()
    home_is_file = False
    if hk < 0.2 and depth >= 1:
        # $HOME is an ancestor (or the directory itself) of the file: configuration files ABOVE the home directory are still
        # nearer than the home directory's own
        home = chain[:rnd.randint(1, depth)]
    elif hk < 0.55:
        home = [20]
        dirs.append([20])
        for nm in (1, 2):
            if rnd.random() < 0.4:
                put([20, nm])
    elif hk < 0.6:
        home = [20]
        home_is_file = True                                # $HOME names a regular file: metadata gives ENOTDIR
        files.append([[20, 1], 2])
    if rnd.random() < 0.5:
        cfg = [30]
        dirs += [[30], [30, 3]]
        for nm in (1, 2):
            if rnd.random() < 0.4:
                put([30, 3, nm])
        if rnd.random() < 0.3:
            put([30, 2])                                   # directly in the config dir: not looked at
    cp = None
    ck = rnd.random()
    if ck < 0.12:
        cp = [40]
        dirs.append([40])
        for nm in (1, 2):
            if rnd.random() < 0.5:
                put([40, nm])
    elif ck < 0.2:
        cp = [40, 2]
        dirs.append([40])
        put([40, 2])
        if rnd.random() < 0.6:
            put([40, 1])                                   # the dotted name next to the NAMED file: not looked at
    elif ck < 0.26:
        cp = [41]                                          # does not exist
    elif ck < 0.32:
        cp = rnd.choice([[10], [10, 11], []])
    elif ck < 0.36:
        cp = [40, 9]                                       # a config file under another name
        dirs.append([40])
        put([40, 9])
        for nm in (1, 2):
            if rnd.random() < 0.6:
                put([40, nm])                              # standard names next to the named file: not looked at
    return {"kind": "discovery", "id": idx, "files": files, "dirs": dirs, "home": home, "home_is_file": home_is_file,
            "cfg": cfg, "cp": cp, "start": start}


def width_of(case, p):
    """the distinguishing max_width written into the config file at path p"""
    for i, (q, k) in enumerate(case["files"]):
        if q == p:
            return 101 + i
    return None


def build_tree(case, base):
    root = os.path.join(base, "t%d" % case["id"], "r")
    shutil.rmtree(os.path.dirname(root), ignore_errors=True)
    os.makedirs(root)
    for d in case["dirs"]:
        os.makedirs(real_path(root, d), exist_ok=True)
    for i, (p, k) in enumerate(case["files"]):
        if k == 2:
            continue
        os.makedirs(os.path.dirname(real_path(root, p)), exist_ok=True)
        with open(real_path(root, p), "w") as f:
            f.write("max_width = %d\n" % (101 + i) if k == 0 else "max_width = = 3\n")
    if case["home_is_file"]:
        with open(real_path(root, [20]), "w") as f:
            f.write("not a directory\n")
    os.makedirs(real_path(root, case["start"]), exist_ok=True)
    with open(os.path.join(real_path(root, case["start"]), "x.rs"), "w") as f:
        f.write("fn main() {}\n")
    return root


def run_discovery(case, base):
    root = build_tree(case, base)
    env = {"HOME": real_path(root, case["home"]) if case["home"] is not None else os.path.join(root, "no-home"),
           "XDG_CONFIG_HOME": real_path(root, case["cfg"]) if case["cfg"] is not None else os.path.join(root, "no-xdg")}
    args = []
    if case["cp"] is not None:
        args += ["--config-path", real_path(root, case["cp"])]
    args += ["--print-config", "current", os.path.join(real_path(root, case["start"]), "x.rs")]
    rc, o, e = rustfmt(args, env)
    shutil.rmtree(os.path.dirname(root), ignore_errors=True)
    vals, _ = parse_print(o)
    if MW in vals:
        if vals[MW] == 100:
            return [1, []]
        for i, (p, k) in enumerate(case["files"]):
            if vals[MW] == 101 + i:
                return [0, p]
        return [9, "max_width %r" % (vals[MW],)]
    if "unable to find a config file" in e:
        return [2, []]
    if "Failed to get metadata" in e:
        return [3, []]
    if "Could not parse TOML" in e or "failed to parse" in e:
        return [5, []]
    if "No such file or directory" in e:
        return [4, []]
    return [9, (e or o)[-300:]]


def expected_discovery(case):
    """the property: nearest ancestor-or-self with a config FILE (dotted name first), then home, then config
    dir/rustfmt; --config-path replaces all of it; a chosen file that does not parse is an error"""
    kinds = {tuple(p): k for p, k in case["files"]}
    dirs = set(tuple(d) for d in case["dirs"])

    def in_dir(d):
        for nm in (1, 2):
            k = kinds.get(tuple(d) + (nm,))
            if k == 2:
                return "ioerr"
            if k is not None:
                return list(d) + [nm]
        return None

    def chosen(p):
        return [5, []] if kinds[tuple(p)] == 1 else [0, p]

    cp = case["cp"]
    if cp is not None:
        if tuple(cp) in kinds:
            return chosen(cp)
        if tuple(cp) in dirs or cp == []:
            r = in_dir(cp)
            return chosen(r) if r else [2, []]
        return [2, []]
    cur = list(case["start"])
    cands = []
    while True:
        cands.append(list(cur))
        if not cur:
            break
        cur = cur[:-1]
    if case["home"] is not None:
        cands.append(case["home"])
    if case["cfg"] is not None:
        cands.append(case["cfg"] + [3])
    for d in cands:
        r = in_dir(d)
        if r == "ioerr":
            return [3, []]
        if r:
            return chosen(r)
    return [1, []]


def discovery_expr(case):
    files = [(p, k) for p, k in case["files"]]
    opt = lambda x: None if x is None else coqterm.Ctor("Some", x)
    return "run_discover %s %s %s %s %s %s" % (coqterm.render(files), coqterm.render(case["dirs"]),
                                               coqterm.render(opt(case["home"])), coqterm.render(opt(case["cfg"])),
                                               coqterm.render(opt(case["cp"])), coqterm.render(case["start"]))


# ---------------------------------------------------------------------------------------------------
# (b) precedence / merge

def rnd_val(rnd, k, for_file):
    if k in ENUMS:
        return rnd.randrange(len(ENUMS[k]))
    if k in BOOLS:
        return rnd.randrange(2)
    if k == MW:
        return rnd.choice([0, 17, 20, 35, 50, 59, 60, 69, 70, 80, 99, 100, 101, 105, 120, 137, 155, 200, 1000, 9999])
    if k == 2:
        return rnd.choice([0, 2, 4, 8])
    return rnd.choice([0, 10, 45, 60, 90, 100, 150, 250, 5000])


def gen_precedence(rnd, idx):
    keys = list(range(26))
    f = None
    if rnd.random() < 0.8:
        f = [[k, rnd_val(rnd, k, True)] for k in rnd.sample(keys, rnd.randint(0, 6))]
    inl = [[k, rnd_val(rnd, k, False)] for k in rnd.sample(keys, rnd.randint(0, 4))]
    if any(k == MW for k, _ in inl):
        # the outcome of max_width together with a width in the same --config list depends on the HashMap order
        inl = [[k, v] for k, v in inl if k not in WIDTHS]
    x = rnd.random()
    if x < 0.12:
        # an option pinned on the command line to the value it would have anyway, next to a key that makes rustfmt re-derive it:
        # a width at its default with a larger max_width / another heuristics mode (value <= 100: the order of the two does not matter)
        k = rnd.choice(WIDTHS)
        inl = [[k, DEFAULT_WIDTH[k]], rnd.choice([[MW, rnd.choice([120, 150, 200, 300])], [USH, 1]])]
        rnd.shuffle(inl)
        # (a max_width / heuristics mode / width from the FILE would make the outcome depend on the order in which the --config
        # pairs are applied: the recorded finding config_order_nondeterministic)
        f = [kv for kv in (f or []) if kv[0] not in WIDTHS and kv[0] not in (MW, USH)] or None
    elif x < 0.2:
        # ... or the successor of a deprecated alias pinned to its default next to the alias
        inl = rnd.choice([[[IG, 0], [MI, 1]], [[FPL, 1], [FAL, rnd.choice([0, 2])]], [[SPE, 1], [HPE, 1]]])
        rnd.shuffle(inl)
    ed = rnd.choice([None, None, 0, 1, 2, 3])
    se = rnd.choice([None, None, None, 0, 1, 2, 3, 4])
    check = rnd.random() < 0.2
    emit = None if check else rnd.choice([None, None, 0, 1, 2, 3, 4])
    return {"kind": "precedence", "id": idx, "file": f, "inline": inl, "edition": ed, "style_edition": se, "check": check,
            "emit": emit, "backup": rnd.random() < 0.2, "color": rnd.choice([None, None, 0, 1, 2]),
            "unstable": rnd.random() < 0.25}


def fixed_precedence():
    base = {"kind": "precedence", "file": None, "inline": [], "edition": None, "style_edition": None, "check": False,
            "emit": None, "backup": False, "color": None, "unstable": False}
    out = []
    for f, inl, extra in [
        (None, [[MW, 50]], {}),                                    # derived widths above max_width
        ([[5, 150]], [[MW, 200]], {}),                             # file width, max_width raised on the command line
        ([[5, 150], [MW, 200]], [], {}),                           # ... and both in the file
        (None, [[HPE, 1]], {}),
        ([[HPE, 0]], [], {}),
        ([[UF, 1], [MW, 90]], [], {}),
        (None, [[USH, 0]], {}),                                    # Off: --print-config fails
        ([[SE, 0]], [[VER, 1]], {"edition": 3}),                   # file style_edition beats CLI version/edition
        ([[VER, 1]], [], {"edition": 1}),
        (None, [], {"edition": 2}),
        ([[IG, 2]], [[MI, 1]], {}),
        ([[MI, 1], [FAL, 2]], [], {}),
        (None, [[EMIT, 0]], {"check": True}),
        ([[USH, 1], [MW, 77], [10, 40]], [], {}),
    ]:
        c = dict(base)
        c.update({"file": f, "inline": inl})
        c.update(extra)
        out.append(c)
    return out


def precedence_args(c):
    args = []
    if c["edition"] is not None:
        args += ["--edition", ENUMS[ED][c["edition"]]]
    if c["style_edition"] is not None:
        args += ["--style-edition", ENUMS[SE][c["style_edition"]]]
    if c["check"]:
        args += ["--check"]
    if c["emit"] is not None:
        args += ["--emit", EMIT_FLAG[c["emit"]]]
    if c["backup"]:
        args += ["--backup"]
    if c["color"] is not None:
        args += ["--color", ENUMS[COLOR][c["color"]]]
    if c["unstable"]:
        args += ["--unstable-features"]
    if c["inline"]:
        args += ["--config", ",".join("%s=%s" % (NAMES[k], show(k, v, False)) for k, v in c["inline"])]
    return args


def run_precedence(c, base, file_text=None):
    d = os.path.join(base, "p%d" % c["id"])
    shutil.rmtree(d, ignore_errors=True)
    os.makedirs(d)
    with open(os.path.join(d, "x.rs"), "w") as f:
        f.write("fn main() {}\n")
    if file_text is not None:
        with open(os.path.join(d, "rustfmt.toml"), "w") as f:
            f.write(file_text)
    elif c["file"] is not None:
        with open(os.path.join(d, "rustfmt.toml"), "w") as f:
            f.write("".join("%s = %s\n" % (NAMES[k], show(k, v, True)) for k, v in c["file"]))
    env = {"HOME": os.path.join(d, "no-home"), "XDG_CONFIG_HOME": os.path.join(d, "no-xdg")}
    rc, o, e = rustfmt(precedence_args(c) + ["--print-config", "current", os.path.join(d, "x.rs")], env)
    shutil.rmtree(d, ignore_errors=True)
    vals, raw = parse_print(o)
    return {"rc": rc, "vals": {str(k): v for k, v in vals.items()}, "raw": raw, "stdout": o,
            "stderr": e[-400:], "print_failed": "Could not output config" in e}


def precedence_expr(c):
    opt = lambda x: None if x is None else coqterm.Ctor("Some", x)
    tbl = lambda t: [(k, v) for k, v in t]
    return "run_effective true %s %s %s %s %s %s %s %s %s" % (
        coqterm.render(None if c["file"] is None else coqterm.Ctor("Some", tbl(c["file"]))),
        coqterm.render(opt(c["edition"])), coqterm.render(opt(c["style_edition"])), coqterm.render(c["check"]),
        coqterm.render(opt(c["emit"])), coqterm.render(c["backup"]), coqterm.render(opt(c["color"])),
        coqterm.render(c["unstable"]), coqterm.render(tbl(c["inline"])))


def judge_precedence(c, vals):
    """the property on one printed configuration -> [(key, what)]"""
    inl = {k: v for k, v in c["inline"]}
    fil = {k: v for k, v in (c["file"] or [])}
    flag = {}
    if c["edition"] is not None:
        flag[ED] = c["edition"]
    if c["style_edition"] is not None:
        flag[SE] = c["style_edition"]
    if c["check"]:
        flag[EMIT] = 6
    elif c["emit"] is not None:
        flag[EMIT] = c["emit"]
    if c["backup"]:
        flag[BACKUP] = 1
    if c["color"] is not None:
        flag[COLOR] = c["color"]
    if c["unstable"]:
        flag[UF] = 1

    def cli(k):
        return inl[k] if k in inl else flag.get(k)

    def given(k):
        return cli(k) if cli(k) is not None else fil.get(k)

    # the effective style edition: style_edition, else legacy version, else edition
    if given(SE) is not None:
        se = given(SE)
    elif given(VER) is not None:
        se = 3 if given(VER) == 1 else 0
    elif given(ED) is not None:
        se = given(ED)
    else:
        se = 0
    exp = {}
    for k in range(26):
        if k in WIDTHS or k in (IG, FPL, SPE):
            continue
        exp[k] = given(k) if given(k) is not None else default_of(se, k)
    exp[IG] = given(IG) if given(IG) is not None else ((1 if given(MI) else 0) if given(MI) is not None else 0)
    exp[FPL] = given(FPL) if given(FPL) is not None else (given(FAL) if given(FAL) is not None else 1)
    exp[SPE] = given(SPE) if given(SPE) is not None else ((1 - given(HPE)) if given(HPE) is not None else 1)
    mw = exp[MW]
    out = []
    for k in sorted(vals):
        got = vals[k]
        name = NAMES[k]
        if k in WIDTHS:
            if given(k) is not None:
                want = min(given(k), mw)
                if got != want:
                    old = fil.get(MW, 100)
                    if MW in inl and k not in inl and got == min(given(k), old) and got <= mw:
                        out.append(("max_width_from_cli_clamps_against_old",
                                    "%s = %d in the file, max_width = %d in the file / by default, --config max_width=%d: %s is %d, not min(%d, %d)" % (
                                        name, given(k), old, mw, name, got, given(k), mw)))
                    else:
                        out.append(("explicit_width:" + name, "%s given as %d with max_width %d: effective %r, expected %d" % (name, given(k), mw, got, want)))
            else:
                if not isinstance(got, int) or got > mw:
                    if exp[USH] == 2 and mw < DEFAULT_WIDTH[k] and got == DEFAULT_WIDTH[k]:
                        out.append(("derived_width_exceeds_max_width",
                                    "use_small_heuristics = Default, max_width = %d: derived %s = %d exceeds max_width" % (mw, name, got)))
                    else:
                        out.append(("derived_width:" + name, "derived %s = %r exceeds max_width = %d (use_small_heuristics %s)" % (name, got, mw, ENUMS[USH][exp[USH]])))
                elif exp[USH] == 1 and got != mw:
                    out.append(("derived_width_max:" + name, "use_small_heuristics = Max: %s = %r, max_width = %d" % (name, got, mw)))
            continue
        if got == exp[k]:
            continue
        if k == SPE and given(SPE) is None and given(HPE) is not None and got == given(HPE):
            out.append(("hide_parse_errors_copied", "hide_parse_errors = %s gives show_parse_errors = %s" % (show(HPE, given(HPE), False), show(SPE, got, False))))
        elif k == UF and cli(UF) is None and fil.get(UF) == 1 and got == 0:
            out.append(("unstable_features_file_ignored", "unstable_features = true in the config file, no --unstable-features flag: effective value false"))
        else:
            out.append(("precedence:" + name, "%s: effective %r, expected %r (--config %r, flags %r, file %r, effective style edition %s)" % (
                name, got, exp[k], c["inline"], flag, c["file"], ENUMS[SE][se])))
    return out


# ---------------------------------------------------------------------------------------------------

def run(tier, seed, replay):
    rep = common.Reporter(PROP, tier, seed, "proof")
    rep.assumptions = TRUSTED
    cr = common.coq_phase(["C14"], "C14/Props.v")
    common.coq_coverage(rep, cr, "cd coq && make C14/Props.vo && coqc -Q . V C14/Props.v (+ hygiene grep, Print Assumptions allow-list)", TRUSTED)
    if not cr.ok:
        log("C14 proof phase failed: %s %s %s\n%s" % (cr.hygiene, cr.bad_assumptions, cr.failed_files, cr.build_log[-1500:]))
    ok, blog, bt = common.build_bins()
    if not ok:
        raise RuntimeError("build of /repo binaries failed:\n" + blog)
    rnd = common.rng(seed, PROP)
    base = os.path.join(common.CACHE, "c14")
    shutil.rmtree(base, ignore_errors=True)
    os.makedirs(base)
    # nothing above the scratch tree may be a config file (the model's root is the scratch root)
    up = os.path.realpath(base)
    while True:
        for nm in (".rustfmt.toml", "rustfmt.toml"):
            if os.path.isfile(os.path.join(up, nm)):
                raise RuntimeError("config file %s above the scratch tree" % os.path.join(up, nm))
        if os.path.dirname(up) == up:
            break
        up = os.path.dirname(up)

    quick = tier == "quick"
    disc_cases, prec_cases, scaled_range, n_round, n_order = [], [], [], 0, 0
    if replay:
        rc_case = json.load(open(replay)).get("case") or {}
        kind = rc_case.get("kind")
        if kind == "discovery":
            disc_cases = [rc_case]
        elif kind in ("precedence", "roundtrip"):
            rc_case = dict(rc_case, kind="precedence")
            prec_cases = [rc_case]
            n_round = 1 if kind == "roundtrip" else 0
        elif kind == "scaled":
            scaled_range = [rc_case["max_width"]]
        elif kind == "order":
            n_order = 16
    else:
        disc_cases = [gen_discovery(rnd, i) for i in range(150 if quick else 2500)]
        prec_cases = fixed_precedence() + [gen_precedence(rnd, 0) for _ in range(250 if quick else 4000)]
        scaled_range = list(range(0, 401 if quick else 10001))
        n_round = 70 if quick else 800
        n_order = 16 if quick else 64
    for i, c in enumerate(prec_cases):
        c["id"] = i
    found = 0
    disagreements = []
    nontrivial = set()
    class_counts = {}
    CAP = 3

    def report(key, obj, what):
        """rep.violation, at most CAP times per key (every occurrence is counted in class_counts)"""
        nonlocal found
        class_counts[key] = class_counts.get(key, 0) + 1
        if class_counts[key] <= CAP:
            if rep.violation(key, obj, what):
                found += 1

    model_ok = True

    def model_eval(exprs, tag, per_file):
        nonlocal model_ok
        if not exprs:
            return []
        try:
            return common.run_coq_cases(COQ_IMPORTS, "", exprs, tag, per_file=per_file)
        except Exception as e:
            log("C14: model evaluation (%s) failed: %s" % (tag, str(e)[-1200:]))
            model_ok = False
            return None

    # ---------------- (a) discovery
    t_disc = pmap(lambda c: run_discovery(c, base), disc_cases)
    m_disc = model_eval([discovery_expr(c) for c in disc_cases], "c14a", max(1, len(disc_cases) // common.NCPU + 1))
    for i, (c, got) in enumerate(zip(disc_cases, t_disc)):
        want = expected_discovery(c)
        if got != want:
            report("discovery", {"case": c, "impl": got, "expected": want},
                   "config discovery chose %r, the property prescribes %r (0 = file, 1 = defaults, 2 = --config-path not found, 3 = I/O error, 5 = parse error)" % (got, want))
        elif got[0] == 0 and len(c["files"]) > 1:
            nontrivial.add(common.case_hash(c))
        if m_disc is not None:
            mc, mp = m_disc[i]
            if [mc, list(mp)] != got:
                disagreements.append((c, {"impl": got, "model": [mc, list(mp)]}))
    # one case outside the generator: the start directory does not exist
    if not replay:
        d = os.path.join(base, "nodir")
        os.makedirs(d)
        rc, o, e = rustfmt(["--print-config", "current", os.path.join(d, "missing", "x.rs")],
                           {"HOME": os.path.join(d, "h"), "XDG_CONFIG_HOME": os.path.join(d, "x")})
        m = model_eval(["run_discover [] [[]] None None None [10]"], "c14a2", 10)
        got = 4 if ("No such file or directory" in e and not o) else 9
        if m is not None and m[0][0] != got:
            disagreements.append(({"kind": "discovery", "missing_start_dir": True}, {"impl": [got, e[-200:]], "model": coqterm.plain(m[0])}))

    # ---------------- (a') discovery is per input: several files of one invocation, each under its own nearest config
    if not replay or (json.load(open(replay)).get("case") or {}).get("kind") == "multi":
        n_multi = 40 if quick else 400
        mrnd = common.rng(seed, PROP + "multi")

        def one_multi(i):
            r = __import__("random").Random("%d-%d" % (seed, i))
            root = os.path.join(base, "m%d" % i)
            shutil.rmtree(root, ignore_errors=True)
            dirs = [[], ["d10"], ["d10", "d11"], ["d10", "d11", "d12"], ["e10"], ["d10", "e11"]]
            cfgs = {}
            for d in dirs:
                if r.random() < 0.45:
                    cfgs[tuple(d)] = (r.choice([".rustfmt.toml", "rustfmt.toml"]), r.choice([1, 2, 3, 5, 6, 7, 8]))
            srcs = []
            for d in dirs:
                for k in range(r.choice([0, 1, 1, 2])):
                    srcs.append(d + ["f%d.rs" % k])
            if len(srcs) < 2:
                srcs = [["d10", "a.rs"], ["d10", "d11", "b.rs"]]
            for d in dirs:
                os.makedirs(os.path.join(root, *d), exist_ok=True)
            for d, (nm, ts) in cfgs.items():
                open(os.path.join(root, *d, nm), "w").write("tab_spaces = %d\n" % ts)
            body = "fn f() {\n let x = 1;\n}\n"
            for sp in srcs:
                open(os.path.join(root, *sp), "w").write(body)
            order = list(srcs)
            r.shuffle(order)
            rc, o, e = rustfmt([os.path.join(root, *sp) for sp in order], {"HOME": os.path.join(root, "no-home"), "XDG_CONFIG_HOME": os.path.join(root, "no-xdg")})
            bad = []
            for sp in srcs:
                d = sp[:-1]
                want = 4
                while True:
                    if tuple(d) in cfgs:
                        want = cfgs[tuple(d)][1]
                        break
                    if not d:
                        break
                    d = d[:-1]
                text = open(os.path.join(root, *sp)).read()
                m = re.search(r"^( *)let x", text, re.M)
                got = len(m.group(1)) if m else None
                if got != want:
                    bad.append({"file": "/".join(sp), "indent": got, "tab_spaces_of_nearest_config": want})
            shutil.rmtree(root, ignore_errors=True)
            return {"kind": "multi", "order": ["/".join(x) for x in order], "configs": {"/".join(k) or ".": v for k, v in cfgs.items()}, "rc": rc, "stderr": e[-300:]}, bad
        for case_m, bad in pmap(one_multi, list(range(n_multi))):
            if bad:
                report("multi_file_discovery", {"case": case_m, "wrong": bad},
                       "in one invocation over %r a file was formatted under a configuration that is not its nearest one: %r" % (case_m["order"], bad))
            elif len(case_m["configs"]) > 1:
                nontrivial.add(common.case_hash(case_m))
        rep.coverage["multi_file_invocations"] = n_multi

    # ---------------- (c) WidthHeuristics::scaled, exhaustively over the tier's range
    def one_scaled(n):
        rc, o, e = rustfmt(["--config", "max_width=%d" % n, "--print-config", "current", os.path.join(base, "s.rs")],
                           {"HOME": os.path.join(base, "no-home"), "XDG_CONFIG_HOME": os.path.join(base, "no-xdg")})
        vals, _ = parse_print(o)
        return [vals.get(w) for w in WIDTHS], vals.get(MW)
    with open(os.path.join(base, "s.rs"), "w") as f:
        f.write("fn main() {}\n")
    t_scaled = pmap(one_scaled, scaled_range)
    chunk = 500
    exprs = ["map run_scaled %s" % coqterm.render(scaled_range[i:i + chunk]) for i in range(0, len(scaled_range), chunk)]
    m_scaled = model_eval(exprs, "c14c", 2)
    flat = [list(x) for ch in m_scaled for x in ch] if m_scaled is not None else None
    scaled_bad = 0
    for i, (n, (got, mw)) in enumerate(zip(scaled_range, t_scaled)):
        if flat is not None and (got != flat[i] or mw != n):
            scaled_bad += 1
            disagreements.append(({"kind": "scaled", "max_width": n}, {"impl": got, "model": flat[i]}))
        over = [(NAMES[w], v) for w, v in zip(WIDTHS, got) if not isinstance(v, int) or v > n]
        if over:
            key = "derived_width_exceeds_max_width" if all(v == DEFAULT_WIDTH[NAMES.index(nm)] for nm, v in over) else "derived_width:scaled"
            report(key, {"case": {"kind": "scaled", "max_width": n}, "impl": got},
                   "--config max_width=%d (use_small_heuristics = Default): derived widths %r exceed max_width" % (n, over))
        else:
            nontrivial.add("scaled-%d" % n)

    # ---------------- (b) precedence / merge
    t_prec = pmap(lambda c: run_precedence(c, base), prec_cases)
    m_prec = model_eval([precedence_expr(c) for c in prec_cases], "c14b", max(1, len(prec_cases) // common.NCPU + 1))
    printed_ok = []
    for i, (c, r) in enumerate(zip(prec_cases, t_prec)):
        vals = {int(k): v for k, v in r["vals"].items()}
        mvals = {k: v for k, v in m_prec[i]} if m_prec is not None else None
        if r["print_failed"]:
            if mvals is not None and not any(mvals[k] > I64_MAX for k in [MW, 2] + WIDTHS):
                disagreements.append((c, {"impl": "print-config failed: " + r["stderr"], "model": "prints"}))
            report("print_config_off_fails", {"case": c, "impl": {"rc": r["rc"], "stderr": r["stderr"]}},
                   "--print-config current prints nothing: %s (use_small_heuristics = Off makes four widths usize::MAX)" % r["stderr"].strip()[-200:])
            continue
        if not vals:
            report("print_config_error", {"case": c, "impl": {"rc": r["rc"], "stderr": r["stderr"]}}, "--print-config current failed: %s" % r["stderr"])
            if mvals is not None:
                disagreements.append((c, {"impl": r["stderr"], "model": "prints"}))
            continue
        printed_ok.append(i)
        if mvals is not None:
            diff = [(NAMES[k], vals[k], mvals[k]) for k in vals if mvals.get(k) != vals[k]]
            missing = [NAMES[k] for k in range(26) if k not in HIDDEN and k not in vals]
            if diff or missing:
                disagreements.append((c, {"impl_vs_model": diff, "not_printed": missing}))
        js = judge_precedence(c, vals)
        for key, what in js:
            report(key, {"case": c, "impl": r["vals"]}, what)
        if not js and (c["file"] or c["inline"]):
            nontrivial.add(common.case_hash({k: v for k, v in c.items() if k != "id"}))

    # ---------------- the one shape whose outcome depends on the HashMap order
    order_outcomes = {}
    if n_order:
        oc = {"kind": "order", "inline": [[MW, 200], [5, 150]]}
        m = model_eval(["run_effective true None None None false None false None false [(0, 200); (5, 150)]",
                        "run_effective true None None None false None false None false [(5, 150); (0, 200)]"], "c14o", 10)
        allowed = None if m is None else set(dict(x)[5] for x in m)

        def one_order(j):
            rc, o, e = rustfmt(["--config", "max_width=200,fn_call_width=150", "--print-config", "current", os.path.join(base, "s.rs")],
                               {"HOME": os.path.join(base, "no-home"), "XDG_CONFIG_HOME": os.path.join(base, "no-xdg")})
            return parse_print(o)[0].get(5)
        for v in pmap(one_order, range(n_order)):
            order_outcomes[v] = order_outcomes.get(v, 0) + 1
        for v in order_outcomes:
            if allowed is not None and v not in allowed:
                disagreements.append((oc, {"impl": v, "model_outcomes": sorted(allowed)}))
            if v == 100:
                report("config_order_nondeterministic", {"case": oc, "impl": order_outcomes},
                       "--config max_width=200,fn_call_width=150 run %d times: fn_call_width outcomes %r (150 when max_width is applied first, 100 otherwise)" % (n_order, order_outcomes))
            elif v != 150:
                report("config_order:other", {"case": oc, "impl": order_outcomes}, "fn_call_width = %r" % (v,))

    # ---------------- (d) --print-config round trip
    rt_idx = printed_ok[:len(fixed_precedence())] if not replay else printed_ok
    rest = [i for i in printed_ok if i not in rt_idx]
    rnd.shuffle(rest)
    rt_idx = (rt_idx + rest)[:n_round] if n_round else []
    empty = {"kind": "precedence", "file": None, "inline": [], "edition": None, "style_edition": None, "check": False,
             "emit": None, "backup": False, "color": None, "unstable": False}
    rt_cases = []
    for j, i in enumerate(rt_idx):
        c2 = dict(empty)
        c2["id"] = 100000 + j
        c2["file"] = [[k, v] for k, v in sorted((int(k), v) for k, v in t_prec[i]["vals"].items())]
        rt_cases.append((i, c2))
    t_rt = pmap(lambda ic: run_precedence(ic[1], base, file_text=t_prec[ic[0]]["stdout"]), rt_cases)
    m_rt = model_eval([precedence_expr(c2) for _, c2 in rt_cases], "c14d", max(1, len(rt_cases) // common.NCPU + 1))
    rt_done = 0
    for j, ((i, c2), r2) in enumerate(zip(rt_cases, t_rt)):
        c = prec_cases[i]
        show_case = dict(c, kind="roundtrip")
        first, second = t_prec[i]["raw"], r2["raw"]
        if m_rt is not None and not r2["print_failed"]:
            mvals = {k: v for k, v in m_rt[j]}
            v2 = {int(k): v for k, v in r2["vals"].items()}
            diff = [(NAMES[k], v2[k], mvals[k]) for k in v2 if mvals.get(k) != v2[k]]
            if diff:
                disagreements.append((c2, {"impl_vs_model": diff}))
        if not second:
            report("print_config_roundtrip:unreadable", {"case": show_case, "printed": t_prec[i]["stdout"], "impl": r2["stderr"]},
                   "the text printed by --print-config current is not accepted as a config file: %s" % r2["stderr"])
            continue
        rt_done += 1
        changed = sorted(k for k in set(first) | set(second) if first.get(k) != second.get(k))
        if not changed:
            nontrivial.add("rt-" + common.case_hash({k: v for k, v in c.items() if k != "id"}))
            continue
        v1 = {int(k): v for k, v in t_prec[i]["vals"].items()}
        rest_changed = []
        for k in changed:
            ki = NAMES.index(k) if k in NAMES else None
            if ki in WIDTHS and v1[ki] > v1[MW] and second.get(k) == str(v1[MW]):
                report("print_config_roundtrip_scaled", {"case": show_case, "first": first.get(k), "second": second.get(k)},
                       "--print-config current prints max_width = %d and %s = %d; read back as a config file %s = %s" % (v1[MW], k, v1[ki], k, second.get(k)))
            elif ki == UF and first.get(k) == "true" and second.get(k) == "false":
                report("unstable_features_file_ignored", {"case": show_case, "first": first.get(k), "second": second.get(k)},
                       "--print-config current prints unstable_features = true; read back from a config file it is false")
            else:
                rest_changed.append((k, first.get(k), second.get(k)))
        if rest_changed:
            report("print_config_roundtrip", {"case": show_case, "changed": rest_changed},
                   "--print-config current output read back as a config file changes %r" % (rest_changed,))

    shutil.rmtree(base, ignore_errors=True)
    tie_broken = (not cr.ok) or (not model_ok) or disagreements
    if tie_broken and found == 0:
        what = []
        if not cr.ok:
            what.append("theorems of coq/C14/Props.v no longer check (%s %s %s)" % (cr.failed_files, cr.hygiene, cr.bad_assumptions))
        if not model_ok:
            what.append("model could not be evaluated")
        if disagreements:
            what.append("correspondence broken on %d cases, first: %r" % (len(disagreements), disagreements[0]))
        rep.violation("tie", {"broken": what, "first_disagreements": disagreements[:3]}, "; ".join(what)[:3000], no_input=True)
    n_eval = len(disc_cases) + len(prec_cases) + len(scaled_range) + len(rt_cases) + n_order
    strip = lambda c: {k: v for k, v in c.items() if k != "id"}
    rep.coverage.update({
        "evaluations": n_eval,
        "distinct_nontrivial": len(nontrivial),
        "rule": "(a) %d seeded directory layouts (start directory 0..3 levels deep; each level with .rustfmt.toml / rustfmt.toml as file, unparsable file or directory; home and config-dir/rustfmt files; $HOME beside the project or an ancestor of the file (configuration above it); $HOME naming a regular file; --config-path to a directory with/without config, a file, a missing path), every config file with its own max_width, chosen file read off `--print-config current`; compared with run_discover and with the nearest/dotted/home/config-dir/--config-path rule recomputed in python. "
                "(b) %d command lines (fixed + seeded): config file of 0..6 of the 26 modelled options, --config with 0..4 pairs, --edition/--style-edition/--check/--emit/--backup/--color/--unstable-features; every printed option compared with run_effective and with --config > flag > file > default(effective style edition), alias successors, explicit widths = min(value, max_width), derived widths <= max_width. "
                "(c) WidthHeuristics::scaled for every max_width in %d..%d against run_scaled. "
                "(d) %d printed configurations written back as rustfmt.toml and printed again (all keys of the output compared, also against the model). "
                "(e) `--config max_width=200,fn_call_width=150` %d times against both application orders of the model. "
                "non-trivial = a config file was chosen among several / some option given and the property holds / width within max_width / round trip unchanged; distinct by hash" % (
                    len(disc_cases), len(prec_cases), scaled_range[0] if scaled_range else 0, scaled_range[-1] if scaled_range else 0, rt_done, n_order),
        "samples": [strip(c) for c in (disc_cases[:2] + prec_cases[len(fixed_precedence()):len(fixed_precedence()) + 2])][:4],
        "correspondence_disagreements": len(disagreements),
        "traces_validated_against_impl": n_eval if model_ok else 0,
        "discovery_cases": len(disc_cases),
        "discovery_outcomes": {str(k): sum(1 for g in t_disc if g[0] == k) for k in sorted(set(g[0] for g in t_disc))},
        "precedence_cases": len(prec_cases),
        "scaled_values": len(scaled_range),
        "scaled_disagreements": scaled_bad,
        "roundtrip_cases": rt_done,
        "order_outcomes": {str(k): v for k, v in order_outcomes.items()},
        "class_counts": class_counts,
        "bins_build_s": round(bt, 1),
    })
    return rep.finish()
