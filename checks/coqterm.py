"""Render Python values as Gallina terms and parse the terms Coq prints back.

Rendering:  int -> N literal, str -> list of code points, list -> list,
tuple -> tuple, bool -> true/false, None -> None, ('Ctor', args...) via Ctor class.
Parsing: generic reader for what `Eval vm_compute` prints: numbers, lists
`[a; b]`, tuples `(a, b)`, applications `C x y`, identifiers, strings.
"""
import re


class Ctor:
    def __init__(self, name, *args):
        self.name = name
        self.args = args

    def __repr__(self):
        return "Ctor(%s,%r)" % (self.name, self.args)


class Raw:
    """verbatim Gallina"""

    def __init__(self, s):
        self.s = s


def text(s):
    """a Python str as a Gallina `text` (list N of code points)"""
    return "[" + "; ".join(str(ord(c)) for c in s) + "]"


def render(v):
    if isinstance(v, Raw):
        return v.s
    if isinstance(v, bool):
        return "true" if v else "false"
    if isinstance(v, int):
        return str(v)
    if isinstance(v, str):
        return text(v)
    if v is None:
        return "None"
    if isinstance(v, list):
        return "[" + "; ".join(render(x) for x in v) + "]"
    if isinstance(v, tuple):
        return "(" + ", ".join(render(x) for x in v) + ")"
    if isinstance(v, Ctor):
        if not v.args:
            return v.name
        return "(" + v.name + " " + " ".join(render(a) for a in v.args) + ")"
    raise TypeError(repr(v))


_tok = re.compile(r'\s*(?:(\d+)(?:%\w+)?|([A-Za-z_][A-Za-z_0-9\.\']*)|("(?:[^"]|"")*")|(.))')


def _tokens(s):
    pos = 0
    out = []
    n = len(s)
    while pos < n:
        m = _tok.match(s, pos)
        if not m:
            break
        pos = m.end()
        if m.group(1) is not None:
            out.append(("num", int(m.group(1))))
        elif m.group(2) is not None:
            out.append(("id", m.group(2)))
        elif m.group(3) is not None:
            out.append(("str", m.group(3)[1:-1].replace('""', '"')))
        elif m.group(4) is not None and not m.group(4).isspace():
            out.append(("p", m.group(4)))
    return out


class _P:
    def __init__(self, toks):
        self.t = toks
        self.i = 0

    def peek(self):
        return self.t[self.i] if self.i < len(self.t) else ("eof", None)

    def next(self):
        x = self.peek()
        self.i += 1
        return x

    def atom(self):
        k, v = self.next()
        if k == "num":
            # optional %scope already eaten by regex
            return v
        if k == "str":
            return v
        if k == "id":
            if v == "true":
                return True
            if v == "false":
                return False
            if v == "None":
                return None
            if v == "nil":
                return []
            return Ctor(v)
        if k == "p" and v == "[":
            items = []
            if self.peek() == ("p", "]"):
                self.next()
                return items
            while True:
                items.append(self.term())
                k2, v2 = self.next()
                if (k2, v2) == ("p", ";"):
                    continue
                if (k2, v2) == ("p", "]"):
                    break
                raise ValueError("list: unexpected %r" % ((k2, v2),))
            self._scope()
            return items
        if k == "p" and v == "(":
            items = [self.term()]
            while self.peek() == ("p", ","):
                self.next()
                items.append(self.term())
            if self.next() != ("p", ")"):
                raise ValueError("expected )")
            self._scope()
            if len(items) == 1:
                return items[0]
            return tuple(items)
        raise ValueError("unexpected token %r" % ((k, v),))

    def _scope(self):
        # `%N` / `%list` after a closing bracket
        if self.peek() == ("p", "%"):
            self.next()
            self.next()

    def term(self):
        a = self.atom()
        if isinstance(a, Ctor) and not a.args:
            args = []
            while True:
                k, v = self.peek()
                if k in ("num", "str", "id") or (k == "p" and v in "[("):
                    args.append(self.atom())
                else:
                    break
            if args:
                return Ctor(a.name, *args)
        return a


def parse(s):
    p = _P(_tokens(s))
    v = p.term()
    return v


def plain(v):
    """Ctor -> [name, args...] so that values compare with ==; tuples -> lists"""
    if isinstance(v, Ctor):
        return [v.name] + [plain(a) for a in v.args]
    if isinstance(v, (list, tuple)):
        return [plain(x) for x in v]
    return v


def untext(v):
    """list of code points -> str"""
    return "".join(chr(c) for c in v)
