"""C18 — cargo fmt formats exactly the root source files of the selected packages, once, with their edition."""
import json
import os
import shutil
import subprocess
from concurrent.futures import ThreadPoolExecutor

from . import common, coqterm
from .common import log

PROP = "C18"
TRUSTED = [
    "Coq 8.16.1 kernel (coqc); vm_compute evaluates the model in cases.v; no native_compute",
    "Print Assumptions of every theorem in coq/C18/Props.v: Closed under the global context (checked each run)",
    "oracles of coq/C18/Model.v (record world): w_meta = the JSON printed by `cargo metadata --no-deps --format-version 1 --offline [--manifest-path M]` (captured by the check with the same cargo for every manifest the model asks about); canonicalisation = os.path.realpath; Path::exists = os.path.exists; BTreeSet/BTreeMap iterate in key order and insert keeps an equal element; Ord for PathBuf = component-wise byte order (the N identifiers are assigned in that order); Ord for String = byte order",
    "hand-written model coq/C18/Model.v of src/cargo-fmt/main.rs; tied to the code by running the real cargo-fmt binary on generated workspaces with a recording $RUSTFMT stand-in (argv log, scripted exit status / self-kill per edition) and comparing every command line and the exit status with the model's `execute` (Run.run_execute) and with its pieces (run_targets_ex, run_invocations, run_argv, run_args, run_exit_by_edition)",
    "the property's own statement is recomputed in python from the cargo metadata JSON, independently of the model (selected packages -> realpath of every target's src_path -> editions; closure of local path dependencies by manifest path)",
    "clap parses the command line into Opts as documented (the model starts from Opts); the stand-in is what $RUSTFMT names; std::process::exit keeps a child's code 0..255",
]

STANDIN = r"""#!/bin/sh
for a in "$@"; do printf '%s\n' "$a" >> "$C18_LOG"; done
printf '%s\n' "--END--" >> "$C18_LOG"
ed=""; prev=""
for a in "$@"; do if [ "$prev" = "--edition" ]; then ed="$a"; fi; prev="$a"; done
eval "st=\${C18_ST_$ed:-0}"
if [ "$st" = "SIG" ]; then kill -SEGV $$; fi
exit $st
"""
EDITIONS = ["2015", "2018", "2021", "2024"]
NAMES = ["alpha", "beta", "core_x", "zeta", "app", "lib2", "mid", "omega", "fmt", "fmt"]      # a package may be called like the subcommand
UNKNOWN = ["nosuch", "aaa_missing", "zzz"]


# ----------------------------------------------------------------------------
# workspace specifications (pure data, seeded)


def gen_targets(rnd, shared_rel, allow_shared):
    ts = []
    if rnd.random() < 0.75:
        t = {"kind": "lib", "name": None, "path": "src/lib.rs"}
        if allow_shared and rnd.random() < 0.5:
            t["path"] = shared_rel
        ts.append(t)
    nb = rnd.choice([0, 1, 1, 2]) if ts else rnd.choice([1, 1, 2])
    for k in range(nb):
        t = {"kind": "bin", "name": "tool%d" % k, "path": "src/main.rs" if k == 0 else "src/bin/tool%d.rs" % k}
        if ts and ts[0]["kind"] == "lib" and k == 0 and rnd.random() < 0.12:
            t["path"] = ts[0]["path"]            # lib and bin of one package share their root file
        ts.append(t)
    if rnd.random() < 0.3:
        ts.append({"kind": "example", "name": "ex", "path": "examples/ex.rs"})
    if rnd.random() < 0.3:
        ts.append({"kind": "test", "name": "it", "path": "tests/it.rs"})
    if rnd.random() < 0.2:
        ts.append({"kind": "bench", "name": "bn", "path": "benches/bn.rs"})
    for t in ts:
        if rnd.random() < 0.15:
            t["edition"] = rnd.choice(EDITIONS)
    build = rnd.random() < 0.3
    return ts, build


def gen_ws(rnd):
    virtual = rnd.random() < 0.5
    nm = rnd.randint(1, 4)
    names = rnd.sample(NAMES, nm)
    share = rnd.random() < 0.45
    pkgs = []          # every package of the scene: {"name","dir","edition","version","targets","build","deps"}
    members = []
    for k in range(nm):
        d = "ws" if (not virtual and k == 0) else "ws/m%d" % k
        shared_rel = "shared/common.rs" if d == "ws" else "../shared/common.rs"
        ts, build = gen_targets(rnd, shared_rel, share)
        p = {"name": names[k], "dir": d, "edition": rnd.choice(EDITIONS), "version": "0.1.0", "targets": ts, "build": build, "deps": []}
        pkgs.append(p)
        members.append(p)
    # out-of-workspace packages
    exts = []
    ne = rnd.choice([0, 1, 2, 2, 3])
    for k in range(ne):
        nmx = "util" if k == 0 else ("util" if (k == 1 and rnd.random() < 0.6) else "extra%d" % k)
        ts, build = gen_targets(rnd, None, False)
        # outside the workspace directory, or BELOW it without being a member (a vendored, excluded package)
        edir = ("ext/e%d" % k) if rnd.random() < 0.6 else ("ws/vendor/e%d" % k)
        p = {"name": nmx, "dir": edir, "edition": rnd.choice(EDITIONS), "version": "0.%d.0" % (k + 1), "targets": ts, "build": build, "deps": [], "standalone": True}
        pkgs.append(p)
        exts.append(p)
    foreign = []
    if rnd.random() < 0.2:
        for k, nmx in enumerate(["fdep", "funused"]):
            ts, build = gen_targets(rnd, None, False)
            p = {"name": nmx, "dir": "fw/f%d" % k, "edition": rnd.choice(EDITIONS), "version": "0.1.0", "targets": ts, "build": build, "deps": []}
            pkgs.append(p)
            foreign.append(p)

    def add_dep(src, dst):
        if src is dst or any(x["to"] == dst["dir"] for x in src["deps"]):
            return
        key = dst["name"]
        if any(x["key"] == key for x in src["deps"]) or key == src["name"]:
            key = "%s_r%d" % (dst["name"], len(src["deps"]))
        src["deps"].append({"key": key, "package": dst["name"], "to": dst["dir"],
                            "section": rnd.choice(["dependencies", "dependencies", "dev-dependencies", "build-dependencies"])})

    for m in members:
        if nm > 1 and rnd.random() < 0.5:
            add_dep(m, rnd.choice(members))
        for e in exts:
            if rnd.random() < 0.45:
                add_dep(m, e)
        if foreign and rnd.random() < 0.6:
            add_dep(m, foreign[0])
    if foreign and not any(x["to"] == foreign[0]["dir"] for m in members for x in m["deps"]):
        add_dep(members[0], foreign[0])
    for e in exts:
        for e2 in exts:
            if e2 is not e and rnd.random() < 0.3:
                add_dep(e, e2)                  # may close a cycle between out-of-workspace packages
        if rnd.random() < 0.25:
            add_dep(e, rnd.choice(members))     # a cycle through the workspace
    if foreign and rnd.random() < 0.5:
        add_dep(foreign[0], rnd.choice(members))
    spec = {"virtual": virtual, "pkgs": pkgs, "members": [p["dir"] for p in members], "foreign": [p["dir"] for p in foreign]}
    # runs
    runs = []
    cwds = ["ws"] + [p["dir"] for p in members if p["dir"] != "ws"] + [p["dir"] + "/src" for p in members]
    member_names = [p["name"] for p in members]
    for strat in ("root", "some", "all", "root_mp"):
        r = {"cwd": rnd.choice(cwds) if rnd.random() < 0.7 else "ws", "mp": None, "all": strat == "all", "packages": [],
             "check": rnd.random() < 0.35, "mf": rnd.choice([None, None, None, "short", "json", "human", "xml"]),
             "opts": rnd.choice([[], [], ["--config", "max_width=50"], ["-l"], ["--check"], ["--emit=files"], ["-v", "--files-with-diff"], ["--config-path", "fmt"], ["fmt", "--color", "fmt"],
                                 ["--config", "max_width=50", "--config", "tab_spaces=2"], ["-v", "-v"], ["--config", "max_width=50", "--config", "max_width=50"],
                                 ["--check", "--config", "tab_spaces=2", "--check"]]),
             "via_cargo": True,
             "quiet": rnd.random() < 0.2, "statuses": {}}
        if rnd.random() < 0.25 or strat == "root_mp":
            r["mp"] = rnd.choice(["ws", "ws"] + [p["dir"] for p in members]) + "/Cargo.toml"
            r["mp_relative"] = rnd.random() < 0.5
            if rnd.random() < 0.5:
                r["cwd"] = "."
        if strat == "some":
            r["packages"] = rnd.sample(member_names, rnd.randint(1, min(2, nm)))
            if rnd.random() < 0.15:
                r["packages"].append(r["packages"][0])
            if rnd.random() < 0.25:
                r["packages"].insert(rnd.randint(0, len(r["packages"])), rnd.choice(UNKNOWN))
                if rnd.random() < 0.3:
                    r["packages"].append(rnd.choice(UNKNOWN))
        if strat == "all" and rnd.random() < 0.25:
            r["packages"] = [rnd.choice(UNKNOWN + member_names)]
        for ed in EDITIONS:
            x = rnd.random()
            if x < 0.12:
                r["statuses"][ed] = "SIG"
            elif x < 0.3:
                r["statuses"][ed] = rnd.choice([1, 1, 2, 3, 101])
        runs.append(r)
    return {"spec": spec, "runs": runs}


def write_ws(base, spec):
    def w(rel, text):
        p = os.path.join(base, rel)
        os.makedirs(os.path.dirname(p), exist_ok=True)
        with open(p, "w") as f:
            f.write(text)

    by_dir = {p["dir"]: p for p in spec["pkgs"]}
    for p in spec["pkgs"]:
        out = ["[package]", 'name = "%s"' % p["name"], 'version = "%s"' % p["version"], 'edition = "%s"' % p["edition"],
               "autobins = false", "autoexamples = false", "autotests = false", "autobenches = false"]
        out.append('build = "build.rs"' if p["build"] else "build = false")
        for t in p["targets"]:
            out.append("")
            out.append("[lib]" if t["kind"] == "lib" else "[[%s]]" % t["kind"])
            if t["name"]:
                out.append('name = "%s"' % t["name"])
            out.append('path = "%s"' % t["path"])
            if "edition" in t:
                out.append('edition = "%s"' % t["edition"])
            w(os.path.join(p["dir"], t["path"]), "")
        if p["build"]:
            w(os.path.join(p["dir"], "build.rs"), "fn main() {}\n")
        os.makedirs(os.path.join(base, p["dir"], "src"), exist_ok=True)
        for sec in ("dependencies", "dev-dependencies", "build-dependencies"):
            ds = [d for d in p["deps"] if d["section"] == sec]
            if ds:
                out.append("")
                out.append("[%s]" % sec)
                for d in ds:
                    rel = os.path.relpath(os.path.join(base, d["to"]), os.path.join(base, p["dir"]))
                    pk = ', package = "%s"' % d["package"] if d["key"] != d["package"] else ""
                    out.append('%s = { path = "%s", version = "%s"%s }' % (d["key"], rel, by_dir[d["to"]]["version"], pk))
        if p["dir"] == "ws":
            out += ["", "[workspace]", "members = [%s]" % ", ".join('"%s"' % m[3:] for m in spec["members"] if m != "ws"), 'exclude = ["vendor"]']
        elif p.get("standalone"):
            out += ["", "[workspace]"]
        w(os.path.join(p["dir"], "Cargo.toml"), "\n".join(out) + "\n")
    if spec["virtual"]:
        w("ws/Cargo.toml", '[workspace]\nresolver = "2"\nmembers = [%s]\nexclude = ["vendor"]\n' % ", ".join('"%s"' % m[3:] for m in spec["members"]))
    if spec["foreign"]:
        w("fw/Cargo.toml", '[workspace]\nresolver = "2"\nmembers = [%s]\n' % ", ".join('"%s"' % m[3:] for m in spec["foreign"]))
    os.makedirs(os.path.join(base, "ws", "src"), exist_ok=True)


# ----------------------------------------------------------------------------
# the oracle w_meta, the implementation run, the encoding for Run.v


class Scene:
    def __init__(self, base, sh_path):
        self.base = base
        self.sh = sh_path
        self.meta_cache = {}

    def env(self):
        e = dict(os.environ)
        e.update(common.rust_env())
        e.pop("CARGO_TARGET_DIR", None)
        e.pop("RUSTFLAGS", None)
        return e

    def metadata(self, cwd, manifest):
        """cargo metadata --no-deps at a manifest (or, manifest None, in cwd); None = it failed"""
        key = (cwd if manifest is None else None, manifest)
        if key in self.meta_cache:
            return self.meta_cache[key]
        cmd = ["cargo", "metadata", "--no-deps", "--format-version", "1", "--offline"]
        if manifest is not None:
            cmd += ["--manifest-path", manifest]
        p = subprocess.run(cmd, cwd=cwd, env=self.env(), capture_output=True, text=True, timeout=120)
        md = None
        if p.returncode == 0:
            try:
                md = json.loads(p.stdout)
            except ValueError:
                md = None
        self.meta_cache[key] = md
        return md

    def run_impl(self, exe, run, tag):
        cwd = os.path.join(self.base, run["cwd"]) if run["cwd"] != "." else self.base
        logf = os.path.join(self.base, "log_%s" % tag)
        if os.path.exists(logf):
            os.remove(logf)
        env = self.env()
        env.update({"RUSTFMT": self.sh, "C18_LOG": logf})
        for ed, st in run["statuses"].items():
            env["C18_ST_" + ed] = str(st)
        args = []
        if run["quiet"]:
            args.append("-q")
        if run["mp"]:
            mp = os.path.join(self.base, run["mp"])
            args += ["--manifest-path", os.path.relpath(mp, cwd) if run.get("mp_relative") else mp]
        if run["all"]:
            args.append("--all")
        if run["check"]:
            args.append("--check")
        if run["mf"]:
            args += ["--message-format", run["mf"]]
        if run["packages"]:
            args += ["-p"] + run["packages"]
        if run["opts"]:
            args += ["--"] + run["opts"]
        # `cargo fmt ARGS` runs `cargo-fmt fmt ARGS`: the subcommand word comes first and only that one is dropped
        via = ["fmt"] if run.get("via_cargo", True) else []
        p = subprocess.run([exe] + via + args, cwd=cwd, env=env, capture_output=True, text=True, timeout=120)
        invs = []
        if os.path.exists(logf):
            cur = []
            for line in open(logf).read().split("\n"):
                if line == "--END--":
                    invs.append(cur)
                    cur = []
                elif line != "" or cur:
                    cur.append(line)
            os.remove(logf)
        parsed = []
        for a in invs:
            if "--edition" in a:
                k = a.index("--edition")
                parsed.append({"files": a[:k], "edition": a[k + 1] if k + 1 < len(a) else None, "extra": a[k + 2:]})
            else:
                parsed.append({"files": [], "edition": None, "extra": a})
        return {"rc": p.returncode, "invs": parsed, "argv": invs, "cmd": args, "stderr": p.stderr.split("\n")[0][:300]}


def pkey(p):
    return tuple(c.encode() for c in p.split("/"))


def collect_model_input(sc, run):
    """everything Run.v needs for one run: ids, metas, broken"""
    cwd = os.path.join(sc.base, run["cwd"]) if run["cwd"] != "." else sc.base
    if run["mp"]:
        cur = os.path.join(sc.base, run["mp"])
        start = sc.metadata(None, cur)
    else:
        cur = os.path.join(cwd, "Cargo.toml")
        start = sc.metadata(cwd, None)
    metas = {}
    broken = []
    if start is not None:
        metas[cur] = start
    queue = [start] if start is not None else []
    while queue:
        md = queue.pop()
        for p in md["packages"]:
            for d in p["dependencies"]:
                if d.get("path"):
                    m = os.path.join(d["path"], "Cargo.toml")
                    if m in metas or m in broken or not os.path.exists(m):
                        continue
                    md2 = sc.metadata(None, m)
                    if md2 is None:
                        broken.append(m)
                    else:
                        metas[m] = md2
                        queue.append(md2)
    return cur, metas, broken


def encode(cur, metas, broken, hit_names):
    paths = {cur}
    names = set(hit_names)
    for m, md in metas.items():
        paths.add(m)
        paths.add(os.path.join(md["workspace_root"], "Cargo.toml"))
        for p in md["packages"]:
            names.add(p["name"])
            paths.add(p["manifest_path"])
            for t in p["targets"]:
                paths.add(os.path.realpath(t["src_path"]))
            for d in p["dependencies"]:
                names.add(d["name"])
                if d.get("path"):
                    paths.add(os.path.join(d["path"], "Cargo.toml"))
    paths.update(broken)
    pid = {p: i + 1 for i, p in enumerate(sorted(paths, key=pkey))}
    nid = {n: i + 1 for i, n in enumerate(sorted(names, key=lambda s: s.encode()))}
    enc = []
    for m, md in metas.items():
        pk = []
        for p in md["packages"]:
            ts = [(pid[os.path.realpath(t["src_path"])], int(t["edition"])) for t in p["targets"]]
            ds = [(nid[d["name"]], coqterm.Ctor("Some", pid[os.path.join(d["path"], "Cargo.toml")]) if d.get("path") else None)
                  for d in p["dependencies"]]
            pk.append((nid[p["name"]], pid[p["manifest_path"]], ts, ds))
        enc.append((pid[m], (pid[os.path.join(md["workspace_root"], "Cargo.toml")], pk)))
    return pid, nid, enc


def typed(v, ty):
    s = coqterm.render(v)
    return "(@nil %s)" % ty if s == "[]" else s


PRELUDE = """
Definition c18_case (mp quiet all : bool) (packages : list N) (check : bool) (mf : option text) (opts : list text)
           (cur : N) (metas : list (N * enc_meta)) (broken : list N) (statuses : list (N * option N)) :=
  let strat := if all then 2 else match packages with [] => 0 | _ => 1 end in
  let t := run_targets_ex mp strat packages cur metas broken in
  let invs := match fst t with Some ts => run_invocations ts | None => [] end in
  (run_execute mp quiet false all packages check mf opts cur metas broken statuses,
   t, run_args check mf opts, invs,
   match fst t, run_args check mf opts with Some ts, Some a => run_argv ts a | _, _ => [] end,
   run_exit_by_edition statuses invs).
"""


def model_expr(run, cur, metas, broken):
    pid, nid, enc = encode(cur, metas, broken, run["packages"])
    sts = [(int(ed), None if st == "SIG" else coqterm.Ctor("Some", int(st))) for ed, st in sorted(run["statuses"].items())]
    e = "c18_case %s %s %s %s %s %s %s %d %s %s %s" % (
        coqterm.render(bool(run["mp"])), coqterm.render(run["quiet"]), coqterm.render(run["all"]),
        typed([nid[n] for n in run["packages"]], "N"), coqterm.render(run["check"]),
        "(Some %s)" % coqterm.text(run["mf"]) if run["mf"] else "None",
        typed(run["opts"], "text"), pid[cur],
        typed(enc, "(N * enc_meta)"), typed([pid[b] for b in broken], "N"), typed(sts, "(N * option N)"))
    return e, pid, nid


def dec_argv(argv, rpid):
    out = []
    for (k, v) in argv:
        if k == 0:
            out.append(rpid[v[0]])
        elif k == 1:
            out.append(coqterm.untext(v))
        else:
            out.append(str(v[0]))
    return out


def unsome(v):
    if isinstance(v, coqterm.Ctor) and v.name == "Some":
        return v.args[0]
    return None


# ----------------------------------------------------------------------------
# the property, recomputed from the cargo metadata JSON


def expected_extra(run):
    """options every rustfmt must receive; None = a usage error is expected"""
    a = list(run["opts"])
    if run["check"] and "--check" not in a:
        a.append("--check")
    mf = run["mf"]
    if mf is None or mf == "human":
        return a
    if mf == "short":
        return a if ("-l" in a or "--files-with-diff" in a) else a + ["-l"]
    if mf == "json":
        if any(x.startswith("--emit") for x in a) or "--check" in a:
            return None
        return a + ["--emit", "json"]
    return None


def nearest_manifest(d):
    while True:
        m = os.path.join(d, "Cargo.toml")
        if os.path.exists(m):
            return m
        nd = os.path.dirname(d)
        if nd == d:
            return None
        d = nd


def selection(sc, run, cur, metas):
    """(kind, packages): kind 'error' (an error before anything is formatted is required), or 'ok' with the selected
    packages as metadata JSON objects; extras = packages the code is known to add (for classification)"""
    start = metas.get(cur)
    if start is None:
        return "error", [], "metadata"
    pk = start["packages"]
    if run["all"] or run["packages"]:
        unknown = [n for n in run["packages"] if not any(p["name"] == n for p in pk)]
        if unknown:
            return "error", [], "unknown_package"
    if run["all"]:
        sel = {}
        queue = list(pk)
        while queue:
            p = queue.pop()
            if p["manifest_path"] in sel:
                continue
            sel[p["manifest_path"]] = p
            for d in p["dependencies"]:
                if d.get("path"):
                    m = os.path.join(d["path"], "Cargo.toml")
                    if not os.path.exists(m):
                        continue
                    md = metas.get(m) or sc.metadata(None, m)
                    if md is None:
                        return "error", [], "metadata"
                    for q in md["packages"]:
                        if q["manifest_path"] == m:
                            queue.append(q)
        return "ok", list(sel.values()), ""
    if run["packages"]:
        return "ok", [p for p in pk if p["name"] in run["packages"]], ""
    cwd = os.path.join(sc.base, run["cwd"]) if run["cwd"] != "." else sc.base
    man = os.path.join(sc.base, run["mp"]) if run["mp"] else nearest_manifest(cwd)
    here = [p for p in pk if p["manifest_path"] == man]
    if here:
        return "ok", here, ""
    if man == os.path.join(start["workspace_root"], "Cargo.toml"):
        dm = start.get("workspace_default_members")
        if dm:
            return "ok", [p for p in pk if p["id"] in dm], ""
        return "ok", list(pk), ""            # a virtual manifest: every member
    return "error", [], "no_current_package"


def check_property(rep, sc, case, run, impl, cur, metas):
    """returns the number of violations reported (known classes excluded), and whether the run is non-trivial"""
    found = 0
    show = {"case": case, "run": run, "impl": {k: impl[k] for k in ("rc", "argv", "cmd", "stderr")}}

    def viol(key, what):
        nonlocal found
        if rep.violation(key, show, "cargo fmt %s (cwd %s): %s" % (" ".join(impl["cmd"]), run["cwd"], what)):
            found += 1

    extra = expected_extra(run)
    ran = impl["invs"]
    if extra is None:
        if impl["rc"] == 0 or ran:
            viol("usage_error_not_rejected", "an invalid --message-format combination ran %d rustfmt, exit %d" % (len(ran), impl["rc"]))
        return found, False
    kind, sel, why = selection(sc, run, cur, metas)
    if kind == "error":
        if impl["rc"] == 0 or ran:
            if why == "unknown_package" and run["all"]:
                viol("all_ignores_unknown_package", "-p names a package that is not a workspace member, yet %d rustfmt ran and the exit status is %d" % (len(ran), impl["rc"]))
            else:
                viol("error_not_reported:" + why, "expected an error before anything is formatted (%s); %d rustfmt ran, exit %d" % (why, len(ran), impl["rc"]))
        return found, False
    want = {}
    for p in sel:
        for t in p["targets"]:
            want.setdefault(os.path.realpath(t["src_path"]), set()).add(t["edition"])
    got = [(f, i["edition"]) for i in ran for f in i["files"]]
    gotfiles = [os.path.realpath(f) for f, _ in got]
    cwd = os.path.join(sc.base, run["cwd"]) if run["cwd"] != "." else sc.base
    if not ran:
        if run["mp"] and not run["all"] and not run["packages"] and len(sel) > 1:
            viol("manifest_path_virtual_root", "--manifest-path names a virtual workspace root: no target found (exit %d), %d files expected" % (impl["rc"], len(want)))
        elif not run["mp"] and not run["all"] and not run["packages"] and not os.path.exists(os.path.join(cwd, "Cargo.toml")):
            viol("root_in_subdirectory", "run in a sub-directory of the package: no target found (exit %d), %d files expected" % (impl["rc"], len(want)))
        else:
            viol("nothing_formatted", "no rustfmt was run (exit %d: %s), %d files expected" % (impl["rc"], impl["stderr"], len(want)))
        return found, False
    if len(set(gotfiles)) != len(gotfiles):
        viol("file_twice", "a file is handed to rustfmt twice: %r" % sorted(f for f in set(gotfiles) if gotfiles.count(f) > 1))
    missing = sorted(set(want) - set(gotfiles))
    surplus = sorted(set(gotfiles) - set(want))
    if missing or surplus:
        start = metas.get(cur)
        members_files = set(os.path.realpath(t["src_path"]) for p in start["packages"] for t in p["targets"])
        if not missing and not run["all"] and not run["packages"] and not run["mp"] \
                and os.path.realpath(start["workspace_root"]) == os.path.realpath(cwd) and set(surplus) <= members_files:
            viol("root_package_formats_all_members", "run in the root of a workspace that has a root package: all members are formatted (%d files beyond the current package)" % len(surplus))
        elif not missing and run["all"] and all(any(os.path.realpath(t["src_path"]) == f for md in metas.values() for p in md["packages"] for t in p["targets"]) for f in surplus):
            viol("all_formats_foreign_workspace_members", "--all also formats members of another workspace that are no dependency: %r" % surplus)
        else:
            viol("files", "formatted files differ from the root files of the selected packages: missing %r, surplus %r" % (missing, surplus))
    shared_bad, plain_bad = [], []
    declared = {}       # every edition declared for a file by any target of any package seen (selected or not)
    for md in metas.values():
        for p in md["packages"]:
            for t in p["targets"]:
                declared.setdefault(os.path.realpath(t["src_path"]), set()).add(t["edition"])
    for f, ed in got:
        w = want.get(os.path.realpath(f))
        if w is None:
            continue
        if len(w) > 1:
            shared_bad.append((f, ed, sorted(w)))
        elif ed not in w:
            # a file shared with a target outside the expected selection that the code selected as well
            if ed in declared.get(os.path.realpath(f), set()):
                shared_bad.append((f, ed, sorted(declared[os.path.realpath(f)])))
            else:
                plain_bad.append((f, ed, sorted(w)))
    if plain_bad:
        viol("edition", "file formatted with an edition other than its target's: %r" % plain_bad[:3])
    if shared_bad:
        viol("edition_shared_file", "a file that is the root of targets with different editions is formatted once, with one of them: %r" % shared_bad[:3])
    bad_args = [i for i in ran if i["extra"] != extra]
    if bad_args:
        viol("args", "options handed to rustfmt %r, expected %r" % (bad_args[0]["extra"], extra))
    failed = [i["edition"] for i in ran if str(run["statuses"].get(i["edition"], 0)) != "0"]
    if (impl["rc"] != 0) != bool(failed):
        sig = any(run["statuses"].get(e) == "SIG" for e in failed)
        viol("exit_status_signal" if sig and impl["rc"] == 0 else "exit_status",
             "exit status %d although the rustfmt runs for editions %r %s" % (impl["rc"], failed, "failed" if failed else "all succeeded"))
    return found, True


# ----------------------------------------------------------------------------


def run(tier, seed, replay):
    rep = common.Reporter(PROP, tier, seed, "proof")
    rep.assumptions = TRUSTED
    cr = common.coq_phase(["C18"], "C18/Props.v")
    common.coq_coverage(rep, cr, "cd coq && make C18/Props.vo && coqc -Q . V C18/Props.v (+ hygiene grep, Print Assumptions allow-list)", TRUSTED)
    if not cr.ok:
        log("C18 proof phase failed: %s %s %s\n%s" % (cr.hygiene, cr.bad_assumptions, cr.failed_files, cr.build_log[-1500:]))
    ok, blog, bt = common.build_bins()
    if not ok:
        raise RuntimeError("build of /repo binaries failed:\n" + blog)
    exe = common.bin_path("cargo-fmt")
    rnd = common.rng(seed, PROP)
    root = os.path.join(os.path.realpath(common.CACHE), "c18")
    shutil.rmtree(root, ignore_errors=True)
    os.makedirs(root)
    sh_path = os.path.join(root, "standin.sh")
    with open(sh_path, "w") as f:
        f.write(STANDIN)
    os.chmod(sh_path, 0o755)
    if replay:
        obj = json.load(open(replay))
        cases = [{"spec": obj["case"], "runs": [obj["run"]]}]
    else:
        n = 40 if tier == "quick" else 600
        cases = [gen_ws(rnd) for _ in range(n)]

    def one(k):
        c = cases[k]
        base = os.path.join(root, "w%d" % k)
        write_ws(base, c["spec"])
        sc = Scene(base, sh_path)
        out = []
        for j, r in enumerate(c["runs"]):
            impl = sc.run_impl(exe, r, "%d" % j)
            cur, metas, broken = collect_model_input(sc, r)
            out.append((sc, r, impl, cur, metas, broken))
        return out

    with ThreadPoolExecutor(max_workers=common.NCPU) as ex:
        results = list(ex.map(one, range(len(cases))))
    flat = [(cases[k]["spec"], x) for k, rs in enumerate(results) for x in rs]
    # model
    model = None
    maps = []
    try:
        exprs = []
        for spec, (sc, r, impl, cur, metas, broken) in flat:
            e, pid, nid = model_expr(r, cur, metas, broken)
            exprs.append(e)
            maps.append(({v: k for k, v in pid.items()}, {v: k for k, v in nid.items()}))
        model = common.run_coq_cases("From V Require Import Base.Text C18.Model C18.Run.\nOpen Scope N_scope.", PRELUDE, exprs, "c18", per_file=12)
    except Exception as e:
        log("C18: model evaluation failed: %s" % str(e)[-1500:])
    disagreements, found = [], 0
    nontrivial = set()
    n_inv = 0
    for i, (spec, (sc, r, impl, cur, metas, broken)) in enumerate(flat):
        f, nt = check_property(rep, sc, spec, r, impl, cur, metas)
        found += f
        n_inv += len(impl["invs"])
        if nt:
            nontrivial.add(common.case_hash({"spec": spec, "run": r}))
        if model is None:
            continue
        rpid, rnid = maps[i]
        # Coq prints the left-nested tuple flat: the pair returned by run_execute is its first two components
        m_rc, m_argvs, (m_targets, m_err), m_args, m_invs, m_argv2, m_exit = model[i]
        show = {"spec": spec, "run": r, "cmd": impl["cmd"]}
        # end to end: the model's execute
        e2e = [dec_argv(a, rpid) for a in m_argvs]
        impl_argv = [[os.path.realpath(x) if k < len(inv["files"]) else x for k, x in enumerate(av)]
                     for inv, av in zip(impl["invs"], impl["argv"])]
        if e2e != impl_argv or m_rc != impl["rc"]:
            disagreements.append((show, {"what": "execute", "impl": (impl["rc"], impl_argv), "model": (m_rc, e2e)}))
            continue
        # the pieces
        args = unsome(m_args)
        ts = unsome(m_targets)
        if args is not None and ts is not None:
            exp_args = [coqterm.untext(t) for t in args]
            pieces = [[rpid[f] for f in fs] + ["--edition", str(ed)] + exp_args for (ed, fs) in m_invs]
            pieces2 = [dec_argv(a, rpid) for a in m_argv2]
            flat_targets = sorted((rpid[p], str(ed)) for (p, ed) in ts)
            impl_targets = sorted((os.path.realpath(f), inv["edition"]) for inv in impl["invs"] for f in inv["files"])
            if pieces != impl_argv or pieces2 != impl_argv or flat_targets != impl_targets or m_exit != impl["rc"]:
                disagreements.append((show, {"what": "pieces", "impl": (impl["rc"], impl_argv), "model": (m_exit, pieces, pieces2, flat_targets)}))
        elif impl["invs"] or impl["rc"] == 0:
            disagreements.append((show, {"what": "error", "impl": (impl["rc"], impl_argv), "model": (m_err, args)}))
    shutil.rmtree(root, ignore_errors=True)
    tie_broken = (not cr.ok) or model is None or disagreements
    if tie_broken and found == 0:
        what = []
        if not cr.ok:
            what.append("theorems of coq/C18/Props.v no longer check (%s %s %s)" % (cr.failed_files, cr.hygiene, cr.bad_assumptions))
        if model is None:
            what.append("model could not be evaluated")
        if disagreements:
            what.append("correspondence broken on %d of %d runs, first: %r" % (len(disagreements), len(flat), disagreements[0]))
        rep.violation("tie", {"broken": what, "first_disagreements": disagreements[:3]}, "; ".join(what)[:3000], no_input=True)
    step = max(1, len(flat) // 4)
    rep.coverage.update({
        "evaluations": len(flat), "distinct_nontrivial": len(nontrivial),
        "workspaces": len(cases), "rustfmt_invocations_observed": n_inv,
        "rule": "seeded workspaces on disk (1..4 members, virtual or with a root package; lib/bin/example/test/bench/build-script targets with explicit paths and per-target edition overrides; editions 2015..2024; path dependencies between members, to 0..3 packages outside the workspace or vendored below its root without being members (two of them often with the same package name), to a member of a foreign workspace, cycles through the workspace and between outside packages; a source file shared by targets of different packages or by lib+bin of one package, reached through a non-canonical ../ path); 4 runs each of the real cargo-fmt (no selection / -p names incl. duplicates and unknown names / --all, also with -p / no selection with --manifest-path) from the workspace root, a member directory or a member's src directory, with or without --manifest-path (absolute or relative), -q, --check, --message-format short|json|human|<invalid>, options after --; $RUSTFMT = recording stand-in with a scripted status per edition (0, codes, SIGSEGV self-kill). Every command line and the exit status are compared with the model's execute and its pieces, and with the property recomputed from the cargo metadata JSON. non-trivial = at least one rustfmt ran and a selection was expected; distinct by hash",
        "samples": [{"run": flat[i][1][1], "cmd": flat[i][1][2]["cmd"], "rc": flat[i][1][2]["rc"], "argv": flat[i][1][2]["argv"][:2]} for i in range(0, len(flat), step)][:4],
        "correspondence_disagreements": len(disagreements),
        "traces_validated_against_impl": len(flat) if model is not None else 0,
        "bins_build_s": round(bt, 1),
    })
    return rep.finish()
