"""A translator from a deliberately small subset of Rust to Gallina (Coq 8.16).

It regenerates, on every run, executable definitions for the small pure functions of /repo/src that several
properties lean on (Range algebra, Indent / Shape arithmetic, the ReportedErrors join, the exit-code expressions, the
blank-line clamp).  The regenerated definitions are then PROVED equal to the hand-written models (coq/Cxx/Model.v) by
the tie theorems that the callers of `translate_group` append: a change to one of these functions that alters its
meaning breaks a theorem; a harmless rewrite usually still proves (the proofs are by case analysis and linear
arithmetic, not by syntactic identity).

Subset: `fn` items inside a named `impl` block (or free functions); parameters `self` / `&self` / `mut self` /
`&mut self` / `name: T`; statements `let [mut] x = e;`, `x = e;`, `x op= e;`, `self.f op= e;`, `if c {..} [else {..}]`
as a statement; expressions: integer and bool literals, paths, field access, calls of other translated functions and
of a small list of known methods (saturating_sub, checked_sub, map with a one-parameter closure, min, max, cmp::min,
cmp::max), `T::new(..)`, struct literals with shorthand fields and a `..*self` base, `Some(..)` / `None`, unary `!`,
binary `+ - * / % == != < <= > >= && || |`, `if`/`else` expressions, blocks, configuration getters `config.name()`.
Unsigned `-`, `/` and `%` are translated to the total N operations AND contribute a verification condition (the
path condition under which the operation is reached implies that it cannot underflow / divide by zero); the
conjunction of a function's conditions is emitted as `<name>_safe`.
Anything else raises Unsupported: the translation fails closed.
"""
import re


class Unsupported(Exception):
    pass


# ----------------------------------------------------------------------------------------------- lexer

_tok = re.compile(r"""
    (?P<ws>\s+|//[^\n]*|/\*.*?\*/)
  | (?P<num>\d[\d_]*(?:usize|u32|u64|i32|isize)?)
  | (?P<chr>'(?:[^'\\]|\\.)')
  | (?P<life>'[A-Za-z_][A-Za-z_0-9]*(?!'))
  | (?P<str>"(?:[^"\\]|\\.)*")
  | (?P<id>[A-Za-z_][A-Za-z_0-9]*)
  | (?P<op>::|->|=>|==|!=|<=|>=|&&|\|\||\+=|-=|\*=|/=|\|=|&=|\.\.=|\.\.|[-+*/%=<>!&|.,;:(){}\[\]#?@^~$])
""", re.X | re.S)


def lex(src):
    out, i = [], 0
    while i < len(src):
        m = _tok.match(src, i)
        if not m:
            raise Unsupported("cannot lex at %r" % src[i:i + 20])
        i = m.end()
        k = m.lastgroup
        if k != "ws":
            out.append((k, m.group(k)))
    return out


# ----------------------------------------------------------------------------------------------- locating items

def find_block(toks, start):
    """index just past the `}` matching the `{` at toks[start]"""
    assert toks[start][1] == "{"
    d = 0
    for j in range(start, len(toks)):
        if toks[j][1] == "{":
            d += 1
        elif toks[j][1] == "}":
            d -= 1
            if d == 0:
                return j + 1
    raise Unsupported("unbalanced braces")


def find_impl(toks, header):
    """token range of the body of `impl <header> {`; header is the exact token text joined by spaces"""
    want = header.split()
    for i, (k, t) in enumerate(toks):
        if t == "impl" and [x[1] for x in toks[i + 1:i + 1 + len(want)]] == want and toks[i + 1 + len(want)][1] == "{":
            b = i + 1 + len(want)
            return b + 1, find_block(toks, b) - 1
    raise Unsupported("impl %s not found" % header)


def find_fn(toks, lo, hi, name):
    d = 0
    for i in range(lo, hi):
        t = toks[i][1]
        if t == "{":
            d += 1
        elif t == "}":
            d -= 1
        elif d == 0 and t == "fn" and toks[i + 1][1] == name:
            return i
    raise Unsupported("fn %s not found" % name)


def find_struct(toks, name):
    for i, (k, t) in enumerate(toks):
        if t == "struct" and toks[i + 1][1] == name:
            b = i + 2
            if toks[b][1] == "<":                  # generic parameters
                d = 0
                while True:
                    d += toks[b][1] == "<"
                    d -= toks[b][1] == ">"
                    b += 1
                    if d == 0:
                        break
            if toks[b][1] != "{":
                continue
            e = find_block(toks, b)
            fields, j = [], b + 1
            while j < e - 1:
                while toks[j][1] in ("pub", "(", "crate", ")"):
                    j += 1
                fname = toks[j][1]
                assert toks[j + 1][1] == ":", "struct field syntax"
                ty, j, d = [], j + 2, 0
                while not (d == 0 and toks[j][1] in (",", "}")):
                    d += toks[j][1] in ("(", "[", "<")
                    d -= toks[j][1] in (")", "]", ">")
                    ty.append(toks[j][1])
                    j += 1
                fields.append((fname, " ".join(ty)))
                if toks[j][1] == ",":
                    j += 1
            return fields
    raise Unsupported("struct %s not found" % name)


# ----------------------------------------------------------------------------------------------- parser

class P:
    def __init__(self, toks, i):
        self.t = toks
        self.i = i

    def peek(self, o=0):
        return self.t[self.i + o][1] if self.i + o < len(self.t) else None

    def kind(self):
        return self.t[self.i][0]

    def eat(self, s=None):
        k, t = self.t[self.i]
        if s is not None and t != s:
            raise Unsupported("expected %r, found %r" % (s, t))
        self.i += 1
        return t

    # signature:  fn name ( params ) [-> ty] { body }
    def fn(self):
        self.eat("fn")
        name = self.eat()
        if self.peek() == "<":
            d = 0                              # generic parameters: skipped (types are not translated)
            while True:
                x = self.eat()
                d += x == "<"
                d -= x == ">"
                if d == 0:
                    break
        self.eat("(")
        params = []
        while self.peek() != ")":
            if self.peek() == "&":
                self.eat()
                if self.peek() == "mut":
                    self.eat()
                    self.eat("self")
                    params.append(("self", "&mut Self"))
                else:
                    self.eat("self")
                    params.append(("self", "Self"))
            elif self.peek() == "mut" and self.peek(1) == "self":
                self.eat()
                self.eat()
                params.append(("self", "Self"))
            elif self.peek() == "self":
                self.eat()
                params.append(("self", "Self"))
            else:
                if self.peek() == "mut":
                    self.eat()
                n = self.eat()
                self.eat(":")
                ty = []
                d = 0
                while not (d == 0 and self.peek() in (",", ")")):
                    x = self.eat()
                    d += x in ("<", "(")
                    d -= x in (">", ")")
                    ty.append(x)
                params.append((n, " ".join(ty)))
            if self.peek() == ",":
                self.eat()
        self.eat(")")
        ret = None
        if self.peek() == "->":
            self.eat()
            ty = []
            while self.peek() != "{":
                ty.append(self.eat())
            ret = " ".join(ty)
        body = self.block()
        return name, params, ret, body

    def block(self):
        self.eat("{")
        stmts = []
        tail = None
        while self.peek() != "}":
            if self.peek() == "let":
                self.eat()
                if self.peek() == "mut":
                    self.eat()
                n = self.eat()
                if self.peek() == ":":
                    self.eat()
                    while self.peek() != "=":
                        self.eat()
                self.eat("=")
                save = self.i
                try:
                    e = self.expr()
                    self.eat(";")
                except Unsupported:
                    # an initialiser outside the subset: the binding becomes OPAQUE (the caller must supply it as a parameter)
                    self.i = save
                    d = 0
                    while not (d == 0 and self.peek() == ";"):
                        x = self.eat()
                        d += x in ("(", "{", "[")
                        d -= x in (")", "}", "]")
                    self.eat(";")
                    e = ("opaque",)
                stmts.append(("let", n, e))
                continue
            if self.peek() == "return":
                self.eat()
                e = self.expr()
                if self.peek() == ";":
                    self.eat()
                stmts.append(("return", e))
                continue
            e = self.expr(stmt=True)
            if self.peek() in ("=", "+=", "-=", "|=", "&=", "*="):
                op = self.eat()
                r = self.expr()
                self.eat(";")
                stmts.append(("assign", e, op, r))
            elif self.peek() == ";":
                self.eat()
                stmts.append(("expr", e))
            elif self.peek() == "}":
                tail = e
            elif e[0] == "if":
                stmts.append(("expr", e))          # `if .. {..} else {..}` used as a statement
            else:
                raise Unsupported("statement form at %r" % self.peek())
        self.eat("}")
        return ("block", stmts, tail)

    PREC = [("||",), ("&&",), ("==", "!=", "<", "<=", ">", ">="), ("|",), ("+", "-"), ("*", "/", "%")]

    def expr(self, lvl=0, stmt=False, nostruct=False):
        if lvl == len(self.PREC):
            return self.unary(nostruct)
        l = self.expr(lvl + 1, nostruct=nostruct)
        while self.peek() in self.PREC[lvl] and not (self.peek() == "|" and self.peek(1) == "="):
            op = self.eat()
            r = self.expr(lvl + 1, nostruct=nostruct)
            l = ("bin", op, l, r)
        return l

    def unary(self, nostruct):
        if self.peek() == "!":
            self.eat()
            return ("not", self.unary(nostruct))
        if self.peek() in ("*", "&"):
            self.eat()
            if self.peek() == "mut":
                self.eat()
            return self.unary(nostruct)            # references are transparent
        return self.postfix(self.primary(nostruct))

    def postfix(self, e):
        while True:
            if self.peek() == ".":
                self.eat()
                n = self.eat()
                if self.peek() == "(":
                    e = ("mcall", e, n, self.args())
                else:
                    e = ("field", e, n)
            elif self.peek() == "?":
                raise Unsupported("? operator")
            else:
                return e

    def args(self):
        self.eat("(")
        a = []
        while self.peek() != ")":
            if self.peek() == "|":
                self.eat()
                n = self.eat()
                self.eat("|")
                a.append(("closure", n, self.expr()))
            elif self.peek() == "||":
                self.eat()
                a.append(("closure", None, self.expr()))
            else:
                a.append(self.expr())
            if self.peek() == ",":
                self.eat()
        self.eat(")")
        return a

    def pattern(self):
        if self.peek() == "_":
            self.eat()
            return ("wild",)
        path = [self.eat()]
        while self.peek() == "::":
            self.eat()
            path.append(self.eat())
        if self.peek() == "(":
            self.eat()
            if self.peek() == "..":
                self.eat()
            else:
                raise Unsupported("pattern with bound fields")
            self.eat(")")
        return ("variant", path)

    def primary(self, nostruct):
        k, t = self.t[self.i]
        if k == "num":
            self.eat()
            return ("int", int(re.sub(r"[a-z_].*$", "", t.replace("_", "")) or 0))
        if t in ("true", "false"):
            self.eat()
            return ("bool", t == "true")
        if k == "chr":
            self.eat()
            return ("char", t)
        if t == "(":
            self.eat()
            e = self.expr()
            self.eat(")")
            return ("paren", e)
        if t == "if":
            self.eat()
            c = self.expr(nostruct=True)
            th = self.block()
            el = None
            if self.peek() == "else":
                self.eat()
                el = ("block", [], self.primary(nostruct)) if self.peek() == "if" else self.block()
            return ("if", c, th, el)
        if t == "{":
            return self.block()
        if t == "match":
            self.eat()
            scrut = self.expr(nostruct=True)
            self.eat("{")
            arms = []
            while self.peek() != "}":
                pats = [self.pattern()]
                while self.peek() == "|":
                    self.eat()
                    pats.append(self.pattern())
                self.eat("=>")
                body = self.expr()
                if self.peek() == ",":
                    self.eat()
                arms.append((pats, body))
            self.eat("}")
            return ("match", scrut, arms)
        if t == "matches" and self.peek(1) == "!":
            self.eat()
            self.eat()
            self.eat("(")
            scrut = self.expr()
            self.eat(",")
            pats = [self.pattern()]
            while self.peek() == "|":
                self.eat()
                pats.append(self.pattern())
            self.eat(")")
            return ("match", scrut, [(pats, ("bool", True)), ([("wild",)], ("bool", False))])
        if k == "id":
            path = [self.eat()]
            while self.peek() == "::":
                self.eat()
                path.append(self.eat())
            if self.peek() == "(":
                return ("call", path, self.args())
            if self.peek() == "{" and path[-1][0].isupper() and not nostruct:
                self.eat("{")
                fields, base = [], None
                while self.peek() != "}":
                    if self.peek() == "..":
                        self.eat()
                        base = self.unary(False)
                    else:
                        n = self.eat()
                        if self.peek() == ":":
                            self.eat()
                            fields.append((n, self.expr()))
                        else:
                            fields.append((n, ("path", [n])))
                    if self.peek() == ",":
                        self.eat()
                self.eat("}")
                return ("struct", path, fields, base)
            return ("path", path)
        raise Unsupported("expression at %r" % t)


# ----------------------------------------------------------------------------------------------- translation

class Ctx:
    """records: rust struct name -> (coq type, constructor, [(rust field, coq projection, type)]);
    funcs: (self type or None, rust fn name) -> (coq name, [param types], return type, partial?);
    getters: config getter name -> (coq term, type); consts: rust const -> (coq term, type)"""

    def __init__(self, records, getters=None, consts=None, opaque=None, ops=None):
        self.records = records
        self.funcs = {}
        self.getters = getters or {}
        self.consts = consts or {}
        self.opaque = opaque or {}       # textual receiver.method() / receiver.field -> (coq term, type)
        self.ops = ops or {}             # (op, lhs type, rhs type) -> (coq function name, result type, partial?)
        self.variants = {}               # rust enum variant name -> Coq pattern
        self.enums = {}
        self.chars = {}                  # rust char literal text -> (coq term of type N)
        self.ctors = {}                  # rust enum variant with fields -> (coq constructor, enum type)
        self.values = {}                 # rust enum variant without fields, as an EXPRESSION -> (coq term, enum type)
        self.ignore_stmts = set()        # expression statements (as text) without effect on the modelled state


def cty(ctx, ty):
    ty = ty.replace("& ", "").replace("&", "").strip()
    if ty in ("usize", "u32", "u64", "isize", "i32"):
        return "N"
    if ty == "bool":
        return "bool"
    if ty.startswith("Option <"):
        return "option " + cty(ctx, ty[len("Option <"):-1].strip())
    if ty in ctx.records:
        return ctx.records[ty][0]
    if ty in getattr(ctx, "enums", {}):
        return ctx.enums[ty]
    raise Unsupported("type %s" % ty)


class Tr:
    def __init__(self, ctx, self_ty, env):
        self.ctx = ctx
        self.self_ty = self_ty
        self.env = dict(env)          # variable -> rust-ish type name ("N", "bool", record name, "option X")
        self.vcs = []                 # verification conditions (Gallina bool terms, closed under the lets emitted so far)
        self.path = []                # current path condition (list of Gallina bool terms)
        self.lets = []                # enclosing let-bindings, for closing the conditions

    def vc(self, cond):
        pc = " && ".join("(%s)" % p for p in self.path) if self.path else "true"
        body = "implb (%s) (%s)" % (pc, cond)
        for n, v in reversed(self.lets):
            body = "let %s := %s in %s" % (n, v, body)
        self.vcs.append(body)

    def rec_of(self, ty):
        if ty not in self.ctx.records:
            raise Unsupported("not a record type: %s" % ty)
        return self.ctx.records[ty]

    # returns (gallina term, type)
    def e(self, x):
        k = x[0]
        if k in ("call", "bin") and self.ctx.opaque and self.text(x) in self.ctx.opaque:
            return self.ctx.opaque[self.text(x)]
        if k == "raw":
            return x[1], x[2]
        if k == "char":
            if x[1] not in self.ctx.chars:
                raise Unsupported("char literal %s" % x[1])
            return self.ctx.chars[x[1]], "N"
        if k == "path" and len(x[1]) == 2 and x[1][1] in self.ctx.values:
            return self.ctx.values[x[1][1]]
        if k == "call" and len(x[1]) == 2 and x[1][1] in self.ctx.ctors:
            cn, ety = self.ctx.ctors[x[1][1]]
            return "(%s %s)" % (cn, " ".join(self.e(a)[0] for a in x[2])), ety
        if k == "int":
            return str(x[1]), "N"
        if k == "bool":
            return ("true" if x[1] else "false"), "bool"
        if k == "paren":
            t, ty = self.e(x[1])
            return "(%s)" % t, ty
        if k == "path":
            p = x[1]
            if len(p) == 1 and p[0] in self.env:
                return p[0], self.env[p[0]]
            if len(p) == 1 and p[0] in self.ctx.consts:
                return self.ctx.consts[p[0]]
            if p == ["None"]:
                return "None", "option ?"
            raise Unsupported("unknown name %s" % "::".join(p))
        if k == "field":
            txt = self.text(x)
            if txt in self.ctx.opaque:
                return self.ctx.opaque[txt]
            b, bty = self.e(x[1])
            _, _, fields = self.rec_of(bty)
            for rf, proj, fty in fields:
                if rf == x[2]:
                    return "(%s %s)" % (proj, b), fty
            raise Unsupported("no field %s in %s" % (x[2], bty))
        if k == "not":
            t, ty = self.e(x[1])
            return "(negb %s)" % t, "bool"
        if k == "bin":
            return self.binop(x)
        if k == "if":
            c, _ = self.e(x[1])
            self.path.append(c)
            a, aty = self.blk(x[2])
            self.path.pop()
            if x[3] is None:
                raise Unsupported("if without else as an expression")
            self.path.append("negb (%s)" % c)
            b, bty = self.blk(x[3])
            self.path.pop()
            ty = aty if "?" not in aty else bty
            return "(if %s then %s else %s)" % (c, a, b), ty
        if k == "block":
            return self.blk(x)
        if k == "struct":
            name = x[1][-1]
            cq, ctor, fields = self.rec_of(name if name != "Self" else self.self_ty)
            given = {n: v for n, v in x[2]}
            base = self.e(x[3])[0] if x[3] is not None else None
            args = []
            for rf, proj, fty in fields:
                if rf in given:
                    args.append(self.e(given[rf])[0])
                elif base is not None:
                    args.append("(%s %s)" % (proj, base))
                else:
                    raise Unsupported("struct literal of %s lacks %s" % (name, rf))
            return "(%s %s)" % (ctor, " ".join(args)), (name if name != "Self" else self.self_ty)
        if k == "call":
            p = x[1]
            if p == ["Some"]:
                a, aty = self.e(x[2][0])
                return "(Some %s)" % a, "option " + aty
            if p in (["cmp", "min"], ["min"], ["cmp", "max"], ["max"]):
                a, _ = self.e(x[2][0])
                b, _ = self.e(x[2][1])
                return "(N.%s %s %s)" % (p[-1], a, b), "N"
            if len(p) == 2 and p[1] == "new" and (p[0] in self.ctx.records or p[0] == "Self"):
                name = p[0] if p[0] != "Self" else self.self_ty
                cq, ctor, fields = self.rec_of(name)
                args = [self.e(a)[0] for a in x[2]]
                if len(args) != len(fields):
                    raise Unsupported("%s::new arity" % name)
                return "(%s %s)" % (ctor, " ".join(args)), name
            if len(p) == 2 and (p[0], p[1]) in self.ctx.funcs:
                return self.call(self.ctx.funcs[(p[0], p[1])], [self.e(a) for a in x[2]])
            raise Unsupported("call of %s" % "::".join(p))
        if k == "mcall":
            return self.mcall(x)
        if k == "match":
            sc, _ = self.e(x[1])
            arms, ty = [], "?"
            for pats, body in x[2]:
                cp = []
                for pt in pats:
                    if pt[0] == "wild":
                        cp.append("_")
                    else:
                        v = pt[1][-1]
                        if v not in self.ctx.variants:
                            raise Unsupported("unknown enum variant %s" % "::".join(pt[1]))
                        cp.append(self.ctx.variants[v])
                b, bty = self.e(body)
                ty = bty if "?" in ty else ty
                arms.append("| %s => %s" % (" | ".join(cp), b))
            return "(match %s with %s end)" % (sc, " ".join(arms)), ty
        raise Unsupported("expression kind %s" % k)

    def text(self, x):
        if x[0] == "path":
            return "::".join(x[1])
        if x[0] == "field":
            return self.text(x[1]) + "." + x[2]
        if x[0] == "mcall":
            return self.text(x[1]) + "." + x[2] + "(" + ", ".join(self.text(a) for a in x[3]) + ")"
        if x[0] == "call":
            return "::".join(x[1]) + "(" + ", ".join(self.text(a) for a in x[2]) + ")"
        if x[0] == "bin":
            return self.text(x[2]) + " " + x[1] + " " + self.text(x[3])
        return "?"

    def call(self, f, args):
        cname, ptys, rty, partial = f
        t = "(%s %s)" % (cname, " ".join(a for a, _ in args)) if args else cname
        if partial:
            self.vc("%s_safe %s" % (cname, " ".join(a for a, _ in args)))
        return t, rty

    def mcall(self, x):
        _, recv, name, args = x
        txt = self.text(x)
        if txt in self.ctx.opaque:
            return self.ctx.opaque[txt]
        if recv[0] == "path" and recv[1] == ["config"] and not args and name in self.ctx.getters:
            return self.ctx.getters[name]
        if recv[0] == "field" and recv[2] == "config" and not args and name in self.ctx.getters:
            return self.ctx.getters[name]
        r, rty = self.e(recv)
        if name == "saturating_sub":
            a, _ = self.e(args[0])
            return "(%s - %s)" % (r, a), "N"
        if name == "checked_sub":
            a, _ = self.e(args[0])
            return "(if %s <=? %s then Some (%s - %s) else None)" % (a, r, r, a), "option N"
        if name in ("min", "max") and rty == "N":
            a, _ = self.e(args[0])
            return "(N.%s %s %s)" % (name, r, a), "N"
        if name == "map" and rty.startswith("option") and args and args[0][0] == "closure":
            _, v, body = args[0]
            inner = rty[len("option "):]
            sub = Tr(self.ctx, self.self_ty, dict(self.env, **{v: inner}))
            sub.path, sub.lets = list(self.path), list(self.lets)
            b, bty = sub.e(body)
            self.vcs += sub.vcs
            return "(match %s with Some %s => Some %s | None => None end)" % (r, v, b), "option " + bty
        if (rty, name) in self.ctx.funcs:
            return self.call(self.ctx.funcs[(rty, name)], [(r, rty)] + [self.e(a) for a in args])
        raise Unsupported("method %s on %s" % (name, rty))

    def binop(self, x):
        _, op, l, r = x
        if op in ("==", "!=") and r[0] == "path" and len(r[1]) == 2 and r[1][1] in self.ctx.variants and r[1][0] in self.ctx.enums:
            a, _ = self.e(l)                  # comparison with a field-less enum variant
            t = "(match %s with %s => true | _ => false end)" % (a, self.ctx.variants[r[1][1]])
            return (t if op == "==" else "(negb %s)" % t), "bool"
        a, aty = self.e(l)
        if op in ("&&", "||"):
            # the right operand is only evaluated on one outcome of the left
            self.path.append(a if op == "&&" else "negb (%s)" % a)
            b, bty = self.e(r)
            self.path.pop()
            return "(%s %s %s)" % (a, op, b), "bool"
        b, bty = self.e(r)
        if (op, aty, bty) in self.ctx.ops:
            fn, rty, partial = self.ctx.ops[(op, aty, bty)]
            if partial:
                self.vc("%s_safe %s %s" % (fn, a, b))
            return "(%s %s %s)" % (fn, a, b), rty
        if op == "|" and aty == "bool":
            return "(%s || %s)" % (a, b), "bool"
        if aty == "bool" and op in ("==", "!="):
            t = "(Bool.eqb %s %s)" % (a, b)
            return (t if op == "==" else "(negb %s)" % t), "bool"
        if aty != "N" or bty != "N":
            raise Unsupported("operator %s on %s, %s" % (op, aty, bty))
        if op == "-":
            self.vc("%s <=? %s" % (b, a))
            return "(%s - %s)" % (a, b), "N"
        if op in ("/", "%"):
            self.vc("negb (%s =? 0)" % b)
            return "(%s %s %s)" % (a, "/" if op == "/" else "mod", b), "N"
        m = {"+": "(%s + %s)", "*": "(%s * %s)", "==": "(%s =? %s)", "!=": "(negb (%s =? %s))", "<": "(%s <? %s)", "<=": "(%s <=? %s)"}
        if op in m:
            return m[op] % (a, b), ("N" if op in "+*" else "bool")
        if op == ">":
            return "(%s <? %s)" % (b, a), "bool"
        if op == ">=":
            return "(%s <=? %s)" % (b, a), "bool"
        raise Unsupported("operator %s" % op)

    # a block: statements threaded as nested lets; returns (term, type)
    @staticmethod
    def has_return(b):
        if b is None:
            return False
        if b[0] == "if":
            return Tr.has_return(b[2]) or Tr.has_return(b[3])
        if b[2] is not None and b[2][0] == "if" and Tr.has_return(b[2]):
            return True
        return any(s[0] == "return" or (s[0] == "expr" and s[1][0] == "if" and Tr.has_return(s[1])) for s in b[1])

    def blk(self, b, result=None, cont=None):
        """cont: what follows this block when control falls off its end (used for blocks of a statement-`if` that contains a `return`)"""
        _, stmts, tail = b
        if (cont is not None or result is not None) and tail is not None and tail[0] == "if":
            stmts, tail = stmts + [("expr", tail)], None          # a trailing `if` of a block evaluated for its effect
        saved_env, saved_lets = dict(self.env), list(self.lets)
        pre = []

        def close(t, ty):
            for n, v in reversed(pre):
                t = "(let %s := %s in %s)" % (n, v, t)
            self.env, self.lets = saved_env, saved_lets
            return t, ty
        for i, s in enumerate(stmts):
            if s[0] == "return":
                t, ty = self.e(s[1])
                return close(t, ty)
            if s[0] == "expr" and s[1][0] == "if" and Tr.has_return(s[1]):
                # `if c { .. return e; .. } [else ..]` followed by the rest: the rest is the continuation of both branches
                rest = ("block", stmts[i + 1:], tail)
                follow = lambda: self.blk(rest, result, cont)
                _, c, th, el = s[1]
                cc, _ = self.e(c)
                self.path.append(cc)
                a, aty = self.blk(th, None, follow)
                self.path.pop()
                self.path.append("negb (%s)" % cc)
                if el is None:
                    bb, bty = follow()
                elif el[0] == "block" and not el[1] and el[2] is not None and el[2][0] == "if":
                    bb, bty = self.blk(("block", [("expr", el[2])], None), None, follow)
                else:
                    bb, bty = self.blk(el, None, follow)
                self.path.pop()
                return close("(if %s then %s else %s)" % (cc, a, bb), aty if "?" not in aty else bty)
            if s[0] == "let" and s[2][0] == "opaque":
                if s[1] not in self.env:
                    raise Unsupported("opaque initialiser of `%s`" % s[1])
                continue                      # supplied as a parameter
            if s[0] == "let":
                try:
                    v, ty = self.e(s[2])
                except Unsupported:
                    if s[1] in self.env:
                        continue              # outside the subset, and supplied as a parameter
                    raise
                pre.append((s[1], v))
                self.lets.append((s[1], v))
                self.env[s[1]] = ty
            elif s[0] == "assign":
                n, v, ty = self.assign(s)
                pre.append((n, v))
                self.lets.append((n, v))
                self.env[n] = ty
            elif s[0] == "expr" and s[1][0] == "if":
                for n, v, ty in self.if_stmt(s[1]):
                    pre.append((n, v))
                    self.lets.append((n, v))
                    self.env[n] = ty
            elif s[0] == "expr" and s[1][0] == "mcall" and self.text(s[1]) in self.ctx.ignore_stmts:
                continue
            elif s[0] == "expr" and s[1][0] == "mcall" and self.self_update(s[1]) is not None:
                n, v, ty = self.self_update(s[1])
                pre.append((n, v))
                self.lets.append((n, v))
                self.env[n] = ty
            else:
                raise Unsupported("statement %r" % (s[0],))
        if cont is not None:
            if tail is not None:
                raise Unsupported("value at the end of a statement block")
            t, ty = cont()
        elif result is not None:
            t, ty = self.e(("path", [result]))
        elif tail is not None:
            t, ty = self.e(tail)
        else:
            raise Unsupported("block without a value")
        return close(t, ty)

    def self_update(self, x):
        """`self.m(args);` for a translated `&mut self` method, or `self.f.push(v);` on a list field: a new value of `self`"""
        _, recv, name, args = x
        if recv == ("path", ["self"]) and (self.env.get("self"), name) in self.ctx.funcs and self.ctx.funcs[(self.env["self"], name)][2] == self.env["self"]:
            t, ty = self.call(self.ctx.funcs[(self.env["self"], name)], [("self", self.env["self"])] + [self.e(a) for a in args])
            return "self", t, ty
        if name == "push" and len(args) == 1 and recv[0] == "field" and recv[1] == ("path", ["self"]):
            cur, cty_ = self.e(recv)
            if not cty_.startswith("list "):
                return None
            v, _ = self.e(args[0])
            return self.assign(("assign", recv, "=", ("raw", "(%s ++ [%s])" % (cur, v), cty_)))
        return None

    def assign(self, s):
        _, lhs, op, rhs = s
        if op != "=":
            rhs = ("bin", op[:-1], lhs, rhs)
        v, vty = self.e(rhs)
        if lhs[0] == "path" and len(lhs[1]) == 1:
            return lhs[1][0], v, vty
        if lhs[0] == "field" and lhs[1][0] == "path" and len(lhs[1][1]) == 1:
            base = lhs[1][1][0]
            bty = self.env[base]
            cq, ctor, fields = self.rec_of(bty)
            args = [v if rf == lhs[2] else "(%s %s)" % (proj, base) for rf, proj, fty in fields]
            return base, "(%s %s)" % (ctor, " ".join(args)), bty
        raise Unsupported("assignment target")

    def if_stmt(self, x):
        """`if c {assignments} [else {assignments}]` as a statement: every variable assigned in a branch gets a joined value"""
        _, c, th, el = x
        cc, _ = self.e(c)

        def stmtify(b):
            # a trailing `if` without `;` inside a statement-if is a statement too
            if b is not None and b[2] is not None and b[2][0] == "if":
                return ("block", b[1] + [("expr", b[2])], None)
            return b
        th, el = stmtify(th), stmtify(el)

        def assigned(b):
            out = []
            for s in b[1]:
                if s[0] == "assign":
                    tgt = s[1]
                    out.append(tgt[1][0] if tgt[0] == "path" else tgt[1][1][0])
                elif s[0] == "expr" and s[1][0] == "if":
                    out += assigned(stmtify(s[1][2])) + (assigned(stmtify(s[1][3])) if s[1][3] else [])
                elif s[0] == "let":
                    continue
                elif s[0] == "expr" and s[1][0] == "mcall" and self.text(s[1]) in self.ctx.ignore_stmts:
                    continue
                elif s[0] == "expr" and s[1][0] == "mcall" and s[1][1] == ("path", ["self"]):
                    out.append("self")
                elif s[0] == "expr" and s[1][0] == "mcall" and s[1][2] == "push":
                    out.append("self")
                else:
                    raise Unsupported("statement inside an if used as a statement")
            return out
        if th[2] is not None or (el is not None and el[2] is not None):
            raise Unsupported("value-producing if used as a statement")
        names = []
        for n in assigned(th) + (assigned(el) if el else []):
            if n not in names:
                names.append(n)
        res = []
        for n in names:
            self.path.append(cc)
            a, aty = self.blk(("block", th[1], None), result=n)
            self.path.pop()
            self.path.append("negb (%s)" % cc)
            b, _ = self.blk(("block", el[1] if el else [], None), result=n)
            self.path.pop()
            res.append((n, "(if %s then %s else %s)" % (cc, a, b), aty))
        return res


def translate_fn(ctx, src_toks, impl_header, fn_name, coq_name, self_ty=None, drop_params=(), extra_params=(), result_var=None,
                 stop_before=None, param_types=None):
    """translate one function; registers it in ctx.funcs; returns the Gallina text (definition + _safe)"""
    if impl_header is not None:
        lo, hi = find_impl(src_toks, impl_header)
    else:
        lo, hi = 0, len(src_toks)
    p = P(src_toks, find_fn(src_toks, lo, hi, fn_name))
    name, params, ret, body = p.fn()
    if stop_before is not None:
        # a fragment: the statements before the first `let <stop_before>` / statement mentioning it; the value is result_var
        keep = []
        for s in body[1]:
            if s[0] == "let" and s[1] == stop_before:
                break
            keep.append(s)
        body = ("block", keep, None)
    env, cparams = {}, []
    returns_self = False
    for n, ty in params:
        if n in drop_params:
            continue
        if n == "self":
            env["self"] = self_ty
            cparams.append(("self", cty(ctx, self_ty)))
            returns_self = returns_self or ty == "&mut Self"
        elif n == "config":
            continue                     # configuration getters become explicit parameters (extra_params)
        else:
            t = (param_types or {}).get(n, ty)
            c = cty(ctx, t)
            env[n] = t.replace("& ", "").replace("&", "").strip() if c not in ("N", "bool") else c
            cparams.append((n, c))
    for k, (n, c) in enumerate(extra_params):
        env[n] = c
        cparams.insert(k, (n, c))
    tr = Tr(ctx, self_ty, env)
    if returns_self and ret is None:
        term, rty = tr.blk(body, result="self")
    else:
        term, rty = tr.blk(body, result=result_var)
    sig = " ".join("(%s : %s)" % (n, c) for n, c in cparams)
    rc = cty(ctx, rty) if rty in ctx.records else rty.replace("option ", "option ") if rty.startswith("option") else rty
    if rty.startswith("option "):
        inner = rty[len("option "):]
        rc = "option " + (cty(ctx, inner) if inner in ctx.records else inner)
    out = ["(* %s%s::%s *)" % ("impl %s " % impl_header if impl_header else "", "", fn_name),
           "Definition %s %s : %s :=\n  %s." % (coq_name, sig, rc, term)]
    safe = " && ".join("(%s)" % v for v in tr.vcs) if tr.vcs else "true"
    out.append("Definition %s_safe %s : bool :=\n  %s." % (coq_name, sig, safe))
    ctx.funcs[(self_ty, fn_name)] = (coq_name, [c for _, c in cparams], rty, bool(tr.vcs))
    return "\n".join(out) + "\n", bool(tr.vcs)
