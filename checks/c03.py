"""C03 — comments are never silently dropped (segmentation + safety-net model; rewrite_comment payload oracle)."""
import re

from . import common, coqterm

PROP = "C03"
TRUSTED = [
    "Coq 8.16.1 kernel (coqc); vm_compute evaluates the model in cases.v; no native_compute",
    "Print Assumptions of every theorem in coq/C03/Props.v: Closed under the global context (checked each run)",
    "hand-written model coq/C03/Model.v of CharClasses, UngroupedCommentCodeSlices, CommentCodeSlices, CommentReducer, changed_comment_content, recover_comment_removed, LineClasses, filter_normal_code (comment.rs:1160-1840); tied to the code by the correspondence run through hooks verif_hooks::{char_classes, comments::*}",
    "rewrite_comment_inner / ItemizedBlock / rewrite_string are NOT modelled: they enter as the hypothesis 'rewrite_comment preserves the payload', which this check evaluates on generated comments for every combination of wrap_comments / normalize_comments and widths 20..100 (a search, not a theorem)",
    "agreement of CharClasses with rustc_lexer is not covered by this check",
    "byte offsets via a UTF-8 length function in the model",
]

PIECES = ["//", "/*", "*/", "\"", "\\", "'", "r#\"", "\"#", "b'x'", "'a", "\n", "*", " ", "a", "bc", "/", "#", "r", "é", "\t", "\r\n", "//!", "/**", "x y",
          # complete char / byte literals, the ones holding a quote or a backslash included
          "'x'", "'\"'", "b'\"'", "'\\''", "'\\\\'", "'\\n'"]
WORDS = ["alpha", "beta", "gamma", "a", "of", "https://example.com/a/very/long/url/that/does/not/fit/anywhere/really.html", "supercalifragilisticexpialidocious_and_more_and_more", "x*y", "a/b", "`code`", "1.", "-", "*", "TODO:", "é中"]


def gen_text(rnd):
    return "".join(rnd.choice(PIECES) for _ in range(rnd.randint(0, 14)))


def gen_comment(rnd):
    style = rnd.choice(["line", "line", "lines", "block", "blockstar", "blockml"])
    def sentence(n):
        return " ".join(rnd.choice(WORDS) for _ in range(n))
    if style == "line":
        return "// " + sentence(rnd.randint(1, 14)), False
    if style == "lines":
        ls = []
        for _ in range(rnd.randint(2, 5)):
            k = rnd.random()
            if k < 0.15:
                ls.append("//")
            elif k < 0.3:
                ls.append("// - " + sentence(rnd.randint(1, 6)))
            else:
                ls.append("// " + sentence(rnd.randint(1, 10)))
        return "\n".join(ls), False
    if style == "block":
        return "/* " + sentence(rnd.randint(1, 12)) + " */", True
    if style == "blockstar":
        ls = ["/*"] + [" * " + sentence(rnd.randint(1, 8)) for _ in range(rnd.randint(1, 4))] + [" */"]
        return "\n".join(ls), True
    ls = ["/* " + sentence(rnd.randint(1, 5))] + ["   " + sentence(rnd.randint(1, 8)) for _ in range(rnd.randint(1, 3))]
    return "\n".join(ls) + " */", True


def gen_cases(tier, seed):
    rnd = common.rng(seed, PROP)
    cases = []
    n1 = 700 if tier == "quick" else 12000
    for _ in range(n1):
        cases.append({"kind": "text", "text": gen_text(rnd)})
    n2 = 250 if tier == "quick" else 4000
    for _ in range(n2):
        a = gen_text(rnd)
        b = a
        k = rnd.random()
        if k < 0.4:
            b = gen_text(rnd)
        elif k < 0.8 and a:
            i = rnd.randrange(len(a))
            b = a[:i] + rnd.choice(["", " ", "*", "x", "\n"]) + a[i + 1:]
        cases.append({"kind": "changed", "a": a, "b": b})
    n3 = 400 if tier == "quick" else 6000
    for _ in range(n3):
        t, blk = gen_comment(rnd)
        cfg = [["wrap_comments", rnd.choice(["true", "false"])], ["normalize_comments", rnd.choice(["true", "false"])],
               ["comment_width", str(rnd.choice([20, 30, 40, 60, 80]))]]
        cases.append({"kind": "rewrite", "text": t, "config": cfg, "width": rnd.choice([20, 30, 40, 60, 100]),
                      "indent": rnd.choice([0, 4, 8]), "block": rnd.choice([False, False, True])})
    return cases


def model_expr(c):
    T = coqterm.text
    if c["kind"] == "text":
        return "case %s" % T(c["text"])
    if c["kind"] == "changed":
        return "run_changed_opt %s %s" % (T(c["a"]), T(c["b"]))
    return "run_payload %s" % T(c["text"])


def items(v):
    out = []
    for (k, off, s) in v:
        if k == 99:
            return None       # panic
        out.append([k, off, coqterm.untext(s)])
    return out


def canon_model(c, v):
    U = coqterm.untext
    if c["kind"] == "text":
        cl, ung, sli, pay, pay_ok, lc, fnc = v
        return {"classes": [[k, ch] for (k, ch) in cl], "ungrouped": items(ung), "slices": items(sli),
                "payload": U(pay) if pay_ok else None, "filter_normal_code": U(fnc)}
    if c["kind"] == "changed":
        if isinstance(v, coqterm.Ctor) and v.name == "Some":
            return {"changed": v.args[0]}
        return {"changed": None}
    return {"payload_in": U(v)}


def canon_impl(c, r):
    if c["kind"] == "text":
        return {"classes": r["classes"], "ungrouped": r["ungrouped"], "slices": r["slices"], "payload": r["payload"],
                "filter_normal_code": r["filter_normal_code"]}
    if c["kind"] == "changed":
        return {"changed": r["changed"]}
    return {"payload_in": r["payload_in"]}


def words(comment):
    """the words of a comment: markers, the decoration star of continuation lines of a block comment
    and white space removed"""
    out = []
    in_block = False
    for line in comment.replace("\r", "").split("\n"):
        s = line.strip()
        cont = in_block
        if not in_block:
            for op in ("//!", "///", "//", "/**", "/*!", "/*"):
                if s.startswith(op):
                    if op.startswith("/*"):
                        in_block = True
                    s = s[len(op):]
                    break
        if in_block and s.endswith("*/"):
            s = s[:-2]
            in_block = False
        s = s.strip()
        if cont and s.startswith("*"):
            s = s[1:]
        out += s.split()
    return out


def oracle(c, r):
    bad = []
    if c["kind"] == "text":
        t = c["text"]
        if [ch for _, ch in r["classes"]] != [ord(x) for x in t]:
            bad.append(("classify_chars", "CharClasses does not return the chars of the text in order"))
        for key in ("ungrouped", "slices"):
            sl = r[key]
            if sl is None:
                bad.append((key + "_panic", "%s panicked on %r" % (key, t)))
                continue
            if "".join(s for _, _, s in sl) != t:
                bad.append((key + "_partition", "%s do not tile the text %r: %r" % (key, t, sl)))
            off = 0
            for k, o, s in sl:
                if o != off:
                    bad.append((key + "_offsets", "slice offset %d, expected %d in %r" % (o, off, sl)))
                    break
                off += len(s.encode("utf-8"))
                if k == 1 and not (s.startswith("//") or s.startswith("/*")):
                    bad.append((key + "_comment_shape", "Comment slice %r does not start with a comment opener" % s))
    elif c["kind"] == "rewrite":
        if r.get("out") is None:
            return bad   # rewrite failed: caller keeps the original
        wi, wo = words(c["text"]), words(r["out"])
        if "".join(wi) != "".join(wo):
            bad.append(("rewrite_lost_text", "rewrite_comment changed the text of the comment: %r -> %r (config %r, width %d)" % (c["text"], r["out"], c["config"], c["width"])))
        elif wi != wo:
            longest = max((len(w) for w in wi), default=0)
            key = "rewrite_words_split_long" if longest > 15 else "rewrite_words"
            bad.append((key, "rewrite_comment changed word boundaries: %r -> %r" % (wi, wo)))
    return bad


def nontrivial(c, r):
    if c["kind"] == "text":
        return r.get("slices") is not None and len(r["slices"]) >= 2
    if c["kind"] == "changed":
        return c["a"] != c["b"]
    return r.get("out") is not None and r["out"] != c["text"]


# ---------------------------------------------------------------- end to end: injected comments survive

OPTION_PRESETS = [
    [["fn_single_line", "true"]], [["group_imports", "StdExternalCrate"]], [["imports_granularity", "Crate"]], [["match_arm_blocks", "false"]],
    [["brace_style", "AlwaysNextLine"], ["control_brace_style", "AlwaysNextLine"]], [["struct_lit_single_line", "false"], ["empty_item_single_line", "false"]],
    [["where_single_line", "true"], ["fn_params_layout", "Compressed"]], [["use_small_heuristics", "Max"]], [["use_small_heuristics", "Off"]], [["indent_style", "Visual"]],
    [["reorder_impl_items", "true"]], [["normalize_comments", "true"]], [["wrap_comments", "true"], ["comment_width", "40"]], [["overflow_delimited_expr", "true"]],
    [["match_block_trailing_comma", "true"], ["trailing_comma", "Never"]], [["single_line_if_else_max_width", "0"]], [["fn_params_layout", "Vertical"]], [["hard_tabs", "true"]],
    [["imports_granularity", "Item"], ["group_imports", "One"]], [["style_edition", "2024"], ["fn_single_line", "true"]],
]
E2E_KINDS = ["item", "assoc_item", "stmt", "field", "variant", "arm", "param", "arg", "expr_field"]


# (wrapper or None, text before the elements, elements, text after): elements whose own text contains the delimiters that the
# list code searches for
FNW = "fn wrapper() {\n%s\n}\n"
LIST_FORMS = [
    (None, "fn f(", ["a: (u8, u8)", "b: fn() -> bool", "c: impl Fn(u32) -> u32"], ") {}"),
    (FNW, "    call(", ["(a, b)", "f(x)", "|y| (y)"], "    );"),
    (None, "struct S {", ["a: (u8, u8)", "b: fn(u8) -> u8", "c: [u8; 2]"], "}"),
    (None, "struct T(", ["pub (u8, u8)", "pub u32"], ");"),
    (None, "enum E {", ["A(u8, u8)", "B { x: u8 }", "C = 3"], "}"),
    (FNW, "    match v {", ["(a, b) => 1", "S { x } => 2", "_ => (3)"], "    }"),
    (None, "fn g<T, U>()\nwhere", ["T: Fn(u8) -> u8", "U: Copy"], "{\n}"),
    (FNW, "    let t = (", ["(1, 2)", "f(3)"], "    );"),
    (FNW, "    let s = S {", ["a: (1, 2)", "b: g(3)"], "    };"),
    (FNW, "    let a = [", ["(1, 2)", "h(3)", "[4]"], "    ];"),
]
INSIDE_FORMS = [
    "let v = a + b * c;", "let w = x as u64 as usize;", "let r = &mut value;", "let d = *pointer;", "let n = -number;", "let q = first.second(third).fourth;",
    "let s = Struct { a: 1, b: two };", "let c = |x, y| x + y;", "let m = match k { A => 1, B => 2 };", "let i = if cond { 1 } else { 2 };",
    "const IN_FN: usize = 4 * 1024;", "static IN_FN_S: u8 = 7;", "call(first, second);", "x = y;", "x += 1;", "return value;", "let t: (u8, u16) = (1, 2);",
    "let arr = [1, 2, 3];", "let rng = 0..10;", "let idx = arr[0];", "let tr = value?;", "let fut = thing.await;", "let (a, b) = pair;", "let Some(z) = opt else { return };",
    "println!(\"{}\", a + b);", "assert_eq!(x as u8, &y);", "let v = vec![a + b, c];", "let u = unsafe { f() };", "for i in 0..n { g(i); }", "while a < b { a += 1; }",
    "let l = 'lbl: loop { break 'lbl 1; };", "let cl = move || { h() };", "let g = f::<u8>(1);", "let p = <T as Tr>::f();", "if a && b || c { d(); }", "let e = !flag;",
    "write!(out, \"{}\", x.y as u8)?;", "let k = m!(a - b, &c, d as u8);", "debug_assert!(p == q && r != s, \"msg {}\", t);", "type Local = Vec<u8>;", "use inner::{a, b};",
    # (appended: the indices of the earlier forms are keys of recorded findings)
    # redundant semicolons (rustfmt deletes them) and loops written with a terminating semicolon: a comment next to the deleted token
    "first_call(); ; second_call();", "let one = 1; ;", "loop { work(); };", "while cond { step(); };", "for i in it { body(i); };", "if c { d(); };", "match v { _ => e() };", "unsafe { f() };",
]


def e2e(rep, tier, seed):
    import hashlib
    import random
    from . import pool
    P = [p for p in pool.load() if p["id"].startswith("source/")]
    MOD = 6
    if tier != "thorough":
        P = [p for p in P if int(hashlib.sha1(p["id"].encode()).hexdigest()[:6], 16) % MOD == seed % MOD]
    nodes = common.run_vh_pool("nodes", [{"text": p["text"], "config": p["header"]} for p in P], per_case_timeout=20)
    cases, meta = [], []
    for p, nd in zip(P, nodes):
        if not isinstance(nd, dict) or not nd.get("nodes"):
            continue
        if "rustfmt::skip" in p["text"] or "rustfmt_skip" in p["text"] or "macro_rules" in p["text"]:
            continue
        rnd = random.Random(p["id"])
        b = p["text"].encode("utf-8")
        by_kind = {}
        for kind, lo, hi, parent in nd["nodes"]:
            if kind in E2E_KINDS:
                by_kind.setdefault(kind, []).append((lo, hi))
        n = 0
        for kind, spans in sorted(by_kind.items()):
            for (lo, hi) in rnd.sample(spans, min(2, len(spans))):
                for style in ("block_before", "line_before", "line_after", "block_after"):
                    n += 1
                    mark = "CMT%dQ" % n
                    if style == "block_before":
                        text = b[:lo] + ("/* %s */ " % mark).encode() + b[lo:]
                    elif style == "line_before":
                        text = b[:lo] + ("// %s\n" % mark).encode() + b[lo:]
                    else:
                        # at the end of the element's last line: after the element and a directly following , or ;
                        j = hi
                        if j < len(b) and b[j:j + 1] in (b",", b";"):
                            j += 1
                        k = b.find(b"\n", j)
                        if k < 0 or b[j:k].strip() != b"":
                            continue
                        text = b[:j] + ((" // %s" if style == "line_after" else " /* %s */") % mark).encode() + b[j:]
                    # under the program's own configuration and under the newest style edition
                    cfgs = [p["header"]]
                    if n % 2 == 0 and not any(k in ("style_edition", "version") for k, _ in p["header"]):
                        cfgs.append(pool.merged(p["header"], [["style_edition", "2024"]]))
                    elif n % 4 == 1:
                        # and at another width (the comment then sits next to different line breaks)
                        cfgs.append(pool.merged(p["header"], [["max_width", ["30", "50", "70", "140"][(n // 4) % 4]]]))
                    else:
                        # and under another layout option ("every option combination": one preset per injection, rotating)
                        cfgs.append(pool.merged(p["header"], OPTION_PRESETS[(n // 4) % len(OPTION_PRESETS)]))
                    for cfg in cfgs:
                        cases.append({"text": text.decode("utf-8", "replace"), "config": cfg, "again": False, "lex": False})
                        meta.append((p["id"], kind, style, mark))
    # anywhere inside a statement of a function body: a block comment at a random token boundary of a statement
    lexed = dict(zip([p["id"] for p in P], common.run_vh_pool("lex", [{"text": p["text"]} for p in P], per_case_timeout=20)))
    for p, nd in zip(P, nodes):
        if not isinstance(nd, dict) or not nd.get("nodes") or not isinstance(lexed.get(p["id"]), list):
            continue
        if "rustfmt::skip" in p["text"] or "rustfmt_skip" in p["text"] or "macro_rules" in p["text"]:
            continue
        rnd = random.Random("in-" + p["id"])
        b = p["text"].encode("utf-8")
        # byte offsets of token starts
        offs, o = [], 0
        for k, t in lexed[p["id"]]:
            offs.append((o, k, t))
            o += len(t.encode("utf-8"))
        stmts = [(lo, hi) for kind, lo, hi, parent in nd["nodes"] if kind == "stmt" and hi - lo >= 12]
        for (lo, hi) in rnd.sample(stmts, min(6, len(stmts))):
            inner = [(off, k, t) for (off, k, t) in offs if lo < off < hi and k not in ("ws", "lc", "bc") ]
            if len(inner) < 2:
                continue
            off, k, t = rnd.choice(inner)
            # not right after a `!` or `$` (macro call head / metavariable), not between `'` lifetimes and idents
            prev = [x for x in offs if x[0] < off and x[1] not in ("ws",)]
            if prev and prev[-1][2] in ("!", "$", "#", "'"):
                continue
            stext = b[lo:hi].decode("utf-8", "replace")
            if "!" in stext:
                continue          # inside macro calls the tokens are not statements of the function body
            nin = len(cases)
            mark = "INS%dQ" % nin
            text = b[:off] + ("/* %s */ " % mark).encode() + b[off:]
            cases.append({"text": text.decode("utf-8", "replace"), "config": p["header"], "again": False, "lex": False})
            meta.append((p["id"], "stmt", "inside", mark))
    # import runs with comments, empty lists included (their list item is the only carrier of the comments next to them)
    ri = random.Random("c03-imports-%d" % (seed if tier != "thorough" else 0))
    roots = ["std", "core", "alloc", "crate", "super", "foo", "bar", "baz", "serde", "tokio"]
    for ii in range(40 if tier != "thorough" else 400):
        decls, marks = [], []
        used = set()
        for k in range(ri.randint(3, 6)):
            r = ri.choice([x for x in roots if x not in used])
            used.add(r)
            body = ri.choice(["%s::a", "%s::{b, a}", "%s::{}", "%s::x::{}", "%s::*", "%s::m::{self, z}"]) % r
            pre = post = ""
            if ri.random() < 0.5:
                m = "IMP%d_%dQ" % (ii, len(marks))
                marks.append(m)
                pre = ri.choice(["// %s\n", "/* %s */\n", "// %s\n// second line\n"]) % m
            if ri.random() < 0.4:
                m = "IMP%d_%dQ" % (ii, len(marks))
                marks.append(m)
                post = " // %s" % m
            decls.append(pre + "use " + body + ";" + post)
        text = "\n".join(decls) + "\n\nfn after() {}\n"
        cfg = [["group_imports", ri.choice(["Preserve", "StdExternalCrate", "One"])], ["imports_granularity", ri.choice(["Preserve", "Preserve", "Item", "Module", "Crate", "One"])],
               ["reorder_imports", ri.choice(["true", "true", "false"])]]
        for m in marks:
            cases.append({"text": text, "config": cfg, "again": False, "lex": False})
            meta.append(("synthimports/%d" % ii, "import", "run", m))
    # bodies that an option may put on ONE line (fn_single_line, single-line if/else, flattened match arms, single-line
    # struct literals, empty items): a comment before / after their only statement must survive the collapse
    ONE = ["fn answer() -> u32 {\n    42 %s\n}\n", "fn f() {\n    call(); %s\n}\n", "fn g() -> u8 {\n    %s\n    1\n}\n", "impl S {\n    fn m(&self) -> u8 {\n        self.0 %s\n    }\n}\n",
           "fn h() {\n    let k = || {\n        1 %s\n    };\n}\n", "fn i() -> u8 {\n    if a {\n        1 %s\n    } else {\n        2\n    }\n}\n", "fn j() -> u8 {\n    if a {\n        1\n    } else {\n        2 %s\n    }\n}\n",
           "fn k() -> u8 {\n    match v {\n        A => {\n            1 %s\n        }\n        _ => 0,\n    }\n}\n", "fn l() {\n    let s = S {\n        a: 1, %s\n        b: 2,\n    };\n}\n", "struct E {\n    %s\n}\n",
           "enum F {\n    %s\n}\n", "impl T for U {\n    %s\n}\n", "fn n() {\n    %s\n}\n", "trait W {\n    fn d(&self) -> u8 {\n        7 %s\n    }\n}\n", "fn o() -> u8 {\n    unsafe {\n        p() %s\n    }\n}\n",
           "fn q<T>(t: T) -> T\nwhere\n    T: Copy, %s\n{\n    t\n}\n", "fn r() {\n    let Some(x) = y else {\n        return; %s\n    };\n}\n"]
    ONE_CFG = [[], [["fn_single_line", "true"]], [["fn_single_line", "true"], ["style_edition", "2024"]], [["match_arm_blocks", "false"]], [["single_line_if_else_max_width", "100"], ["use_small_heuristics", "Max"]],
               [["struct_lit_single_line", "true"], ["use_small_heuristics", "Max"]], [["empty_item_single_line", "true"], ["brace_style", "PreferSameLine"]], [["where_single_line", "true"]],
               [["single_line_let_else_max_width", "100"]], [["fn_single_line", "true"], ["max_width", "40"]]]
    oi = 0
    for fi, form in enumerate(ONE):
        for cm in ("// %s", "/* %s */"):
            for ci, cfg in enumerate(ONE_CFG):
                oi += 1
                mark = "ONE%dQ" % oi
                cases.append({"text": form % (cm % mark), "config": cfg, "again": False, "lex": False})
                meta.append(("synthone/f%d.c%d" % (fi, ci), "body", "single_line_option", mark))
    # synthetic: a comment where no rewriter places one (between an operand and the operator), so that only the
    # safety net keeps it, preceded by literals whose quotes / comment openers the classifier must not misread
    LITS = ["'\"'", "b'\"'", "'\\''", "\"\\\"\"", "r#\"\"\"#", "'a'", "\"//\"", "\"/*\"", "'/'", "b\"*/\"", "'\\\\'"]
    si = 0
    for lit in LITS:
        for cm in ("/* %s */", "// %s\n       "):
            for tmpl in ("fn f(c: u8) -> bool {\n    c == %s %s || c == 'x'\n}\n", "fn g() {\n    let v = h(%s, 1) %s + 2;\n}\n", "fn k() {\n    m(%s) %s .n();\n}\n"):
                si += 1
                mark = "SYN%dQ" % si
                cases.append({"text": tmpl % (lit, cm % mark), "config": [], "again": False, "lex": False})
                meta.append(("synth/%d" % si, "expr", "net_only", mark))
    # anywhere inside a statement of a function body, systematically: a block comment at EVERY token boundary of each statement form
    ftexts = ["fn wrapper() {\n    %s\n}\n" % f for f in INSIDE_FORMS]
    flex = common.run_vh_pool("lex", [{"text": t} for t in ftexts], per_case_timeout=20)
    for fi, (t, toks) in enumerate(zip(ftexts, flex)):
        if not isinstance(toks, list):
            continue
        b = t.encode("utf-8")
        offs, o = [], 0
        for k, tt in toks:
            offs.append((o, k, tt))
            o += len(tt.encode("utf-8"))
        lo, hi = t.index("{") + 1, t.rindex("}")
        sg = [(off, k, tt) for off, k, tt in offs if lo < off < hi and k not in ("ws", "lc", "bc")]
        for bi in range(1, len(sg)):
            off, prev, cur = sg[bi][0], sg[bi - 1][2], sg[bi][2]
            if prev in ("!", "$", "#", "'") or (prev == ":" and cur == ":") or (prev in "=<>-+|&." and cur in "=<>|&."):
                continue          # inside a compound operator / a macro or attribute head
            widths = ["100", "40"] if tier != "thorough" else ["100", "60", "40", "25"]
            for wi, w in enumerate(widths):
                if tier != "thorough" and (fi + bi + seed + wi) % 2:
                    continue          # quick: every boundary, at one of the two widths
                mark = "FRM%d_%dQ" % (fi, bi)
                text = (b[:off] + ("/* %s */ " % mark).encode() + b[off:]).decode("utf-8")
                cases.append({"text": text, "config": [["max_width", w]], "again": False, "lex": False})
                meta.append(("form/%d.%d" % (fi, bi), "stmt", "inside_form" if cur != "!" else "inside_form_macro_head", mark))
    # between and after the elements of every kind of list, systematically: elements whose own text contains delimiters, a comment
    # after EACH element (the last one with and without a trailing separator), comment bodies that quote the delimiters
    for li, (wrap, pre, elems, suf) in enumerate(LIST_FORMS):
        for ei in range(len(elems)):
            for place in ("line_after_sep", "block_before_sep", "block_after_sep", "last_no_sep_line", "last_no_sep_block"):
                last = ei == len(elems) - 1
                if place.startswith("last_no_sep") and not last:
                    continue
                for quoted in (False, True):
                    if place.endswith("line") or place.startswith("line"):
                        if quoted:
                            continue
                    mark = "LST%d_%d_%s%sQ" % (li, ei, place[:1] + place[-3:], "q" if quoted else "")
                    body = mark + (" says \")}]|{,;>\" end" if quoted else "")
                    rows = []
                    for k, el in enumerate(elems):
                        sep = "," if not (k == len(elems) - 1 and place.startswith("last_no_sep")) else ""
                        if k != ei:
                            rows.append("    %s%s" % (el, sep))
                        elif place in ("line_after_sep", "last_no_sep_line"):
                            rows.append("    %s%s // %s" % (el, sep, body))
                        elif place == "block_before_sep":
                            rows.append("    %s /* %s */%s" % (el, body, sep))
                        else:
                            rows.append("    %s%s /* %s */" % (el, sep, body))
                    inner = pre + "\n" + "\n".join(rows) + "\n" + suf
                    text = (wrap % inner) if wrap else inner + "\n"
                    for w in ("100", "30"):
                        if tier != "thorough" and (li + ei + int(w) + seed) % 2 and not last:
                            continue
                        cases.append({"text": text, "config": [["max_width", w]], "again": False, "lex": False})
                        meta.append(("list/%d.%d.%s%s" % (li, ei, place, ".q" if quoted else ""), "list", "element", mark if not quoted else "/* %s */" % body))
    res = common.run_vh_pool("pool", cases, per_case_timeout=15)
    found = n = 0
    per = {}
    for (pid, kind, style, mark), c, r in zip(meta, cases, res):
        if not pool.accepted(r) or r["out"] == "":
            continue
        n += 1
        per[(kind, style)] = per.get((kind, style), 0) + 1
        cnt = r["out"].count(mark)
        if cnt != 1:
            key = "comment_%s:%s:%s:%s" % ("lost" if cnt == 0 else "duplicated", kind, style, pid)
            if kind == "list":
                key = "comment_%s:list:%s" % ("lost" if cnt == 0 else "duplicated", pid.split("/", 1)[1])
            if style == "inside_form_macro_head":
                key = "comment_lost:macro_call_head"
            elif style == "inside_form":
                key = "comment_%s:inside_form:%s" % ("lost" if cnt == 0 else "duplicated", pid.split("/", 1)[1])
            if kind == "import":
                cd = dict(c["config"])
                empty = "::{}" in c["text"]
                key = "comment_%s:import:%s" % ("lost" if cnt == 0 else "duplicated",
                                                  ("empty_import/%s/%s" % (cd["imports_granularity"], cd["group_imports"])) if empty else "plain")
            if rep.violation(key, {"pool_id": pid, "kind": kind, "style": style, "marker": mark, "config": c["config"], "input": c["text"], "out": r["out"]},
                             "a comment injected %s a %s of %s appears %d times in the output" % (style.replace("_", " "), kind, pid, cnt)):
                found += 1
    rep.coverage["e2e_injections_judged"] = n
    rep.coverage["e2e_per_position"] = {"%s/%s" % k: v for k, v in sorted(per.items())}
    rep.coverage["e2e_rule"] = "pool source programs (thorough: all; quick: the 1/%d selected by the seed) x up to 2 elements of each kind %s x {block comment before, line comment on its own line before, line comment / block comment at the end of the element's line} under the program's configuration and, rotating, style_edition 2024, another max_width (30 / 50 / 70 / 140) or one of 20 layout-option presets (fn_single_line, group_imports, brace styles, heuristics, Visual indent, comment options ...); 17 one-statement bodies / empty items x line and block comment x 10 single-line option sets (fn_single_line, match_arm_blocks, single-line if/else and let-else, struct_lit_single_line, empty_item_single_line, where_single_line); 40 generated import runs (empty lists included) with comments before / after their declarations under group_imports x imports_granularity x reorder_imports: the marker comment must appear exactly once in the output of every accepted run; a block comment at a random token boundary inside up to 6 statements per program (anywhere inside a statement of a function body), and systematically at EVERY token boundary of 49 statement forms (let / assignment / control flow / item statements / macro-call statements whose arguments parse as expressions) at two widths; a comment after EACH element of 10 kinds of lists (parameters, arguments, fields, tuple fields, variants, arms, where predicates, tuple / struct / array literals) whose elements contain the delimiters themselves, line and block style, before and after the separator, the last element with and without a trailing separator, plain and with a body that quotes the delimiters, at two widths; plus 66 synthetic expressions with a comment only the safety net can keep, after char / byte / string / raw-string literals containing quotes and comment openers" % (MOD, E2E_KINDS)
    return found


def run(tier, seed, replay):
    return common.standard_run(
        PROP, tier, seed, replay,
        dirs=["C03"], props_file="C03/Props.v", trusted=TRUSTED, gen_cases=gen_cases, vh_sub="c03",
        imports="From V Require Import Base.Text C03.Model C03.Run.\nOpen Scope N_scope.",
        model_expr=model_expr, canon_model=canon_model, canon_impl=canon_impl, oracle=oracle, nontrivial=nontrivial,
        extra=e2e,
        rule="(a) seeded random texts from comment / string / char-literal / raw-string fragments: classification, ungrouped and grouped slices with byte offsets, payload, filter_normal_code compared with the model; (b) pairs of such texts (random, or one char edited): changed_comment_content compared; (c) generated line / multi-line / block / star-prefixed comments with long words, URLs, list markers through rewrite_comment under wrap_comments x normalize_comments x widths: payload (model) and word sequence preserved. non-trivial = >= 2 slices / differing pair / comment actually rewritten; distinct by hash",
        per_file=150,
    )
