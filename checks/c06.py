"""C06 — --check and the non-file emitters never write; --check's exit status; one formatted text for all emitters."""
import hashlib
import json
import os
import re
import shutil
import subprocess
from concurrent.futures import ThreadPoolExecutor

from . import common, coqterm
from .common import log

PROP = "C06"
TRUSTED = [
    "Coq 8.16.1 kernel (coqc); vm_compute evaluates the model in cases.v; no native_compute",
    "Print Assumptions of every theorem in coq/C06/Props.v: Closed under the global context (checked each run)",
    "hand-written model coq/C06/Model.v of main.rs (exit codes, apply_to, format_string), lib.rs create_emitter, source_file.rs write_file and emitter/*.rs; the formatted text is a parameter of the model (taken from the implementation); make_diff is C12's model",
    "tie to the code: real rustfmt processes over a matrix of emit modes / flags / inputs; observed emitter kind, number of file-system effects, --check exit status and exit codes are compared with run_create_emitter / run_apply_to_mode / run_stdin_mode / run_emit / run_exit_file / run_exit_stdin; has_diff of json / checkstyle / modified-lines through the in-process harness (vh c12 emit), flags through vh fmt",
    "a write is observed as a change of sha256 or st_mtime_ns (mtimes are set to a fixed old value before each run) or a new directory entry",
]
OLD_NS = 1_000_000_000 * 1_000_000_000     # 2001-09-09, any write moves st_mtime_ns away from it

MODES = {
    "files": [], "backup": ["--backup"], "stdout": ["--emit", "stdout"], "check": ["--check"],
    "json": ["--emit", "json"], "checkstyle": ["--emit", "checkstyle"],
    "check_inline_files": ["--check", "--config", "emit_mode=files"],
}
# (check, --emit mode number or None, inline emit_mode number or None, backup) as the model sees the command line
MODEL_ARGS = {
    "files": (False, None, None, False), "backup": (False, None, None, True), "stdout": (False, 1, None, False),
    "check": (True, None, None, False), "json": (False, 4, None, False), "checkstyle": (False, 3, None, False),
    "check_inline_files": (True, None, 0, False),
}
BITS = {"none": [], "l": ["-l"], "q": ["-q"]}

SCENARIOS = [
    {"name": "formatted", "files": {"a.rs": "fn main() {}\n"}, "roots": ["a.rs"], "config": [], "auto": True},
    {"name": "unformatted", "files": {"a.rs": "fn  main( ){}\n"}, "roots": ["a.rs"], "config": [], "auto": True},
    {"name": "crlf_explicit_unformatted", "files": {"a.rs": "fn  main( ){}\r\nfn g() {}\r\n"}, "roots": ["a.rs"], "config": ["newline_style=Unix"], "auto": False},
    {"name": "crlf_explicit_only_newline_style", "files": {"a.rs": "fn main() {}\r\n"}, "roots": ["a.rs"], "config": ["newline_style=Unix"], "auto": False},
    {"name": "lf_explicit_windows_only_newline_style", "files": {"a.rs": "fn main() {}\n"}, "roots": ["a.rs"], "config": ["newline_style=Windows"], "auto": False},
    {"name": "crlf_auto_only_newline_style", "files": {"a.rs": "fn main() {}\r\n"}, "roots": ["a.rs"], "config": [], "auto": True},
    {"name": "bom_auto", "files": {"a.rs": "\ufefffn main() {}\n"}, "roots": ["a.rs"], "config": [], "auto": True},
    {"name": "module_tree", "files": {"lib.rs": "mod a;\nmod b;\nfn  x(){}\n", "a.rs": "pub fn  a(){}\nmod c;\n", "b.rs": "pub fn b() {}\n", "a/c.rs": "pub  fn c() {}\n"},
     "roots": ["lib.rs"], "config": [], "auto": True},
    {"name": "two_roots", "files": {"x.rs": "fn  x(){}\n", "y.rs": "fn y() {}\n"}, "roots": ["x.rs", "y.rs"], "config": [], "auto": True},
    # files without any code: blank lines / white space only, nothing at all; a placeholder module of a formatted crate
    {"name": "blank_lines_only", "files": {"a.rs": "\n\n"}, "roots": ["a.rs"], "config": [], "auto": True},
    {"name": "spaces_only", "files": {"a.rs": "   \n"}, "roots": ["a.rs"], "config": [], "auto": True},
    {"name": "blank_placeholder_module", "files": {"lib.rs": "mod placeholder;\nfn x() {}\n", "placeholder.rs": "\n\n\n"}, "roots": ["lib.rs"], "config": [], "auto": True},
    # one root whose files are emitted in path order: the misformatted one is not the last / is the first one emitted
    {"name": "tree_last_emitted_clean", "files": {"lib.rs": "mod zed;\nfn  x(){}\n", "zed.rs": "pub fn z() {}\n"}, "roots": ["lib.rs"], "config": [], "auto": True},
    {"name": "tree_only_middle_dirty", "files": {"lib.rs": "mod aaa;\nmod kkk;\nmod zzz;\n", "aaa.rs": "pub fn a() {}\n", "kkk.rs": "pub  fn k( ) {}\n", "zzz.rs": "pub fn z() {}\n"},
     "roots": ["lib.rs"], "config": [], "auto": True},
]
# inputs that set error flags (exit-code correspondence)
FLAG_INPUTS = [
    {"name": "clean", "text": "fn main() {}\n", "config": []},
    {"name": "needs_format", "text": "fn  main( ){}\n", "config": []},
    {"name": "parse_error", "text": "fn main( {\n", "config": []},
    {"name": "deprecated_attr", "text": "#[rustfmt_skip]\nfn main() {}\n", "config": []},
    {"name": "line_overflow", "text": "fn main() {\n    let x = \"" + "a" * 120 + "\";\n}\n", "config": [["error_on_line_overflow", "true"]]},
    {"name": "lost_comment", "text": "fn main() { let x = match /* c */ 1 { _ => 2 }; }\n", "config": []},
]


def rustfmt(args, cwd, home, stdin=None, timeout=60):
    """byte-exact run (common.sh decodes with universal newlines, which would hide CR LF)"""
    e = dict(os.environ)
    e.update(common.rust_env())
    e.pop("CARGO_TARGET_DIR", None)
    e["HOME"] = home
    e["XDG_CONFIG_HOME"] = os.path.join(home, ".config")
    p = subprocess.run([common.bin_path("rustfmt")] + args, cwd=cwd, env=e, timeout=timeout,
                       input=None if stdin is None else stdin.encode("utf-8"),
                       stdin=subprocess.DEVNULL if stdin is None else None,
                       stdout=subprocess.PIPE, stderr=subprocess.PIPE)
    return p.returncode, p.stdout.decode("utf-8", "replace"), p.stderr.decode("utf-8", "replace")


def write_tree(d, files):
    for rel, text in files.items():
        p = os.path.join(d, rel)
        os.makedirs(os.path.dirname(p), exist_ok=True)
        with open(p, "w", newline="", encoding="utf-8") as f:
            f.write(text)
        os.utime(p, ns=(OLD_NS, OLD_NS))


def snap(d):
    out = {}
    for root, _, files in os.walk(d):
        for f in files:
            p = os.path.join(root, f)
            st = os.stat(p)
            out[os.path.relpath(p, d)] = (hashlib.sha256(open(p, "rb").read()).hexdigest(), st.st_mtime_ns)
    return out


def read(p):
    with open(p, newline="", encoding="utf-8") as f:
        return f.read()


def normalize(t):
    """rustc normalize_src: remove a leading BOM, CR LF -> LF"""
    if t.startswith("\ufeff"):
        t = t[1:]
    return t.replace("\r\n", "\n")


def lines_of(t):
    """str::lines plus the final-newline flag (what make_diff compares)"""
    ls = t.split("\n")
    end = t.endswith("\n")
    if end:
        ls = ls[:-1]
    return [l[:-1] if l.endswith("\r") else l for l in ls], end


def split_stdout(out, paths):
    """`--emit stdout` output -> {abs path: text} (sections start with `PATH:` LF LF)"""
    marks = []
    for p in paths:
        h = p + ":\n\n"
        i = out.find(h)
        if i >= 0:
            marks.append((i, p, len(h)))
    marks.sort()
    res = {}
    for k, (i, p, hl) in enumerate(marks):
        j = marks[k + 1][0] if k + 1 < len(marks) else len(out)
        res[p] = out[i + hl:j]
    return res


def cfg_args(sc):
    return ["--config", ",".join(sc["config"])] if sc["config"] else []


def apply_json(disk, blocks):
    """apply the json report's mismatch blocks to the original's lines"""
    ls, end = lines_of(disk)
    if end:
        ls = ls + [""]
    out = []
    pos = 1
    for b in blocks:
        ob, oe = b["original_begin_line"], b["original_end_line"]
        removed = len(b["original"].split("\n")) - 1
        added = b["expected"].split("\n")[:-1]
        out += ls[pos - 1:ob - 1]
        out += added
        pos = ob + removed
    out += ls[pos - 1:]
    return out


def run(tier, seed, replay):
    rep = common.Reporter(PROP, tier, seed, "proof")
    rep.assumptions = TRUSTED
    cr = common.coq_phase(["C12", "C20", "C06"], "C06/Props.v")
    common.coq_coverage(rep, cr, "cd coq && make C06/Props.vo && coqc -Q . V C06/Props.v (+ hygiene grep, Print Assumptions allow-list)", TRUSTED)
    if not cr.ok:
        log("C06 proof phase failed: %s %s %s\n%s" % (cr.hygiene, cr.bad_assumptions, cr.failed_files, cr.build_log[-1500:]))
    ok, blog, bt = common.build_bins()
    if not ok:
        raise RuntimeError("build of /repo binaries failed:\n" + blog)
    ok, hlog, ht = common.build_harness()
    if not ok:
        raise RuntimeError("harness build failed:\n" + hlog)
    base = os.path.join(common.CACHE, "c06")
    shutil.rmtree(base, ignore_errors=True)
    os.makedirs(base)
    home = os.path.join(base, "home")
    os.makedirs(os.path.join(home, ".config"))
    found = [0]
    disagreements = []
    nontrivial = set()

    def viol(key, obj, what):
        if rep.violation(key, obj, what):
            found[0] += 1

    # ---- reference: formatted text of every file of every scenario (`--emit stdout`, which must not write)
    for si, sc in enumerate(SCENARIOS):
        d = os.path.join(base, "ref%d" % si)
        write_tree(d, sc["files"])
        rc, o, e = rustfmt(["--emit", "stdout"] + cfg_args(sc) + sc["roots"], d, home)
        paths = {rel: os.path.realpath(os.path.join(d, rel)) for rel in sc["files"]}
        sec = split_stdout(o, list(paths.values()))
        sc["F"] = {rel: sec.get(p) for rel, p in paths.items()}
        sc["ref_rc"] = rc
        if rc != 0 or any(v is None for v in sc["F"].values()):
            raise RuntimeError("reference run failed for scenario %s: rc=%d %s" % (sc["name"], rc, e[-500:]))
        rc2, o2, _ = rustfmt(["--emit", "stdout", "-q"] + cfg_args(sc) + sc["roots"], d, home)
        sc["Fq"] = o2
        order = sorted(sec, key=lambda p: o.find(p + ":\n\n"))
        if o2 != "".join(sec[p] for p in order):
            viol("text_identity", {"scenario": sc["name"], "quiet": o2, "verbose": o}, "`--emit stdout -q` differs from the texts printed without -q")

    # ---- the matrix
    cases = []
    for si, sc in enumerate(SCENARIOS):
        for mode in MODES:
            for bits in BITS:
                if mode == "check_inline_files" and bits != "none":
                    continue
                cases.append({"scenario": si, "mode": mode, "bits": bits, "input": "path"})
                # make_backup must not turn a non-writing mode into a writing one
                if mode in ("stdout", "check", "json", "checkstyle") and bits == "none":
                    for bf in (["--backup"], ["--config", "make_backup=true"]):
                        cases.append({"scenario": si, "mode": mode, "bits": bits, "input": "path", "backup_flag": bf})
        if len(sc["files"]) == 1:
            for mode in ("default", "stdout", "check", "json", "checkstyle", "files"):
                for bits in BITS:
                    cases.append({"scenario": si, "mode": mode, "bits": bits, "input": "stdin"})
    if replay:
        try:
            rc_case = json.load(open(replay)).get("case")
            if rc_case in cases:
                cases = [rc_case]
        except Exception:
            pass

    def run_case(ci_c):
        ci, c = ci_c
        sc = SCENARIOS[c["scenario"]]
        d = os.path.join(base, "case%d" % ci)
        write_tree(d, sc["files"])
        before = snap(d)
        if c["input"] == "path":
            args = MODES[c["mode"]] + c.get("backup_flag", []) + BITS[c["bits"]] + cfg_args(sc) + sc["roots"]
            rc, o, e = rustfmt(args, d, home)
        else:
            margs = [] if c["mode"] == "default" else (["--check"] if c["mode"] == "check" else ["--emit", c["mode"]])
            args = margs + BITS[c["bits"]] + cfg_args(sc)
            rc, o, e = rustfmt(args, d, home, stdin=list(sc["files"].values())[0])
        after = snap(d)
        content = {rel: read(os.path.join(d, rel)) for rel in after}
        return {"rc": rc, "out": o, "err": e, "before": before, "after": after, "content": content, "dir": os.path.realpath(d), "args": args}

    with ThreadPoolExecutor(max_workers=common.NCPU) as ex:
        obs = list(ex.map(run_case, enumerate(cases)))

    def changed(o):
        return sorted(set(k for k in o["after"] if o["after"][k] != o["before"].get(k)) | set(k for k in o["before"] if k not in o["after"]))

    plain_rewrites = {}
    for c, o in zip(cases, obs):
        if c["input"] == "path" and c["mode"] == "files" and c["bits"] == "none":
            plain_rewrites[c["scenario"]] = changed(o)

    # ---- property oracle
    for c, o in zip(cases, obs):
        sc = SCENARIOS[c["scenario"]]
        ch = changed(o)
        rp = {"case": c, "scenario": sc["name"], "args": o["args"], "rc": o["rc"], "changed": ch, "stdout": o["out"][:600], "stderr": o["err"][:400]}
        disk = sc["files"]
        F = sc["F"]
        differs = sorted(rel for rel in disk if F[rel] != disk[rel])
        if differs:
            nontrivial.add(common.case_hash(c))
        if c["input"] == "stdin":
            if ch:
                viol("emitter_modified_file", rp, "formatting standard input changed files: %s" % ch)
            text = list(disk.values())[0]
            Ft = list(F.values())[0]
            if c["mode"] in ("default", "stdout"):
                if o["out"] != Ft:
                    viol("text_identity", rp, "text for the source on standard input differs from `--emit stdout` for the file")
                if o["rc"] != 0:
                    viol("exit_nonzero", rp, "stdin formatting exits %d without any error" % o["rc"])
            if c["mode"] == "check":
                want = 1 if Ft != normalize(text) else 0
                if o["rc"] != want:
                    viol("stdin_check_exit0" if (want == 1 and o["rc"] == 0) else "check_exit_mismatch", rp,
                         "`rustfmt --check` on standard input exits %d, expected %d (formatted text %s the input)" % (o["rc"], want, "differs from" if want else "equals"))
            continue
        writer = c["mode"] in ("files", "backup")
        # 1. nothing but Files / FilesWithBackup may write
        if not writer and ch:
            viol("check_config_emit_mode_files" if c["mode"] == "check_inline_files" else "emitter_modified_file", rp,
                 "`rustfmt %s` modified %s" % (" ".join(o["args"]), ch))
        # 2. files mode touches a file iff its formatted text differs from the bytes on disk
        if writer:
            for rel in disk:
                touched = rel in ch
                if touched and F[rel] == disk[rel]:
                    viol("files_touched_unchanged", dict(rp, file=rel), "%s was written although its formatted text equals the bytes on disk" % rel)
                if not touched and F[rel] != disk[rel]:
                    key = "auto_original_is_normalised" if (sc["auto"] and normalize(disk[rel]) == F[rel]) else "files_not_rewritten"
                    viol(key, dict(rp, file=rel), "%s is not rewritten although its formatted text differs from the bytes on disk" % rel)
                if touched and o["content"].get(rel) != F[rel]:
                    viol("text_identity", dict(rp, file=rel), "%s after `--emit files` is not the text `--emit stdout` printed" % rel)
            extra = [k for k in ch if k not in disk and not (c["mode"] == "backup" and re.sub(r"\.bk$", ".rs", k) in ch)]
            if extra:
                viol("unexpected_file", rp, "unexpected files appeared: %s" % extra)
            if c["mode"] == "backup":
                for rel in disk:
                    bk = re.sub(r"\.rs$", ".bk", rel)
                    if rel in ch and o["content"].get(bk) != disk[rel]:
                        viol("backup_missing", dict(rp, file=rel), "%s rewritten with --backup but %s does not hold the original" % (rel, bk))
            if c["mode"] == "files" and c["bits"] == "l":
                want = sorted(os.path.join(o["dir"], rel) for rel in ch)
                if sorted(o["out"].split("\n")[:-1]) != want:
                    viol("l_names_mismatch", rp, "-l printed %r, files rewritten %r" % (o["out"], want))
            if o["rc"] != 0:
                viol("exit_nonzero", rp, "exit status %d without any error" % o["rc"])
        # 3. --check exits 1 exactly when plain rustfmt would rewrite a file
        if c["mode"] == "check":
            want = 1 if plain_rewrites.get(c["scenario"]) else 0
            if o["rc"] != want:
                viol("check_exit_mismatch", rp, "--check exits %d but plain rustfmt rewrites %s" % (o["rc"], plain_rewrites.get(c["scenario"])))
            if c["bits"] == "l" and o["rc"] == 1:
                names = sorted(o["out"].split("\n")[:-1])
                want_names = sorted(os.path.join(o["dir"], rel) for rel in plain_rewrites.get(c["scenario"], []))
                if names != want_names and not any("Incorrect newline style" in n for n in names):
                    viol("l_names_mismatch", rp, "--check -l printed %r, plain rustfmt rewrites %r" % (names, want_names))
        # 4. text identity
        if c["mode"] == "stdout":
            if c["bits"] == "q" and o["out"] != sc["Fq"]:
                viol("text_identity", rp, "`--emit stdout -q` is not reproducible")
            if o["rc"] != 0:
                viol("exit_nonzero", rp, "exit status %d without any error" % o["rc"])
        # 5. text implied by the json / checkstyle reports
        if c["mode"] == "json" and c["bits"] == "none":
            try:
                doc = json.loads(o["out"])
            except ValueError:
                doc = None
                viol("json_malformed", rp, "--emit json output is not JSON")
            if doc is not None:
                byname = {os.path.relpath(x["name"], o["dir"]): x["mismatches"] for x in doc}
                for rel in disk:
                    got = apply_json(disk[rel], byname.get(rel, []))
                    wl, wend = lines_of(F[rel])
                    want = wl + ([""] if wend else [])
                    if F[rel] != disk[rel] and not byname.get(rel):
                        key = "auto_original_is_normalised" if (sc["auto"] and normalize(disk[rel]) == F[rel]) else \
                              "terminator_only_diff_invisible" if lines_of(disk[rel]) == lines_of(F[rel]) else "json_report_missing"
                        viol(key, dict(rp, file=rel), "formatted text of %s differs from the file but the json report is empty" % rel)
                    elif got != want:
                        viol("json_report_wrong", dict(rp, file=rel), "json report for %s applied to the original does not give the formatted lines" % rel)
            if o["rc"] != 0:
                viol("exit_nonzero", rp, "exit status %d without any error" % o["rc"])
        if c["mode"] == "checkstyle" and c["bits"] == "none":
            for rel in disk:
                m = re.search(r'<file name="%s">(.*?)</file>' % re.escape(os.path.join(o["dir"], rel)), o["out"], re.S)
                nerr = len(re.findall(r"<error ", m.group(1))) if m else 0
                dl, wl = lines_of(disk[rel]), lines_of(F[rel])
                if F[rel] != disk[rel] and nerr == 0:
                    key = "auto_original_is_normalised" if (sc["auto"] and normalize(disk[rel]) == F[rel]) else \
                          "terminator_only_diff_invisible" if dl == wl else "checkstyle_report_missing"
                    if key != "checkstyle_report_missing" or len(wl[0]) >= len(dl[0]):      # pure deletions have no Expected line
                        viol(key, dict(rp, file=rel), "formatted text of %s differs from the file but checkstyle reports nothing" % rel)

    # ---- histories: check -> format -> check, and format -> check
    hist = 0
    for si, sc in enumerate(SCENARIOS):
        for seq in (["check", "files", "check"], ["files", "check"], ["backup", "check"]):
            d = os.path.join(base, "hist%d_%s" % (si, "_".join(seq)))
            write_tree(d, sc["files"])
            rcs = []
            for m in seq:
                rc, o, e = rustfmt(MODES[m] + cfg_args(sc) + sc["roots"], d, home)
                rcs.append(rc)
            hist += 1
            first_check = 1 if plain_rewrites.get(si) else 0
            want = ([first_check] if seq[0] == "check" else []) + [0, 0]
            if rcs != want:
                viol("history_exit", {"scenario": sc["name"], "sequence": seq, "rcs": rcs, "want": want}, "history %s on %s gives exit statuses %s, expected %s" % (seq, sc["name"], rcs, want))

    # ---- correspondence with the model
    exprs = []
    expect = []       # (what, case, observed)

    def opt(x):
        return "None" if x is None else "(Some %d)" % x

    for c, o in zip(cases, obs):
        sc = SCENARIOS[c["scenario"]]
        l, q = c["bits"] == "l", c["bits"] == "q"
        if c["input"] == "path":
            check, emit, inline, backup = MODEL_ARGS[c["mode"]]
            backup = backup or bool(c.get("backup_flag"))
            mode_e = "(run_apply_to_mode 0 %s %s %s)" % (coqterm.render(check), opt(emit), opt(inline))
            emitter_e = "(run_create_emitter %s %s)" % (mode_e, coqterm.render(backup))
            # observed emitter kind (only when the run shows it)
            ch = changed(o)
            kind = None
            if any(k.endswith(".bk") for k in ch):
                kind = 1
            elif ch:
                kind = 0
            elif o["out"].startswith("<?xml"):
                kind = 5
            elif o["out"].lstrip().startswith("[") and c["mode"] not in ("stdout",):
                kind = 3
            elif "Diff in" in o["out"] or "Incorrect newline style" in o["out"]:
                kind = 6
            elif c["mode"] == "stdout":
                kind = 2
            if kind is not None:
                exprs.append(emitter_e)
                expect.append(("emitter", c, kind))
            # number of fs effects and has_diff, single-file scenarios
            if len(sc["files"]) == 1:
                rel = list(sc["files"])[0]
                orig_e = "(run_original_seen %s false %s)" % (coqterm.render(sc["auto"]), coqterm.text(sc["files"][rel]))
                exprs.append("(run_emit %s %s %s %s %s)" % (emitter_e, coqterm.render(l), coqterm.render(q), orig_e, coqterm.text(sc["F"][rel])))
                nops = 4 if any(k.endswith(".bk") for k in ch) else (1 if ch else 0)      # the backup protocol is four operations: remove tmp, write tmp, two renames
                hd = (o["rc"] == 1) if c["mode"] == "check" else None
                expect.append(("emit", c, (nops, hd)))
        else:
            check = c["mode"] == "check"
            emit = {"default": None, "check": None, "stdout": 1, "json": 4, "checkstyle": 3, "files": 0}[c["mode"]]
            exprs.append("(run_stdin_mode %s %s)" % (coqterm.render(check), opt(emit)))
            bad = "not supported with standard input" in o["err"] or (o["rc"] == 1 and o["out"] == "" and c["mode"] == "files")
            kind = {"json": 4, "checkstyle": 3, "default": 1, "stdout": 1, "check": 6, "files": None}[c["mode"]] if not bad else None
            expect.append(("stdin_mode", c, kind))
    # has_diff of json / modified-lines / checkstyle: in-process emitters on (original seen, formatted)
    pairs = []
    for sc in SCENARIOS:
        for rel, text in sc["files"].items():
            orig = normalize(text) if sc["auto"] else text
            pairs.append((orig, sc["F"][rel]))
    try:
        emitted = common.run_vh("c12", [{"a": a, "b": b, "ctx": 0, "emit": True} for a, b in pairs])
    except Exception as ex:
        emitted = None
        log("C06: vh c12 failed: %s" % str(ex)[-500:])
    if emitted is not None:
        for (a, b), r in zip(pairs, emitted):
            for en, key in ((3, "json"), (4, "modified_lines"), (5, "checkstyle")):
                exprs.append("(run_emit %d false false %s %s)" % (en, coqterm.text(a), coqterm.text(b)))
                expect.append(("emit_inproc", {"a": a, "b": b, "emitter": key}, (0, r["emit"][key]["has_diff"])))
    # exit codes: flags through the harness, exit status through the binary
    flag_cases = []
    try:
        fl = common.run_vh("fmt", [{"text": x["text"], "config": x["config"]} for x in FLAG_INPUTS])
    except Exception as ex:
        fl = None
        log("C06: vh fmt failed: %s" % str(ex)[-500:])
    if fl is not None:
        for x, r in zip(FLAG_INPUTS, fl):
            f = r["flags"]
            others = [f["operational"], f["parsing"], f["formatting"], f["check"], f["diff"], f["unformatted"]]
            macro = (not f["no_errors"]) and not any(others)
            d = os.path.join(base, "flag_" + x["name"])
            write_tree(d, {"a.rs": x["text"]})
            cfg = ["--config", ",".join("%s=%s" % (k, v) for k, v in x["config"])] if x["config"] else []
            ref = r["out"] if r["out"] is not None else None
            differs = ref is not None and ref != x["text"]
            for check in (False, True):
                rc_p, _, _ = rustfmt((["--check"] if check else ["--emit", "stdout"]) + cfg + ["a.rs"], d, home)
                rc_s, _, _ = rustfmt((["--check"] if check else []) + cfg, d, home, stdin=x["text"])
                diff = check and differs and not f["parsing"]
                bl = [f["operational"], f["parsing"], f["formatting"], macro, f["check"], diff, f["unformatted"]]
                exprs.append("(run_exit_file %s)" % " ".join(coqterm.render(b) for b in bl + [check]))
                expect.append(("exit_file", {"input": x["name"], "check": check, "flags": bl}, rc_p))
                exprs.append("(run_exit_stdin %s)" % " ".join(coqterm.render(b) for b in bl))
                expect.append(("exit_stdin", {"input": x["name"], "check": check, "flags": bl}, rc_s))
                flag_cases.append((x["name"], check, rc_p, rc_s))
                # property: exit status 1 when an error is reported, --check exits 1 on a difference
                want_p = 1 if (f["operational"] or f["parsing"] or (check and (differs or f["check"]))) else 0
                if rc_p != want_p:
                    viol("check_exit_mismatch" if check else "exit_status_wrong", {"input": x, "check": check, "rc": rc_p, "flags": f}, "file run of %s (check=%s) exits %d, expected %d" % (x["name"], check, rc_p, want_p))
                want_s = 1 if (f["operational"] or f["parsing"] or (check and differs)) else 0
                if rc_s != want_s:
                    key = "stdin_check_exit0" if (check and rc_s == 0) else "exit_status_wrong"
                    viol(key, {"input": x, "check": check, "rc": rc_s, "flags": f}, "stdin run of %s (check=%s) exits %d, expected %d" % (x["name"], check, rc_s, want_s))
    model = None
    try:
        model = common.run_coq_cases("From V Require Import Base.Text C12.Model C20.Model C06.Model C06.Run.\nOpen Scope N_scope.", "", exprs, "c06", per_file=60)
    except Exception as ex:
        log("C06: model evaluation failed: %s" % str(ex)[-1000:])
    validated = 0
    if model is not None:
        for (what, c, want), m in zip(expect, model):
            m = coqterm.plain(m)
            if what == "emitter":
                good = m == want
            elif what in ("emit", "emit_inproc"):
                nops, hd = want
                good = m[0] == nops and (hd is None or m[1] == hd)
            elif what == "stdin_mode":
                good = (m is None and want is None) or (m == ["Some", want])
            else:
                good = m == want
            validated += 1
            if not good:
                disagreements.append({"what": what, "case": c, "impl": want, "model": m})
    shutil.rmtree(base, ignore_errors=True)
    okt, whatt = common.tie_phase(rep, "C06")
    if not okt:
        disagreements.append({"what": "regenerated_tie", "detail": whatt})
    tie_broken = (not cr.ok) or model is None or disagreements
    if tie_broken and found[0] == 0:
        what = []
        if not cr.ok:
            what.append("theorems of coq/C06/Props.v no longer check (%s %s %s)" % (cr.failed_files, cr.hygiene, cr.bad_assumptions))
        if model is None:
            what.append("model could not be evaluated")
        if disagreements:
            what.append("correspondence broken on %d of %d comparisons, first: %r" % (len(disagreements), validated, disagreements[0]))
        rep.violation("tie", {"broken": what, "first_disagreements": disagreements[:3]}, "; ".join(what)[:2000], no_input=True)
    rep.coverage.update({
        "evaluations": len(cases) + hist + 4 * len(FLAG_INPUTS),
        "distinct_nontrivial": len(nontrivial),
        "exhaustive": True,
        "rule": "%d scenarios (formatted, unformatted, CR LF with explicit newline_style, newline style only in both directions, CR LF under Auto, BOM, module tree of 4 files, two roots) x {files, --backup, --emit stdout, --check, --emit json, --emit checkstyle, --check --config emit_mode=files} x {-l, -q, neither} as paths, the four non-writing modes also with --backup / --config make_backup=true, single-file scenarios also on standard input x 6 modes; 3 histories per scenario; %d flag-setting inputs x {path, stdin} x {plain, --check}; real rustfmt processes, sha256 + st_mtime_ns of every file before/after; non-trivial = some file's formatted text differs from its bytes" % (len(SCENARIOS), len(FLAG_INPUTS)),
        "samples": cases[:2] + cases[len(cases) // 2:len(cases) // 2 + 2] + cases[-1:],
        "correspondence_disagreements": len(disagreements),
        "traces_validated_against_impl": validated,
        "model_comparisons": {k: sum(1 for e in expect if e[0] == k) for k in ("emitter", "emit", "emit_inproc", "stdin_mode", "exit_file", "exit_stdin")},
        "histories": hist,
        "bins_build_s": round(bt, 1),
        "harness_build_s": round(ht, 1),
    })
    return rep.finish()
