"""C10 — import rewriting preserves what is imported."""
from . import common, coqterm

PROP = "C10"
TRUSTED = [
    "Coq 8.16.1 kernel (coqc); vm_compute evaluates the model in cases.v; no native_compute",
    "Print Assumptions of every theorem in coq/C10/Props.v: Closed under the global context (checked each run)",
    "hand-written rose-tree model coq/C10/Model.v of UseTree::{normalize, flatten, merge, merge_rest, nest_trailing_self, share_prefix}, merge_use_trees_inner, normalize_use_trees_with_granularity, flatten_use_trees, group_imports and Ord (style edition <= 2021, ASCII names); tied to the code by the correspondence run through hook verif_hooks::imports (the hook repeats the 15 lines of reorder.rs that build the trees and attach comments; grouping/sorting call the real functions)",
    "the denotation `leaves` (what a use tree imports) is the formal reading of 'the set of imported paths with their aliases, visibility and attributes'",
    "end to end: the emitted text is parsed again by rustfmt's own from_ast (hook) and its leaves compared with the input's by the model's `run_leaves`",
    "slice::sort on UseTree's Ord is modelled by a stable insertion sort (valid where Ord is a consistent order)",
]
NAMES = ["a", "b", "c", "std", "core", "foo", "Bar", "BAZ", "x1", "r#try", "d"]
# restricted visibilities include pairs where one path is a prefix of the other: they are different visibilities
VIS = ["", "pub", "pub(crate)", "pub(super)", "pub(in a)", "pub(in crate::a)", "pub(in super::super)", "pub(in a::b)"]
ATTRS = [None, "#[cfg(x)]", "#[allow(unused)]"]
GRAN = ["Preserve", "Item", "Module", "Crate", "One"]


def gen_tree(rnd, depth, in_list):
    """returns (model_txt, rust_txt)"""
    segs = []
    r = rnd.random()
    if not in_list and r < 0.12:
        segs.append(rnd.choice(["self", "super", "crate"]))
        if segs[0] == "super" and rnd.random() < 0.3:
            segs.append("super")
    n = rnd.choice([0, 1, 1, 1, 2, 2, 3]) if segs or in_list else rnd.choice([1, 1, 2, 2, 3])
    for _ in range(n):
        segs.append(rnd.choice(NAMES))
    t = rnd.random()
    if in_list and not segs and t < 0.5:
        seg = "self"
        if rnd.random() < 0.3:
            seg += " as " + rnd.choice(NAMES[:6] + ["_"])
        return seg, seg
    if t < 0.12:
        tail_m = tail_r = "*"
    elif t < 0.42 and depth < 3:
        k = rnd.choice([0, 1, 1, 2, 2, 3, 4])
        ms, rs = [], []
        for _ in range(k):
            m, r_ = gen_tree(rnd, depth + 1, True)
            if rnd.random() < 0.08:
                ms.append("!" + m)
                rs.append("/* c */ " + r_)
            else:
                ms.append(m)
                rs.append(r_)
        tail_m = "{" + ", ".join(ms) + "}"
        tail_r = "{" + ", ".join(rs) + "}"
    else:
        tail_m = tail_r = None
        if not segs:
            segs.append(rnd.choice(NAMES))
        if segs[-1] in ("super", "crate") and rnd.random() < 0.5:
            # `use crate as root;`, `use super::super as up;`: the alias of a path keyword is an import name like any other
            segs[-1] = segs[-1] + " as " + rnd.choice(NAMES[:7] + ["_"])
        elif rnd.random() < 0.25 and segs[-1] not in ("self", "super", "crate"):
            # `x as x` is dropped by from_ast (a redundant alias, not a rename): not generated
            al = rnd.choice([n for n in NAMES[:7] + ["_", "_"] if n != segs[-1]])
            segs[-1] = segs[-1] + " as " + al
    parts = segs + ([tail_m] if tail_m is not None else [])
    parts_r = segs + ([tail_r] if tail_r is not None else [])
    return "::".join(parts), "::".join(parts_r)


def gen_cases(tier, seed):
    rnd = common.rng(seed, PROP)
    n = 700 if tier == "quick" else 12000
    cases = []
    fixed = [
        (["pub use a;", "use a;"], "Item"), (["#[cfg(x)] use a;", "use a;"], "Item"), (["use a::{b::{}, c};"], "Module"),
        (["use a as _;", "use a;"], "Module"), (["use a::BAR;", "use a as q;"], "One"), (["use a::{c, x};", "use a::c as z;"], "One"),
        (["use a::{self, b};", "use a::b;"], "Crate"),
    ]
    for decls, g in fixed:
        items = []
        for dcl in decls:
            vis = "pub" if dcl.startswith("pub ") else ""
            attrs = "#[cfg(x)]" if dcl.startswith("#[cfg(x)]") else None
            body = dcl.split("use ", 1)[1].rstrip(";")
            items.append({"vis": vis, "attrs": attrs, "cmt": False, "m": body, "r": body})
        cases.append(mk_case(items, g, "Preserve", True, "2015"))
    for ci in range(n):
        k = rnd.choice([1, 2, 2, 3, 3, 4, 5, 6])
        items = []
        if ci % 3 == 0:
            # a family: declarations that extend one base path by 0..2 segments (the bare prefix included), in random
            # order, mostly with one visibility -- the shapes on which merge / merge_rest / share_prefix do real work
            base = [rnd.choice(NAMES[:8]) for _ in range(rnd.randint(1, 3))]
            v0 = rnd.choice(VIS[:2] * 2 + VIS)
            for _ in range(k):
                cut = rnd.randint(1, len(base))
                segs = base[:cut] + [rnd.choice(NAMES) for _ in range(rnd.choice([0, 0, 1, 1, 1, 2]))]
                t = rnd.random()
                if t < 0.1:
                    segs.append("*")
                elif t < 0.2:
                    segs.append("{self, %s}" % rnd.choice(NAMES))
                elif t < 0.3:
                    segs[-1] = segs[-1] + " as " + rnd.choice([x for x in NAMES[:7] + ["_"] if x != segs[-1]])
                m = "::".join(segs)
                items.append({"vis": v0 if rnd.random() < 0.85 else rnd.choice(VIS), "attrs": rnd.choice([None] * 9 + ATTRS), "cmt": False, "m": m, "r": m})
            cases.append(mk_case(items, rnd.choice(GRAN[1:]), rnd.choice(["Preserve", "StdExternalCrate", "One"]),
                                 rnd.random() < 0.8, rnd.choice(["2015", "2015", "2018"])))
            continue
        for _ in range(k):
            if items and rnd.random() < 0.12:
                items.append(dict(rnd.choice(items)))       # duplicate
                continue
            m, r = gen_tree(rnd, 0, False)
            items.append({"vis": rnd.choice(VIS[:2] * 3 + VIS), "attrs": rnd.choice([None] * 6 + ATTRS),
                          "cmt": rnd.random() < 0.06, "m": m, "r": r})
        items[-1]["cmt"] = False     # a comment after the last declaration is outside the run's span
        cases.append(mk_case(items, rnd.choice(GRAN), rnd.choice(["Preserve", "StdExternalCrate", "One"]),
                             rnd.random() < 0.8, rnd.choice(["2015", "2015", "2018"])))
    return cases


def mk_case(items, g, grp, reorder, edition):
    lines = []
    for it in items:
        s = ""
        if it["attrs"]:
            s += it["attrs"] + "\n"
        if it["vis"]:
            s += it["vis"] + " "
        s += "use " + it["r"] + ";"
        if it["cmt"]:
            s += " // c"
        lines.append(s)
    cfg = [["imports_granularity", g], ["group_imports", grp], ["reorder_imports", "true" if reorder else "false"], ["edition", edition]]
    # the written form must denote the same imports however the lists have to be broken
    w = [100, 100, 60, 40, 25, 20][sum(len(it["m"]) for it in items) % 6]
    if w != 100:
        cfg.append(["max_width", str(w)])
    return {"text": "\n".join(lines) + "\n", "config": cfg, "format": True, "items": items, "g": g, "grp": grp, "reorder": reorder, "edition": edition}


def vis_class(v):
    if v is None:
        return None
    return VIS.index(v) if v in VIS else 9


def attr_id(a):
    if a is None:
        return None
    return {"#[cfg(x)]": 1, "#[allow(unused)]": 2}.get("".join(a.split()), 9)       # at narrow widths the attribute itself is broken over lines


def render_item(vis, attrs, cmt, txt):
    R = coqterm.render
    v = "None" if vis is None else "Some %d" % vis
    a = "None" if attrs is None else "Some %d" % attrs
    return "(%s, %s, %s, %s)" % (v, a, "true" if cmt else "false", coqterm.text(txt))


def items_expr(c):
    # the model parses what is WRITTEN; with edition 2015 from_ast drops a leading `::` (not generated here)
    return "[" + "; ".join(render_item(vis_class(it["vis"]), attr_id(it["attrs"]), it["cmt"], it["m"]) for it in c["items"]) + "]"


def model_expr(c):
    g = GRAN.index(c["g"])
    grp = "true" if c["grp"] == "StdExternalCrate" else "false"
    ro = "true" if c["reorder"] else "false"
    it = items_expr(c)
    out_items = c.get("_out_items")
    leaves_out = "@None (list (N * option N * text))"
    if out_items is not None:
        leaves_out = "run_leaves [" + "; ".join(render_item(vis_class(v), attr_id(a), cm, t) for (v, a, cm, t) in out_items) + "]"
    return "(let its := %s in (run_granularity %d its, run_pipeline %d %s %s its, run_leaves its, %s, run_bad %d its, run_shape its, run_classes its))" % (
        it, g, g, grp, ro, leaves_out, g)


def opt(v):
    if isinstance(v, coqterm.Ctor) and v.name == "Some":
        return v.args[0]
    return None


def dec_items(v):
    out = []
    for (vis, attrs, cmt, txt) in v:
        out.append([opt(vis) if not isinstance(vis, int) else vis, opt(attrs) if not isinstance(attrs, int) else attrs, cmt, coqterm.untext(txt)])
    return out


def dec_item_list(v):
    v = opt(v)
    if v is None:
        return None
    return [[opt(vis), opt(attrs), cmt, coqterm.untext(txt)] for (vis, attrs, cmt, txt) in v]


def canon_model(c, v):
    gran, pipe, lin, lout, bad, shape, classes = v
    p = opt(pipe)
    return {"regrouped": dec_item_list(gran),
            "groups": None if p is None else [[[opt(vis), opt(attrs), cmt, coqterm.untext(txt)] for (vis, attrs, cmt, txt) in g] for g in p if g]}


def impl_items(v):
    if v is None:
        return None
    return [[vis_class(a), attr_id(b), cmt, txt] for (a, b, cmt, txt) in v]


def canon_impl(c, r):
    return {"regrouped": impl_items(r.get("regrouped")),
            "groups": None if r.get("groups") is None else [impl_items(g) for g in r["groups"]]}


# ---------------------------------------------------------------- leading `::` (outside the model's input language): a python flattener

def py_leaves(text):
    """the set of (visibility, path [as alias]) named by the `use` declarations of text; `a::{self}` = `a`; a leading `::` is part of the root"""
    import re
    out = set()

    def split_top(s):
        parts, d, cur = [], 0, ""
        for ch in s:
            if ch == "{":
                d += 1
            elif ch == "}":
                d -= 1
            if ch == "," and d == 0:
                parts.append(cur)
                cur = ""
            else:
                cur += ch
        if cur.strip():
            parts.append(cur)
        return [x.strip() for x in parts if x.strip()]

    def walk(prefix, t, vis):
        t = t.strip()
        m = re.match(r"^(.*?)(?:::)?\{(.*)\}$", t, re.S)
        if m and t.endswith("}") and "{" in t:
            i = t.index("{")
            head = t[:i].rstrip()
            head = head[:-2] if head.endswith("::") else head
            for sub in split_top(t[i + 1:-1]):
                walk(prefix + ([head] if head else []), sub, vis)
            return
        segs = prefix + [t]
        path = "::".join(x for x in segs if x != "").replace(":: ::", "::")
        path = re.sub(r"\s+", " ", path)
        mm = re.match(r"^(.*)::self( as \w+)?$", path)
        if mm:
            path = mm.group(1) + (mm.group(2) or "")
        out.add((vis, path))
    for m in re.finditer(r"(?m)^\s*(pub(?:\([^)]*\))?\s+)?use\s+([^;]*);", text):
        walk([], re.sub(r"\s+", " ", m.group(2).replace("\n", " ")).replace(" ::", "::").replace(":: ", "::"), (m.group(1) or "").strip())
    return out


def colon_cases(tier, seed):
    rnd = common.rng(seed + 77, PROP)
    cases = []
    n = 120 if tier == "quick" else 1500
    for ci in range(n):
        roots = rnd.sample(["serde", "a", "std", "core", "foo"], 2)
        k = rnd.choice([2, 3, 3, 4, 5])
        decls = []
        for j in range(k):
            root = rnd.choice(roots)
            colon = "::" if (j == 0 or rnd.random() < 0.5) else ""
            if j == 1:
                root, colon = decls_root, ""          # the same root once with and once without the leading `::`
            if j == 0:
                decls_root = root
            tail = rnd.choice(["X", "de::Visitor", "{A, B}", "m::{self, C}", "*", "Q as R", "m::n::Z"])
            # one visibility throughout: declarations that differ only in visibility belong to the recorded classes of the main stream
            decls.append("use " + colon + root + "::" + tail + ";")
        rnd.shuffle(decls)
        cfg = [["imports_granularity", rnd.choice(GRAN)], ["group_imports", rnd.choice(["Preserve", "StdExternalCrate", "One"])],
               ["edition", rnd.choice(["2018", "2021", "2024"])], ["max_width", rnd.choice(["100", "40"])]]
        cases.append({"text": "\n".join(decls) + "\n", "config": cfg, "again": False, "lex": False})
    return cases


def run(tier, seed, replay):
    import json
    rep = common.Reporter(PROP, tier, seed, "proof")
    rep.assumptions = TRUSTED
    cr = common.coq_phase(["C10"], "C10/Props.v")
    common.coq_coverage(rep, cr, "cd coq && make C10/Props.vo && coqc -Q . V C10/Props.v (+ hygiene grep, Print Assumptions allow-list)", TRUSTED)
    if not cr.ok:
        common.log("C10 proof phase failed: %s %s %s\n%s" % (cr.hygiene, cr.bad_assumptions, cr.failed_files, cr.build_log[-1500:]))
    ok, blog, bt = common.build_harness()
    if not ok:
        raise RuntimeError("harness build failed:\n" + blog)
    cases = [json.load(open(replay))["case"]] if replay else gen_cases(tier, seed)
    impl = common.run_vh_pool("c10", cases, per_case_timeout=20)
    for c, r in zip(cases, impl):
        c["_out_items"] = r.get("out_items") if isinstance(r, dict) else None
    model = None
    try:
        model = common.run_coq_cases("From V Require Import Base.Text C10.Model C10.Run.\nOpen Scope N_scope.", "",
                                     [model_expr(c) for c in cases], "c10", per_file=60)
    except Exception as e:
        common.log("C10: model evaluation failed: %s" % str(e)[-1500:])
    disagreements, found = [], 0
    nontrivial = set()
    bad_hits = 0
    for i, (c, r) in enumerate(zip(cases, impl)):
        show = {k: v for k, v in c.items() if not k.startswith("_")}
        if not isinstance(r, dict) or r.get("input") is None:
            continue            # not parsable as written (generator produced something rustc rejects)
        if len(c["items"]) >= 2 and c["g"] != "Preserve":
            nontrivial.add(common.case_hash(show))
        if model is None:
            continue
        gran, pipe, lin, lout, bad, shape, classes = model[i]
        if opt(shape) is not True:
            continue            # outside the model's input language
        style_le_2021 = True
        cm, ci = canon_model(c, model[i]), canon_impl(c, r)
        if cm != ci:
            disagreements.append((show, {"impl": ci, "model": cm}))
        # ---- the property, end to end: leaves of the emitted text = leaves of the input
        li, lo = opt(lin), opt(lout)
        if r.get("out") is None or not r.get("flags", {}).get("no_errors"):
            continue
        if li is None or lo is None:
            if lo is None and r.get("out_items") is None:
                key = "output_unparsable"
                import re as _re
                if any(commented_empty(it["m"]) for it in c["items"]):
                    key = "unparsable:CommentedEmptyNestedList"
                elif opt(bad) is True:
                    key = "badclass_unparsable:" + class_name(classes, c["g"])
                if rep.violation(key, {"case": show, "out": r["out"]}, "emitted imports do not parse: %r" % r["out"]):
                    found += 1
            continue
        si = set((a, str(b), unalias(coqterm.untext(t))) for (a, b, t) in li)
        so = set((a, str(b), unalias(coqterm.untext(t))) for (a, b, t) in lo)
        if si != so:
            if opt(bad) is True:
                key = "badclass:" + class_name(classes, c["g"])
                bad_hits += 1
            else:
                key = "leaves_changed"
            if rep.violation(key, {"case": show, "out": r["out"], "lost": sorted(si - so), "gained": sorted(so - si)},
                             "imports changed under %s: lost %r gained %r; input %r output %r" % (c["g"], sorted(si - so), sorted(so - si), c["text"], r["out"])):
                found += 1
    # imports rooted at `::name` next to imports rooted at `name` (edition >= 2018: two different roots); leaves by the python flattener
    n_colon = 0
    if not replay:
        from . import pool
        cc = colon_cases(tier, seed)
        for c, r in zip(cc, common.run_vh_pool("pool", cc, per_case_timeout=15)):
            if not pool.accepted(r) or not r.get("out"):
                continue
            n_colon += 1
            li, lo = py_leaves(c["text"]), py_leaves(r["out"])
            if li != lo:
                if rep.violation("leaves_changed:leading_colon", {"input": c["text"], "config": c["config"], "out": r["out"], "lost": sorted(li - lo), "gained": sorted(lo - li)},
                                 "imports changed (roots with and without a leading `::`) under %s: lost %r gained %r; input %r output %r" % (c["config"][0][1], sorted(li - lo), sorted(lo - li), c["text"], r["out"])):
                    found += 1
    rep.coverage["leading_colon_cases"] = n_colon
    tie_broken = (not cr.ok) or model is None or disagreements
    if tie_broken and found == 0:
        what = []
        if not cr.ok:
            what.append("theorems of coq/C10/Props.v no longer check (%s %s %s)" % (cr.failed_files, cr.hygiene, cr.bad_assumptions))
        if model is None:
            what.append("model could not be evaluated")
        if disagreements:
            what.append("correspondence broken on %d of %d cases, first: %r" % (len(disagreements), len(cases), disagreements[0]))
        rep.violation("tie", {"broken": what, "first_disagreements": disagreements[:3]}, "; ".join(what)[:3000], no_input=True)
    step = max(1, len(cases) // 4)
    rep.coverage.update({
        "evaluations": len(cases), "distinct_nontrivial": len(nontrivial),
        "rule": "seeded random runs of 1..6 use declarations (one third of them families extending a common base path, the bare prefix included; nested lists to depth 3 below the top, globs, self/super/crate, aliases incl. _, raw identifiers, 8 visibilities (restricted paths that are prefixes of one another included), 3 attribute sets, comments on nested and top-level trees, duplicates) x imports_granularity x group_imports x reorder_imports x edition x max_width {100, 60, 40, 25, 20}; (a) regrouped trees and written groups compared with the model, (b) leaves of the re-parsed output compared with the leaves of the input. non-trivial = >= 2 declarations and granularity != Preserve; distinct by hash",
        "samples": [{k: v for k, v in cases[i].items() if k in ("text", "config")} for i in range(0, len(cases), step)][:4],
        "correspondence_disagreements": len(disagreements),
        "traces_validated_against_impl": len(cases) if model is not None else 0,
        "badclass_hits": bad_hits,
        "harness_build_s": round(bt, 1),
    })
    return rep.finish()


def split_top(t):
    """split a list body at top-level commas"""
    out, depth, cur = [], 0, ""
    for ch in t:
        if ch == "{":
            depth += 1
        elif ch == "}":
            depth -= 1
        if ch == "," and depth == 0:
            out.append(cur.strip())
            cur = ""
        else:
            cur += ch
    if cur.strip():
        out.append(cur.strip())
    return out


def denotes_nothing(tree):
    """every path of the tree ends in an empty list"""
    tree = tree.lstrip("!")
    k = tree.find("{")
    if k < 0:
        return False
    body = tree[k + 1:tree.rindex("}")]
    subs = split_top(body)
    return all(denotes_nothing(x) for x in subs)


def commented_empty(m):
    """some nested tree carrying a comment (marked `!`) denotes nothing (its paths all end in `{}`)"""
    k = m.find("{")
    if k < 0:
        return False
    for sub in split_top(m[k + 1:m.rindex("}")]):
        if sub.startswith("!") and denotes_nothing(sub):
            return True
        if commented_empty(sub.lstrip("!")):
            return True
    return False


def unalias(path):
    """`a::b as b` denotes the same import as `a::b`"""
    if " as " in path:
        p, al = path.rsplit(" as ", 1)
        if p.split("::")[-1] == al:
            return p
    return path


def class_name(classes, g):
    v = opt(classes)
    if v is None:
        return "unknown"
    nel, dav, daa, dmra, apo, dman, acm, acc, aco = v
    names = []
    if nel:
        names.append("NestedEmptyList")
    if g == "Item":
        if dav:
            names.append("DupAcrossVisibility")
        if daa:
            names.append("DupAcrossAttrs")
    else:
        if {"Module": acm, "Crate": acc, "One": aco}.get(g):
            names.append("AliasClash")
    return names[0] if names else "none"
