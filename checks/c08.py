"""C08 — emitted text obeys the whitespace and newline discipline."""
import json
import random

from . import common, coqterm, pool

PROP = "C08"
TRUSTED = [
    "Coq 8.16.1 kernel (coqc); vm_compute evaluates the model in cases.v; no native_compute",
    "Print Assumptions of every theorem in coq/C08/Props.v: Closed under the global context (checked each run)",
    "hand-written model coq/C08/Model.v of newline_style.rs, rustc's normalize_newlines, append_newline + format_lines' truncation, push_vertical_spaces, Indent::{to_string, from_width, block_unindent}, remove_trailing_white_spaces, skip_empty_lines; tied to the code by the correspondence run through hooks verif_hooks::whitespace / format_lines / char_classes",
    "the routing of every blank-line run and every indent through these functions inside the 25k-line pretty-printer is NOT a theorem: the discipline is additionally checked on the emitted text of pool programs (byte scan with the clauses of the property)",
    "rustc normalises CRLF before rustfmt sees the source (model: rustc_normalize); cfg!(windows) = false",
]
STYLES = ["Auto", "Windows", "Unix", "Native"]
ALPHA = ["a", " ", "\r", "\n", "\t", "\r\n", "\n\n", "b"]


def rtext(rnd, n=10):
    return "".join(rnd.choice(ALPHA) for _ in range(rnd.randint(0, n)))


def gen_cases(tier, seed):
    rnd = common.rng(seed, PROP)
    k = 1 if tier == "quick" else 15
    cases = [{"kind": "nl", "style": "Unix", "formatted": "a\r\r\nb", "raw": "x\n"},
             {"kind": "nl", "style": "Auto", "formatted": "a\nb\n", "raw": "a\nb\n"},
             {"kind": "rtw", "text": "a\n\r"}, {"kind": "rtw", "text": "\n\n\r\r"}]
    for _ in range(300 * k):
        cases.append({"kind": "nl", "style": rnd.choice(STYLES), "formatted": rtext(rnd), "raw": rtext(rnd)})
    for lo in range(0, 4):
        for hi in range(0, 4):
            for off in range(0, 5):
                for n in range(0, 6):
                    if tier == "thorough" or rnd.random() < 0.35:
                        cases.append({"kind": "vs", "lo": lo, "hi": hi, "buffer": "x" + "\n" * off, "n": n})
    for _ in range(150 * k):
        ht = rnd.random() < 0.5
        ts = rnd.randint(1, 8)
        block = rnd.choice([0, ts, 2 * ts, 3 * ts, 10 * ts, 25 * ts]) if ht else rnd.randint(0, 120)
        cases.append({"kind": "indent", "hard_tabs": ht, "tab_spaces": ts, "block": block, "alignment": rnd.choice([0, 0, 1, 3, 7, 30]), "newline": rnd.random() < 0.5})
    pieces = ["a", " ", "  ", "\t", "\n", "\n\n", "\"", "// c", "/* b", "*/", "x  ", "　", "\r\n", "'", "\\"]
    for _ in range(250 * k):
        cases.append({"kind": "rtw", "text": "".join(rnd.choice(pieces) for _ in range(rnd.randint(0, 12)))})
    return cases


def model_expr(c):
    T = coqterm.text
    if c["kind"] == "nl":
        return "run_apply_newline %d %s %s" % (STYLES.index(c["style"]), T(c["formatted"]), T(c["raw"]))
    if c["kind"] == "vs":
        return "run_push_vspace %d %d %s %d" % (c["lo"], c["hi"], T(c["buffer"]), c["n"])
    if c["kind"] == "indent":
        return "(run_indent %s %d %d %d %d, run_from_width %s %d %d)" % (
            "true" if c["hard_tabs"] else "false", c["tab_spaces"], c["block"], c["alignment"], 0 if c["newline"] else 1,
            "true" if c["hard_tabs"] else "false", c["tab_spaces"], c["block"] + c["alignment"])
    return "(run_remove_trailing_ws %s, run_truncate %s)" % (coqterm.render([(k, ch) for k, ch in c["_classes"]]), T(c["text"]))


def canon_model(c, v):
    U = coqterm.untext
    if c["kind"] in ("nl", "vs"):
        return {"out": U(v)}
    if c["kind"] == "indent":
        s, fw = v
        fwv = list(fw.args[0]) if isinstance(fw, coqterm.Ctor) and fw.name == "Some" else None
        return {"out": U(s), "from_width": fwv}
    out, kept = v
    return {"out": U(out), "kept": kept}


def canon_impl(c, r):
    if c["kind"] in ("nl", "vs"):
        return {"out": r["out"]}
    if c["kind"] == "indent":
        return {"out": r["out"], "from_width": r["from_width"]}
    return {"out": r["out"], "kept": r["kept"]}


def oracle(c, r):
    bad = []
    if c["kind"] == "nl":
        out = r["out"]
        eff = c["style"]
        if eff == "Native":
            eff = "Unix"
        if eff == "Auto":
            i = c["raw"].find("\n")
            eff = "Windows" if (i > 0 and c["raw"][i - 1] == "\r") else "Unix"
        if eff == "Windows" and any(out[i] == "\n" and (i == 0 or out[i - 1] != "\r") for i in range(len(out))):
            bad.append(("windows_lf", "Windows style: an LF is not preceded by CR in %r" % out))
        if eff == "Unix" and "\r\n" in out:
            key = "unix_crlf_from_crcrlf" if "\r\r\n" in c["formatted"] else "unix_crlf"
            bad.append((key, "Unix style: output %r still contains CRLF (formatted text %r)" % (out, c["formatted"])))
        strip = lambda t: t.replace("\r\n", "\n")
        if strip(out) != strip(c["formatted"]):
            key = "only_terminators_crcrlf" if "\r\r\n" in c["formatted"] else "only_terminators"
            bad.append((key, "conversion changed more than the terminators: %r -> %r" % (c["formatted"], out)))
    elif c["kind"] == "vs":
        out = r["out"]
        if out is None:
            return [("vs_failed", "push_vertical_spaces hook failed")]
        trailing = len(out) - len(out.rstrip("\n"))
        off = len(c["buffer"]) - len(c["buffer"].rstrip("\n"))
        if c["lo"] <= c["hi"]:
            if trailing > max(c["hi"] + 1, off):
                bad.append(("blank_upper", "more than blank_lines_upper_bound blank lines: %r" % c))
            if trailing < c["lo"] + 1:
                bad.append(("blank_lower", "fewer than blank_lines_lower_bound blank lines: %r" % c))
        else:
            if trailing > max(c["hi"] + 1, off):
                bad.append(("blank_upper_lo_gt_hi", "lower bound %d > upper bound %d: %d newlines emitted" % (c["lo"], c["hi"], trailing)))
    elif c["kind"] == "indent":
        s = r["out"]
        body = s[1:] if c["newline"] else s
        if c["newline"] and not s.startswith("\n"):
            bad.append(("indent_newline", "to_string_with_newline does not start with LF"))
        if c["hard_tabs"]:
            import re
            if not re.match(r"^\t* *$", body):
                bad.append(("indent_tabs", "hard_tabs indentation %r is not tabs followed by spaces" % body))
        elif body != " " * (c["block"] + c["alignment"]):
            bad.append(("indent_spaces", "indentation %r is not %d spaces" % (body, c["block"] + c["alignment"])))
    return bad


def nontrivial(c, r):
    if c["kind"] == "nl":
        return r.get("out") != c["formatted"]
    if c["kind"] == "vs":
        return True
    if c["kind"] == "indent":
        return len(r.get("out", "")) > 1
    return r.get("out") != c["text"]


# ---------------------------------------------------------------- the discipline on emitted text of pool programs

def discipline(text_in, out, over, toks_out, nodes_out):
    d = dict(over)
    bad = []
    style = d.get("newline_style", "Auto")
    if any(k not in ("ws",) for k, _ in toks_out):
        body = out.replace("\r\n", "\n")
        if not body.endswith("\n") or body.endswith("\n\n"):
            bad.append(("final_newline", "emitted text does not end with exactly one line terminator: %r" % out[-20:]))
        if body.startswith("\n"):
            bad.append(("leading_blank", "emitted text starts with a blank line"))
    if style == "Unix" and "\r\n" in out:
        bad.append(("e2e_unix_crlf", "newline_style=Unix but the emitted text contains CRLF"))
    if style == "Windows" and any(out[i] == "\n" and (i == 0 or out[i - 1] != "\r") for i in range(len(out))):
        bad.append(("e2e_windows_lf", "newline_style=Windows but an LF is not preceded by CR"))
    if style == "Auto":
        i = text_in.find("\n")
        first_crlf = i > 0 and text_in[i - 1] == "\r"
        has_crlf = "\r\n" in out
        has_bare = any(out[j] == "\n" and (j == 0 or out[j - 1] != "\r") for j in range(len(out)))
        if first_crlf and has_bare:
            bad.append(("auto_on_crlf", "newline_style=Auto: input's first terminator is CRLF but the emitted text uses LF"))
        if not first_crlf and i >= 0 and has_crlf:
            bad.append(("auto_on_lf", "newline_style=Auto: input's first terminator is LF but the emitted text contains CRLF"))
    # indentation: outside literals, comments, skipped code and macro calls (bodies may be copied verbatim) the leading
    # white space of a line is spaces only (hard_tabs off) or tabs followed by spaces only (hard_tabs on)
    if "rustfmt::skip" not in out and "rustfmt_skip" not in out:
        ht = d.get("hard_tabs", "false") == "true"
        pos = 0
        depth_macro = []          # stack of closing delimiters of macro-call token trees we are inside
        pending_bang = 0          # > 0: a `!` was just seen (optionally followed by an identifier): next delimiter opens a macro
        closer = {"(": ")", "[": "]", "{": "}"}
        nest = []
        for k, t in toks_out:
            if k == "ws":
                if "\n" in t and not depth_macro:
                    lead = t.rsplit("\n", 1)[1]
                    okay = (lead.lstrip("\t").strip(" ") == "") if ht else ("\t" not in lead)
                    if not okay and pos + len(t) < len(out):
                        ln = out.count("\n", 0, pos + len(t)) + 1
                        bad.append(("indent_chars", "line %d is indented with %r under hard_tabs=%s" % (ln, lead, d.get("hard_tabs", "false"))))
                        break
            elif k in ("lc", "bc", "dlo", "dli", "dbo", "dbi"):
                pass
            elif k == "p" and t == "!":
                pending_bang = 2
                pos += len(t)
                continue
            elif k == "p" and t in closer:
                if pending_bang or depth_macro:
                    depth_macro.append(closer[t])
            elif k == "p" and depth_macro and t == depth_macro[-1]:
                depth_macro.pop()
            if k not in ("ws", "lc", "bc"):
                pending_bang = pending_bang - 1 if (pending_bang and k in ("id", "rid")) else 0
            pos += len(t)
    upper = int(d.get("blank_lines_upper_bound", "1"))
    # blank-line runs: between two consecutive items / statements at most `upper`, anywhere else at most
    # max(upper, 1) ("never more than one inside a field, variant, arm or argument list")
    # (verbatim copies of skipped code keep their blank lines: C04; not judged here)
    if nodes_out is not None and "rustfmt::skip" not in out and "rustfmt_skip" not in out:
        # rustc normalises CRLF to LF before parsing: node offsets refer to the normalised text
        b = out.replace("\r\n", "\n").encode("utf-8")
        groups = {}
        for kind, lo, hi, _parent in nodes_out:
            g = "items" if kind in ("item", "assoc_item", "foreign_item", "stmt") else ("list:" + kind if kind in ("field", "variant", "arm", "param", "arg", "expr_field") else None)
            if g:
                groups.setdefault(g, []).append((lo, hi))
        for g, spans in groups.items():
            spans.sort()
            for (lo1, hi1), (lo2, hi2) in zip(spans, spans[1:]):
                if hi1 > lo2:
                    continue                      # nested, not siblings
                gap = b[hi1:lo2].decode("utf-8", "replace").replace("\r\n", "\n")
                core = gap.strip()
                if g == "items" and core != "" and all(l.strip() == "" or l.strip().startswith("//") for l in gap.split("\n")[1:-1]) and gap.split("\n")[0].strip() == "":
                    # line comments between the two nodes: the runs of blank lines around them are bounded all the same
                    run = best = 0
                    for l in gap.split("\n")[1:-1]:
                        run = run + 1 if l.strip() == "" else 0
                        best = max(best, run)
                    if best > upper:
                        bad.append(("blank_run_items", "%d blank lines next to a comment between two consecutive items/statements (blank_lines_upper_bound %d) at byte %d" % (best, upper, hi1)))
                        break
                if g == "items" and core == "":
                    if gap.count("\n") - 1 > upper:
                        bad.append(("blank_run_items", "%d blank lines between two consecutive items/statements (blank_lines_upper_bound %d) at byte %d" % (gap.count("\n") - 1, upper, hi1)))
                        break
                elif g != "items" and core in ("", ","):
                    if gap.count("\n") - 1 > 1:
                        bad.append(("blank_run_list", "%d blank lines between two consecutive elements of a %s list at byte %d" % (gap.count("\n") - 1, g[5:], hi1)))
                        break
    return bad


GRID = []
for ns in ["Auto", "Unix", "Windows"]:
    for (lo, hi) in [(0, 1), (0, 0), (1, 2), (0, 3)]:
        for ht, ts in [("false", 4), ("true", 4), ("false", 2)]:
            GRID.append([["newline_style", ns], ["blank_lines_lower_bound", str(lo)], ["blank_lines_upper_bound", str(hi)], ["hard_tabs", ht], ["tab_spaces", str(ts)]])
E2E_LAYOUTS = ["orig", "crlf", "blank", "lead", "ffblank"]
# "any amount of leading blank lines, tabs or spaces": prefixes put before the program by layout `lead`
LEADS = ["\n  \n", "  \n", "\t\n\n", "\n\n  \n", " \n// c\n", "\n \t \n\n", "  \n  \n", "\n\n\n"]


def e2e(rep, tier, seed):
    P = pool.load()
    MOD = 8
    NB = len(GRID) // 3            # GRID = 3 newline styles x NB other settings; a selected (program, layout, setting) runs under all three styles
    sel = []
    for p in P:
        for lay in E2E_LAYOUTS:
            for gi, g in enumerate(GRID):
                if tier == "thorough" or common_hash("%s|%s|%d" % (p["id"], lay, gi % NB)) % MOD == seed % MOD:
                    sel.append((p, lay, gi))
    need = {p["id"] for p, lay, _ in sel if lay not in ("orig", "lead")}
    lex_in = [p for p in P if p["id"] in need]
    lexed = dict(zip([p["id"] for p in lex_in], common.run_vh_pool("lex", [{"text": p["text"]} for p in lex_in])))
    cases, meta, texts = [], [], {}
    for p, lay, gi in sel:
        tk = (p["id"], lay)
        if tk not in texts:
            toks = lexed.get(p["id"])
            if lay == "lead":
                shebang = p["text"].startswith("#!") and not p["text"].startswith("#![")
                texts[tk] = None if shebang else LEADS[common_hash(p["id"]) % len(LEADS)] + p["text"]
            else:
                texts[tk] = p["text"] if lay == "orig" else (pool.relayout(toks, lay, random.Random(p["id"])) if isinstance(toks, list) else None)
        if texts[tk] is None:
            continue
        cases.append({"text": texts[tk], "config": pool.merged(p["header"], GRID[gi]), "again": False, "lex": True, "nodes_out": True})
        meta.append((p["id"], lay, gi))
    res = common.run_vh_pool("pool", cases, per_case_timeout=15)
    found = n = 0
    # converting the newline style changes nothing but the terminators: the three runs of one (program, layout, setting)
    by_base = {}
    for (pid, lay, gi), c, r in zip(meta, cases, res):
        if pool.accepted(r) and r["out"] != "":
            by_base.setdefault((pid, lay, gi % NB), {})[GRID[gi][0][1]] = (c, r)
    for (pid, lay, b), d in by_base.items():
        if "Unix" in d and "Windows" in d:
            u, w = d["Unix"][1]["out"], d["Windows"][1]["out"]
            if "\r" in u:
                continue          # stray CRs in the text itself (recorded class HasCRCRLF)
            if w.replace("\r\n", "\n") != u:
                ul, wl = u.split("\n"), w.replace("\r\n", "\n").split("\n")
                k = next((i for i, (x, y) in enumerate(zip(ul, wl)) if x != y), min(len(ul), len(wl)))
                if rep.violation("e2e_style_changes_text:%s" % pid, {"pool_id": pid, "layout": lay, "config_unix": d["Unix"][0]["config"], "input": d["Unix"][0]["text"], "out_unix": u, "out_windows": w},
                                 "newline_style=Windows and =Unix give texts that differ in more than their terminators for %s (layout %s): line %d %r vs %r" % (pid, lay, k + 1, ul[k] if k < len(ul) else None, wl[k] if k < len(wl) else None)):
                    found += 1
    for (pid, lay, gi), c, r in zip(meta, cases, res):
        if not pool.accepted(r) or r["out"] == "":
            continue
        n += 1
        for key, what in discipline(c["text"], r["out"], c["config"], r["out_tokens"], r.get("out_nodes")):
            k = "%s:%s" % (key, pid) if key in ("blank_run_items", "blank_run_list", "final_newline", "leading_blank", "indent_chars") else key
            if rep.violation(k, {"pool_id": pid, "layout": lay, "config": c["config"], "input": c["text"], "out": r["out"]},
                             "%s (%s, layout %s, %s)" % (what, pid, lay, GRID[gi])):
                found += 1
    rep.coverage["e2e_programs_judged"] = n
    found += file_matrix(rep, tier, seed)
    rep.coverage["e2e_rule"] = "pool x layouts %s x %d configurations (newline_style x blank-line bounds x hard_tabs/tab_spaces); thorough = all, quick = the 1/%d slice selected by the seed; clauses: the Windows and Unix outputs of one (program, layout, setting) differ in their terminators only, one final terminator, no leading blank line, terminators follow newline_style, blank-line runs <= upper bound, indentation characters follow hard_tabs outside literals / comments / macro calls / skipped code" % (E2E_LAYOUTS, len(GRID), MOD)
    return found


FM_BODIES = [("fn main() {\n    let x = 1;\n}\n", True), ("fn  main( ){\nlet x=1;\n}\n", False),
             ("// c\nstruct A {\n    a: u8,\n}\n\nfn f() {}\n", True), ("/* a\n   b */\nfn g() {\n    let s = 1;\n}\n", True)]


def file_matrix(rep, tier, seed):
    """files on disk, rewritten in place by the real binary: the FILE must obey newline_style afterwards, whatever
    terminators it had and whether or not anything else needed formatting"""
    import os
    import shutil
    ok, blog, _ = common.build_bins()
    if not ok:
        raise RuntimeError("build of /repo binaries failed:\n" + blog)
    d = os.path.join(common.CACHE, "c08fm")
    shutil.rmtree(d, ignore_errors=True)
    os.makedirs(d)
    env = common.rust_env()
    env.pop("CARGO_TARGET_DIR", None)
    found = n = 0
    for bi, (body, _f) in enumerate(FM_BODIES):
        probe = os.path.join(d, "probe.rs")
        open(probe, "w", newline="").write(body)
        rc0, o0, e0 = common.sh([common.bin_path("rustfmt"), "--check", "--config", "newline_style=Unix", probe], cwd=d, env=env, timeout=60)
        formatted = rc0 == 0          # whether the LF rendering is already formatted (decided by the binary itself)
        os.remove(probe)
        for eol in ("lf", "crlf", "mixed"):
            if eol == "lf":
                text = body
            elif eol == "crlf":
                text = body.replace("\n", "\r\n")
            else:
                ls = body.split("\n")
                text = "".join(l + ("\r\n" if i % 2 else "\n") for i, l in enumerate(ls[:-1]))
            for style in ("Unix", "Windows", "Native"):
                for mode in ("files", "check"):
                    f = os.path.join(d, "m%d.rs" % n)
                    n += 1
                    open(f, "w", newline="", encoding="utf-8").write(text)
                    args = [common.bin_path("rustfmt"), "--config", "newline_style=" + style] + (["--check"] if mode == "check" else []) + [f]
                    rc, o, e = common.sh(args, cwd=d, env=env, timeout=60)
                    after = open(f, newline="", encoding="utf-8").read()
                    want_crlf = style == "Windows"
                    obeys = (lambda t: all(t[i] != "\n" or (i > 0 and t[i - 1] == "\r") for i in range(len(t)))) if want_crlf else (lambda t: "\r\n" not in t)
                    case = {"body": body, "eol": eol, "newline_style": style, "mode": mode, "before": text, "after": after, "rc": rc, "stderr": e[-300:]}
                    if mode == "files":
                        if rc == 0 and not obeys(after):
                            if rep.violation("file_terminators", case, "after `rustfmt --config newline_style=%s FILE` (exit 0) the file (%s terminators before, body %d) does not follow the style" % (style, eol, bi)):
                                found += 1
                    else:
                        clean = formatted and obeys(text)
                        if after != text:
                            if rep.violation("check_wrote", case, "--check modified the file"):
                                found += 1
                        elif (rc == 0) != clean:
                            if rep.violation("check_terminators", case, "`rustfmt --check --config newline_style=%s` exits %d on a file with %s terminators (body %d, %s)" % (style, rc, eol, bi, "formatted" if formatted else "unformatted")):
                                found += 1
    shutil.rmtree(d, ignore_errors=True)
    rep.coverage["file_matrix_runs"] = n
    rep.coverage["file_matrix_rule"] = "4 bodies x {LF, CRLF, mixed} terminators x newline_style {Unix, Windows, Native} x {in-place run, --check} through the real binary on real files: the rewritten file obeys the style; --check exits 0 iff the file is formatted and obeys it"
    return found


def common_hash(s):
    import hashlib
    return int(hashlib.sha1(s.encode()).hexdigest()[:8], 16)


def run(tier, seed, replay):
    def gen(tier_, seed_):
        cases = gen_cases(tier_, seed_)
        ok, blog, _ = common.build_harness()
        if not ok:
            raise RuntimeError("harness build failed:\n" + blog)
        rtw = [c for c in cases if c["kind"] == "rtw"]
        res = common.run_vh("c08", rtw)
        for c, r in zip(rtw, res):
            c["_classes"] = r["classes"]
        return cases

    return common.standard_run(
        PROP, tier, seed, replay,
        dirs=["C07", "C08"], props_file="C08/Props.v", trusted=TRUSTED, gen_cases=gen, vh_sub="c08",
        imports="From V Require Import Base.Text C08.Model C08.Run.\nOpen Scope N_scope.",
        model_expr=model_expr, canon_model=canon_model, canon_impl=canon_impl, oracle=oracle, nontrivial=nontrivial,
        rule="(a) apply_newline_style on random texts over {a, space, CR, LF, TAB} x 4 styles; (b) push_vertical_spaces for lower/upper bounds 0..3 x 0..4 trailing newlines x counts 0..5; (c) Indent::to_string / from_width for hard_tabs x tab_spaces 1..8; (d) remove_trailing_white_spaces and the trailing-newline cut on random code/comment/string fragments; each compared with the model and judged by the property's clause; (e) the discipline on the emitted text of pool programs (see e2e_rule). non-trivial = the pass changed something; distinct by hash",
        extra=e2e, per_file=200,
        ties=["C08"],
    )
