"""C13 — which files get formatted: exactly the reachable, non-excluded ones, each once; decoys untouched;
ambiguous / missing modules are errors."""
import json
import os
import re
import shutil
import subprocess
from concurrent.futures import ThreadPoolExecutor

from . import common, coqterm
from .common import log

PROP = "C13"
TRUSTED = [
    "Coq 8.16.1 kernel (coqc); vm_compute evaluates the model in cases.v; no native_compute",
    "Print Assumptions of every theorem in coq/C13/Props.v: Closed under the global context (checked each run)",
    "hand-written model coq/C13/Model.v of ModResolver (modules.rs:102-575), ParseSess::default_submod_path / is_file_parsed, parse_file_as_module, to_directory_ownership, should_skip_module; file contents abstracted to ids (item list, #![rustfmt::skip], @generated, ignore); tied to the code by materialising seeded module trees on disk and comparing the real binary's `Formatting PATH` lines (order included), changed files and error kind with run_resolve",
    "the declarative rules Reach of coq/C13/Model.v and the python oracle of this check are two transcriptions of the language's rules (rustc_expand/src/module.rs + the documented fallback); the python one is cross-checked against `rustc --emit dep-info` on marker-free trees every run",
    "the theorems of Props.v hold under Tame (decidable: tame_decidable / run_tame); the shapes outside Tame are the recorded findings W1..W12, generated deliberately in a dedicated stream",
    "ignore is decided per path by the real code and per file id by the model: trees with an ignored file never spell it with `..`",
    "strace -f -e trace=openat sees every open for writing of the rustfmt process (when ptrace is permitted)",
]
KNOWN_KEYS = [
    "path_cycle_unnormalised_recursion", "formatted_twice_unnormalised_path", "skipped_default_drops_cfg_attr_candidates",
    "unparsable_cfg_attr_candidate_swallowed", "root_with_sibling_dir", "inline_heuristic_formats_decoy",
    "reached_twice_incomplete", "nested_cfg_if_not_visited", "inline_cfg_attr_path_ignored",
]
# shapes outside Tame that are not recorded findings: a deviation on them is a plain violation.
# (repaired in /repo commit 0b20f11: a #![rustfmt::skip] file named by two cfg_attr(path) declarations was
# overwritten with the declaring file's text; the shape stays in the dedicated stream and is judged normally)
UNRECORDED_SHAPES = ["cfg_attr_skipped_candidate"]
UP, MOD = 0, 1
OLD = 946684800 * 10 ** 9       # mtime given to every file before the run (2000-01-01)


def D(n):
    return 2 * n + 2


def R(n):
    return 2 * n + 3


def cname(k):
    if k == 0:
        return ".."
    if k == 1:
        return "mod.rs"
    if k % 2 == 0:
        return "n%03d" % ((k - 2) // 2)
    return "n%03d.rs" % ((k - 3) // 2)


def pstr(p):
    return "/".join(cname(k) for k in p)


def A(path=None, cfg=None, skip=False):
    return {"path": path, "cfg": cfg or [], "skip": skip}


# ----------------------------------------------------------------------------------------------
# generation


class Gen:
    """constructive generator: every declared module gets its file where the language looks for it (so most
    trees resolve), in one of the styles name.rs / name/mod.rs / #[path] / cfg_attr(path) / fallback location;
    inline nesting, cfg_if!/cfg_match! bodies, markers, decoys, and a few deliberate errors"""

    def __init__(self, rnd, maxdepth):
        self.r = rnd
        self.maxdepth = maxdepth
        self.files = {}
        self.dirs = set()
        self.asts = {}
        self.facts = {}
        self.used = {}
        self.nid = 0
        self.nondefault = 0
        self.errors = 0

    def add_dirs(self, p):
        for i in range(1, len(p)):
            self.dirs.add(tuple(p[:i]))

    def new_file(self, p):
        p = tuple(p)
        if p in self.files or p in self.dirs:
            return None
        i = self.nid
        self.nid += 1
        self.files[p] = i
        self.add_dirs(p)
        self.asts[i] = []
        self.facts[i] = [False, False, False]
        return i

    def fresh(self, moddir, lo=0, hi=4):
        u = self.used.setdefault(tuple(moddir), set())
        c = [n for n in range(lo, hi + 1) if n not in u]
        if not c:
            return None
        n = self.r.choice(c)
        u.add(n)
        return n

    def child(self, fid, cdir, crel, fdepth):
        if fdepth < self.maxdepth and self.r.random() < 0.75:
            self.asts[fid] = self.items(cdir, crel, fdepth, 0, False)
        if self.r.random() < 0.05:
            self.facts[fid][0] = True
        if self.r.random() < 0.06:
            self.facts[fid][1] = True
        if self.r.random() < 0.05:
            self.facts[fid][2] = True

    def decl(self, cdir, crel, fdepth):
        r = self.r
        moddir = list(cdir) + ([D(crel)] if crel is not None else [])
        n = self.fresh(moddir)
        if n is None:
            return ["other"]
        a = A(skip=r.random() < 0.05)
        x = r.random()
        if x < 0.42:
            style = "rs"
        elif x < 0.66:
            style = "modrs"
        elif x < 0.82:
            style = "path"
        elif x < 0.90:
            style = "cfgattr"
        elif x < 0.94 and crel is not None:
            style = "fallback"
        elif x < 0.955:
            style = "missing"
        elif x < 0.97:
            style = "ambiguous"
        elif x < 0.99:
            style = "rs"
        else:
            style = "bad"
        if style in ("rs", "cfgattr", "bad", "ambiguous"):
            fid = self.new_file(moddir + [R(n)])
            if fid is not None:
                if style == "bad":
                    self.asts[fid] = None
                    self.errors += 1
                else:
                    self.child(fid, moddir, n, fdepth + 1)
            if style == "ambiguous":
                self.new_file(moddir + [D(n), MOD])
                self.errors += 1
                if crel is not None and r.random() < 0.6:
                    # a file at the FALLBACK location as well: the ambiguity must still be an error, the file a decoy
                    self.new_file(list(cdir) + (r.choice([[R(n)], [D(n), MOD]])))
            if style == "cfgattr":
                if fid is not None:
                    self.facts[fid][0] = False         # a skipped default next to a candidate is shape W2: dedicated stream
                self.nondefault += 1
                k = r.randint(10, 14)
                q = r.choice([[R(k)], [D(k), R(k)], [D(k), MOD]])
                if r.random() < 0.75:
                    cf = self.new_file(list(cdir) + q)
                    if cf is not None:
                        self.child(cf, (list(cdir) + q)[:-1], None, fdepth + 1)
                        self.facts[cf][0] = False      # inner skip on a candidate is shape W2: dedicated stream
                a["cfg"] = [q]
        elif style == "modrs":
            fid = self.new_file(moddir + [D(n), MOD])
            if fid is not None:
                self.child(fid, moddir + [D(n)], None, fdepth + 1)
        elif style == "fallback":
            if tuple(moddir + [D(n)]) in self.dirs:
                return ["other"]
            self.nondefault += 1
            self.used.setdefault(tuple(cdir), set()).add(n)
            if r.random() < 0.6:
                fid = self.new_file(list(cdir) + [R(n)])
                if fid is not None:
                    self.child(fid, list(cdir), n, fdepth + 1)
            else:
                fid = self.new_file(list(cdir) + [D(n), MOD])
                if fid is not None:
                    self.child(fid, list(cdir) + [D(n)], None, fdepth + 1)
        elif style == "path":
            self.nondefault += 1
            k = r.randint(10, 14)
            q = r.choice([[R(k)], [D(k), R(k)], [D(k), D(r.randint(10, 12)), R(k)], [D(k), MOD]])
            fid = self.new_file(list(cdir) + q)
            if fid is None:
                return ["other"]
            self.child(fid, (list(cdir) + q)[:-1], None, fdepth + 1)
            if r.random() < 0.25 and self.asts[fid]:
                self.facts[fid][0] = True      # a skipped #[path] target that declares modules: they are pruned with it
            a["path"] = q
        elif style == "missing":
            self.errors += 1
        return ["decl", n, a]

    def inline(self, cdir, crel, fdepth, idepth):
        r = self.r
        moddir = list(cdir) + ([D(crel)] if crel is not None else [])
        n = self.fresh(moddir)
        if n is None:
            return ["other"]
        a = A(skip=r.random() < 0.05)
        if r.random() < 0.2:
            k = r.randint(15, 17)
            a["path"] = [D(k)]
            self.nondefault += 1
            nd = list(cdir) + [D(k)]
        else:
            nd = moddir + [D(n)]
        if r.random() < 0.45:
            body = [["other"]] if r.random() < 0.7 else []        # `mod tests { .. }`: the heuristic may fire, harmlessly
        else:
            body = self.items(nd, None, fdepth, idepth + 1, False)
            if any(x[0] != "other" for x in body):     # keep the exists() heuristic of push_inline_mod_directory harmless
                self.add_dirs(nd + [0])
        return ["inline", n, a, body]

    def items(self, cdir, crel, fdepth, idepth, incfg, lo=0, hi=3):
        r = self.r
        out = []
        for _ in range(r.randint(lo, hi)):
            x = r.random()
            if x < 0.5:
                out.append(self.decl(cdir, crel, fdepth))
            elif x < 0.7 and idepth < 2:
                out.append(self.inline(cdir, crel, fdepth, idepth))
            elif x < 0.8 and not incfg:
                out.append(["cfgif", self.same_name_branches(self.items(cdir, crel, fdepth, idepth, True, 1, 3), cdir, fdepth)])
            elif x < 0.86 and not incfg:
                out.append(["cfgmatch", self.same_name_branches(self.items(cdir, crel, fdepth, idepth, True, 1, 3), cdir, fdepth)])
            else:
                out.append(["other"])
        return out

    def same_name_branches(self, body, cdir, fdepth):
        """the usual `cfg_if!` pattern: the SAME module name declared in several branches, each with its own #[path] file
        (sys/unix.rs, sys/windows.rs, ..): every one of these files is reachable"""
        r = self.r
        decls = [x for x in body if x[0] == "decl" and not x[2].get("cfg")]
        if not decls or r.random() < 0.5:
            return body
        n = r.choice(decls)[1]
        for _ in range(r.randint(1, 2)):
            k = r.randint(10, 14)
            q = r.choice([[R(k)], [D(k), R(k)]])
            fid = self.new_file(list(cdir) + q)
            if fid is None:
                continue
            self.child(fid, (list(cdir) + q)[:-1], None, fdepth + 1)
            self.nondefault += 1
            a = A()
            a["path"] = q
            body = body + [["decl", n, a]]
        return body

    def decoys(self):
        r = self.r
        n = 0
        dirs = [()] + sorted(self.dirs)
        for _ in range(r.randint(1, 3)):
            d = list(r.choice(dirs))
            k = r.randint(5, 6)
            p = d + r.choice([[R(k)], [D(k), MOD], [D(k), R(r.randint(0, 6))]])
            if tuple(p[:-1] + [R((p[-2] - 2) // 2)] if p[-1] == MOD else p) in self.files:
                continue
            if p[-1] == MOD and tuple(p[:-2] + [R((p[-2] - 2) // 2)]) in self.files:
                continue
            if self.new_file(p) is not None:
                n += 1
        return n


def gen_tree(rnd, maxdepth):
    g = Gen(rnd, maxdepth)
    root = [R(9)] if rnd.random() < 0.8 else [D(8), R(9)]
    rid = g.new_file(root)
    g.asts[rid] = g.items(root[:-1], None, 1, 0, False, 2, 4)
    if rnd.random() < 0.03:
        g.facts[rid][0] = True
    if rnd.random() < 0.03:
        g.facts[rid][1] = True
    if rnd.random() < 0.35:
        # a non-mod-rs file whose modules are nested INLINE for 2..3 levels before an out-of-line child: the directory of
        # the child is a/<k1>/<k2>/.., the file's own name `a` entering the path exactly once
        cdir = root[:-1]
        n = g.fresh(cdir)
        fid = g.new_file(cdir + [R(n)]) if n is not None else None
        if fid is not None:
            nd = cdir + [D(n)]
            ks = []
            for _ in range(rnd.randint(2, 3)):
                k = rnd.randint(0, 4)
                ks.append(k)
                nd = nd + [D(k)]
            leaves = []
            for m in rnd.sample(range(0, 5), rnd.randint(1, 2)):
                lf = g.new_file(nd + [R(m)])
                if lf is not None:
                    g.child(lf, nd, m, 3)
                    leaves.append(["decl", m, A()])
            g.add_dirs(nd + [0])
            body = leaves
            for k in reversed(ks):
                body = [["inline", k, A(), body + ([["other"]] if rnd.random() < 0.3 else [])]]
            g.asts[fid] = body
            g.asts[rid].append(["decl", n, A()])
    nd = g.decoys()
    x = rnd.random()
    mode = "stdin" if x < 0.06 else ("abs" if x < 0.5 else "rel")
    t = {
        "stream": "main",
        "files": [[list(p), i] for p, i in sorted(g.files.items(), key=lambda e: e[1])],
        "dirs": [list(p) for p in sorted(g.dirs)],
        "asts": [[i, g.asts[i]] for i in sorted(g.asts)],
        "facts": [[i, g.facts[i]] for i in sorted(g.facts)],
        "root": root,
        "cfg": {"skip_children": rnd.random() < 0.08, "format_generated": rnd.random() < 0.6, "mode": mode},
        "decoys": nd, "nondefault": g.nondefault,
    }
    return t


def mk(files, dirs, asts, facts, root, key, mode="rel"):
    fl = [[p, i] for p, i in files]
    a = {i: [] for _, i in files}
    a.update(asts)
    f = {i: [False, False, False] for _, i in files}
    f.update(facts)
    alld = set()
    for p, _ in files:
        for i in range(1, len(p)):
            alld.add(tuple(p[:i]))
    for p in dirs:
        for i in range(1, len(p) + 1):
            alld.add(tuple(p[:i]))
    return {"stream": key, "files": fl, "dirs": [list(p) for p in sorted(alld)], "asts": [[i, a[i]] for i in sorted(a)],
            "facts": [[i, f[i]] for i in sorted(f)], "root": root,
            "cfg": {"skip_children": False, "format_generated": True, "mode": mode}, "decoys": 0, "nondefault": 1}


def gen_known(rnd):
    """one variant of each recorded shape (W1, W3..W8, W12 of coq/C13/Lemmas.v, the skipped-default cfg_attr variant) and of the repaired W2 shape, names drawn at random"""
    def names(k):
        return rnd.sample(range(0, 8), k)
    out = []
    rt = [R(9)]
    a, b, c, e = names(4)
    out.append(mk([(rt, 0), ([R(b)], 1)], [[D(c)]],
                  {0: [["decl", a, A(path=[D(c), UP, R(b)])], ["decl", b, A()]]}, {}, rt, "formatted_twice_unnormalised_path"))
    a, b, c, e = names(4)
    out.append(mk([(rt, 0), ([R(a)], 1), ([R(b)], 2), ([R(c)], 3)], [],
                  {0: [["decl", a, A(cfg=[[R(c)]])], ["other"], ["decl", b, A(cfg=[[R(c)]])]]}, {3: [True, False, False]}, rt,
                  "repaired:skipped_file_overwritten_cfg_attr_path"))
    a, b, c, e = names(4)
    out.append(mk([(rt, 0), ([R(a)], 1), ([R(c)], 2), ([R(b)], 3)], [],
                  {0: [["decl", a, A(cfg=[[R(c)]])], ["decl", b, A()]]}, {1: [True, False, False]}, rt,
                  "skipped_default_drops_cfg_attr_candidates"))
    a, b, c, e = names(4)
    out.append(mk([(rt, 0), ([R(a)], 1), ([D(a), D(c), R(e)], 2)], [],
                  {0: [["decl", a, A()]], 1: [["inline", b, A(), [["inline", c, A(), [["decl", e, A()]]]]]]}, {}, rt,
                  "inline_heuristic_formats_decoy"))
    a, b, c, e = names(4)
    out.append(mk([([R(a)], 0), ([D(a), R(b)], 1), ([R(b)], 2)], [], {0: [["decl", b, A()]]}, {}, [R(a)], "root_with_sibling_dir",
                  mode=rnd.choice(["rel", "abs"])))
    a, b, c, e = names(4)
    out.append(mk([(rt, 0), ([R(a)], 1), ([R(c)], 2), ([D(a), R(c)], 3)], [],
                  {0: [["decl", b, A(path=[R(a)])], ["decl", a, A()]], 1: [["decl", c, A()]]}, {}, rt, "reached_twice_incomplete"))
    a, b, c, e = names(4)
    out.append(mk([(rt, 0), ([R(a)], 1), ([R(b)], 2)], [],
                  {0: [[rnd.choice(["cfgif", "cfgmatch"]), [["cfgif", [["decl", a, A()]]], ["decl", b, A()]]]]}, {}, rt,
                  "nested_cfg_if_not_visited"))
    a, b, c, e = names(4)
    out.append(mk([(rt, 0), ([D(b), R(c)], 1), ([D(a), R(c)], 2)], [],
                  {0: [["inline", a, A(cfg=[[D(b)]]), [["decl", c, A()]]]]}, {}, rt, "inline_cfg_attr_path_ignored"))
    a, b, c, e = names(4)
    out.append(mk([(rt, 0), ([R(a)], 1), ([R(b)], 2)], [],
                  {0: [["decl", a, A()], ["decl", c, A(cfg=[[R(b)], [R(a)]])], ["decl", b, A()]], 2: None}, {}, rt,
                  "unparsable_cfg_attr_candidate_swallowed"))
    a, b, c, e = names(4)
    out.append(mk([(rt, 0), ([R(a)], 1)], [[D(c)]],
                  {0: [["decl", a, A(path=[D(c), UP, R(a)])]], 1: [["decl", b, A(path=[D(c), UP, R(a)])]]}, {}, rt,
                  "path_cycle_unnormalised_recursion"))
    return out


# ----------------------------------------------------------------------------------------------
# rendering: Rust sources, Coq terms


def src_attrs(a, ind):
    s = ""
    if a["skip"]:
        s += ind + "#[rustfmt::skip]\n"
    for i, c in enumerate(a["cfg"]):
        s += ind + '#[cfg_attr(feature = "f%d", path = "%s")]\n' % (i, pstr(c))
    if a["path"] is not None:
        s += ind + '#[path = "%s"]\n' % pstr(a["path"])
    return s


def src_item(it, ind, cnt):
    k = it[0]
    if k == "other":
        cnt[0] += 1
        return ind + "fn  g%d( ){}\n" % cnt[0]
    if k == "decl":
        return src_attrs(it[2], ind) + ind + "mod n%03d;\n" % it[1]
    if k == "inline":
        return src_attrs(it[2], ind) + ind + "mod n%03d {\n" % it[1] + "".join(src_item(x, ind + "    ", cnt) for x in it[3]) + ind + "}\n"
    body = it[1]
    h = (len(body) + 1) // 2
    i2, i3 = ind + "    ", ind + "        "
    if k == "cfgif":
        return (ind + "cfg_if! {\n" + i2 + 'if #[cfg(feature = "a")] {\n' + "".join(src_item(x, i3, cnt) for x in body[:h])
                + i2 + "} else {\n" + "".join(src_item(x, i3, cnt) for x in body[h:]) + i2 + "}\n" + ind + "}\n")
    return (ind + "cfg_match! {\n" + i2 + "cfg(unix) => {\n" + "".join(src_item(x, i3, cnt) for x in body[:h]) + i2 + "}\n"
            + i2 + "_ => {\n" + "".join(src_item(x, i3, cnt) for x in body[h:]) + i2 + "}\n" + ind + "}\n")


def file_text(t, fid):
    asts, facts = dict(map(tuple, t["asts"])), dict(map(tuple, t["facts"]))
    sk, gen, _ = facts[fid]
    cnt = [0]
    s = ""
    if gen:
        # every spelling of the marker: it is a substring test on the first lines, wherever it stands
        forms = ["// @generated\n", "//@generated\n", "/* @generated */\n", "/*\n * This file is @generated by a tool.\n */\n", "//! @generated\n",
                 "// Copyright\n// @generated SignedSource<<abc>>\n", "#![doc = \"@generated\"]\n"]          # (an OUTER doc comment would need an item right after it)
        s += forms[fid % len(forms)]
    if sk:
        s += "#![rustfmt::skip]\n"
    if asts[fid] is None:
        return s + "// MARK-%d\nfn ((( \n" % fid
    return s + "".join(src_item(x, "", cnt) for x in asts[fid]) + "// MARK-%d\nfn  f%d( ){}\n" % (fid, fid)


def materialize(t, d):
    shutil.rmtree(d, ignore_errors=True)
    os.makedirs(d)
    for x in t["dirs"]:
        os.makedirs(os.path.join(d, pstr(x)), exist_ok=True)
    ign = []
    for p, i in t["files"]:
        fp = os.path.join(d, pstr(p))
        os.makedirs(os.path.dirname(fp), exist_ok=True)
        with open(fp, "w") as f:
            f.write(file_text(t, i))
        os.utime(fp, ns=(OLD, OLD))
    for i, f in t["facts"]:
        if f[2]:
            ign += [pstr(p) for p, j in t["files"] if j == i]
    # spelling of the entries: one per file, or -- for a directory all of whose files are ignored -- the directory itself, with and
    # without the trailing slash of a directory-only pattern (the spelling rotates with the tree)
    allf = [pstr(p) for p, _ in t["files"]]
    mode = (len(allf) + len(ign) + sum(len(x) for x in allf)) % 3
    entries = []
    if mode and ign:
        dirs_ = sorted(set(os.path.dirname(x) for x in ign if os.path.dirname(x)), key=len)
        covered = set()
        for dd in dirs_:
            under = [x for x in allf if x.startswith(dd + "/")]
            if under and all(x in ign for x in under) and not any(dd.startswith(c + "/") for c in covered):
                covered.add(dd)
                entries.append('"/%s%s"' % (dd, "/" if mode == 1 else ""))
        ign = [x for x in ign if not any(x.startswith(c + "/") for c in covered)]
    entries += ['"/%s"' % x for x in ign]
    with open(os.path.join(d, "rustfmt.toml"), "w") as f:
        f.write("ignore = [%s]\n" % ", ".join(entries))


def tok_path(p):
    return [len(p)] + list(p)


def tok_attrs(a):
    t = [1 if a["skip"] else 0, 1 if a["path"] is not None else 0]
    if a["path"] is not None:
        t += tok_path(a["path"])
    t += [len(a["cfg"])]
    for c in a["cfg"]:
        t += tok_path(c)
    return t


def tok_item(it):
    k = it[0]
    if k == "other":
        return [0]
    if k == "decl":
        return [1, it[1]] + tok_attrs(it[2])
    if k == "inline":
        return [2, it[1]] + tok_attrs(it[2]) + [len(it[3])] + sum((tok_item(x) for x in it[3]), [])
    return [3 if k == "cfgif" else 4, len(it[1])] + sum((tok_item(x) for x in it[1]), [])


def coq_args(t):
    files = [(list(p), i) for p, i in t["files"]]
    dirs = [list(p) for p in t["dirs"]]
    asts = [(i, None if a is None else coqterm.Ctor("Some", sum((tok_item(x) for x in a), []))) for i, a in t["asts"]]
    facts = [(i, (bool(f[0]), bool(f[1]), bool(f[2]))) for i, f in t["facts"]]
    return " ".join(coqterm.render(x) for x in (files, dirs, asts, facts, list(t["root"])))


def coq_expr(t):
    c = t["cfg"]
    a = coq_args(t)
    return "(run_resolve %s %s %s %s, run_tame %s 12)" % (
        "true" if c["skip_children"] else "false", "true" if c["mode"] == "stdin" else "false",
        "true" if c["format_generated"] else "false", a, a)


# ----------------------------------------------------------------------------------------------
# the language's rules in python, on the materialised tree (the OS resolves `..`)


class Lang:
    def __init__(self, t, d, fallback=True, prune=True, maxdepth=12):
        self.t, self.d, self.fallback, self.prune = t, d, fallback, prune
        self.asts = dict(map(tuple, t["asts"]))
        self.facts = dict(map(tuple, t["facts"]))
        self.fid = {os.path.realpath(os.path.join(d, pstr(p))): i for p, i in t["files"]}
        self.reached = []          # literal paths named by visited declarations that are files
        self.targets = []          # (literal path, ctx)
        self.errors = []           # (kind, module name)
        self.shapes = set()
        root = tuple(t["root"])
        self.rootctx = (root[:-1], None)
        rid = self.lookup(root)
        seen = set()
        stack = [(self.rootctx, self.asts[rid[1]] or [], 1, False)] if rid and rid[0] == "file" and self.asts[rid[1]] is not None else []
        if root[-1] % 2 == 1 and root[-1] > 1 and os.path.isdir(os.path.join(d, pstr(root[:-1] + (root[-1] - 1,)))):
            self.shapes.add("root_with_sibling_dir")
        while stack:
            ctx, items, depth, incfg = stack.pop()
            key = (ctx, id(items))
            if key in seen:
                continue
            seen.add(key)
            if depth > maxdepth:
                self.shapes.add("path_cycle_unnormalised_recursion")
                continue
            for it in items:
                self.item(ctx, it, depth, incfg, stack)
        by = {}
        for p, k in self.targets:
            by.setdefault(p, set()).add(k)
        if any(len(v) > 1 for v in by.values()) or (root in by and by[root] != {self.rootctx}):
            self.shapes.add("reached_twice_incomplete")
        real = {}
        for p in set(self.reached) | {root}:
            real.setdefault(os.path.realpath(os.path.join(d, pstr(p))), set()).add(p)
        if any(len(v) > 1 for v in real.values()):
            self.shapes.add("formatted_twice_unnormalised_path")

    def full(self, p):
        return os.path.join(self.d, pstr(p))

    def lookup(self, p):
        f = self.full(p)
        if os.path.isfile(f):
            return ("file", self.fid[os.path.realpath(f)])
        if os.path.isdir(f):
            return ("dir", None)
        return None

    def pick2(self, dr, n):
        a, b = dr + (R(n),), dr + (D(n), MOD)
        fa, fb = os.path.isfile(self.full(a)), os.path.isfile(self.full(b))
        if fa and not fb:
            return (a, (dr, n))
        if fb and not fa:
            return (b, (dr + (D(n),), None))
        return "MultipleCandidates" if fa else "NotFound"

    def default(self, ctx, n):
        cdir, crel = ctx
        moddir = cdir + ((D(crel),) if crel is not None else ())
        r = self.pick2(moddir, n)
        if r == "NotFound" and crel is not None and self.fallback:
            r2 = self.pick2(cdir, n)
            return r2 if isinstance(r2, tuple) else "NotFound"
        return r

    def has_mods(self, items):
        return any(x[0] == "decl" or (x[0] == "inline" and self.has_mods(x[3])) or (x[0] in ("cfgif", "cfgmatch") and self.has_mods(x[1]))
                   for x in items)

    def enter(self, p, k, depth, stack, n):
        lk = self.lookup(p)
        if lk is None or lk[0] != "file":
            return lk
        self.reached.append(p)
        i = lk[1]
        if self.asts[i] is not None and not (self.prune and self.facts[i][0]):
            stack.append((k, self.asts[i], depth + 1, False))
        return lk

    def item(self, ctx, it, depth, incfg, stack):
        cdir, crel = ctx
        k = it[0]
        if k == "other":
            return
        if k in ("cfgif", "cfgmatch"):
            if incfg:
                self.shapes.add("nested_cfg_if_not_visited")
            stack.append((ctx, it[1], depth, True))
            return
        n, a = it[1], it[2]
        if self.prune and a["skip"]:
            return
        moddir = cdir + ((D(crel),) if crel is not None else ())
        if k == "inline":
            if a["path"] is not None:
                ctxs = [(cdir + tuple(a["path"]), None)]
            else:
                ctxs = [(moddir + (D(n),), None)] + [(cdir + tuple(q), None) for q in a["cfg"]]
                if a["cfg"]:
                    self.shapes.add("inline_cfg_attr_path_ignored")
                if crel is not None and os.path.exists(self.full(moddir)) and not os.path.exists(self.full(moddir + (D(n),))) \
                        and self.has_mods(it[3]):
                    self.shapes.add("inline_heuristic_formats_decoy")
            for c in ctxs:
                stack.append((c, it[3], depth, False))
            return
        # mod n;
        if a["path"] is not None:
            p = cdir + tuple(a["path"])
            kx = (p[:-1], None)
            self.targets.append((p, kx))
            lk = self.enter(p, kx, depth, stack, n)
            if lk is None:
                self.errors.append(("NotFound", n))
            elif lk[0] == "dir" or self.asts[lk[1]] is None:
                self.errors.append(("ParseError", n))
            return
        existing = 0
        for q in a["cfg"]:
            p = cdir + tuple(q)
            kx = (p[:-1], None)
            self.targets.append((p, kx))
            if os.path.exists(self.full(p)):
                existing += 1
                lk = self.lookup(p)
                if lk[0] == "dir" or self.asts[lk[1]] is None:
                    self.shapes.add("unparsable_cfg_attr_candidate_swallowed")
                elif self.facts[lk[1]][0]:
                    self.shapes.add("cfg_attr_skipped_candidate")
            self.enter(p, kx, depth, stack, n)
        r = self.default(ctx, n)
        if isinstance(r, tuple):
            p, kx = r
            self.targets.append((p, kx))
            lk = self.enter(p, kx, depth, stack, n)
            if self.asts[lk[1]] is None:
                self.errors.append(("ParseError", n))
            if existing and self.facts[lk[1]][0]:
                self.shapes.add("skipped_default_drops_cfg_attr_candidates")
        elif not existing:
            self.errors.append((r, n))


def has_kind(items, kinds):
    for x in items or []:
        if x[0] in kinds:
            return True
        if x[0] == "inline" and has_kind(x[3], kinds):
            return True
        if x[0] in ("cfgif", "cfgmatch") and has_kind(x[1], kinds):
            return True
    return False


def any_attr(items, f):
    for x in items or []:
        if x[0] in ("decl", "inline") and f(x[2]):
            return True
        if x[0] == "inline" and any_attr(x[3], f):
            return True
        if x[0] in ("cfgif", "cfgmatch") and any_attr(x[1], f):
            return True
    return False


# ----------------------------------------------------------------------------------------------
# running the implementation


def base_env(home):
    e = common.rust_env()
    e.pop("CARGO_TARGET_DIR", None)
    e["HOME"] = home
    e["XDG_CONFIG_HOME"] = os.path.join(home, "xdg")
    return e


def snapshot(d):
    out = {}
    for root, _, files in os.walk(d):
        for f in files:
            p = os.path.join(root, f)
            rel = os.path.relpath(p, d)
            if rel in ("rustfmt.toml", "strace.out"):
                continue
            with open(p, "rb") as fh:
                out[rel] = (fh.read().decode("utf-8", "replace"), os.stat(p).st_mtime_ns)
    return out


def run_impl(t, d, home, use_strace):
    c = t["cfg"]
    rootrel = pstr(t["root"])
    before = snapshot(d)
    args = ["--verbose", "--config", "skip_children=%s,format_generated_files=%s" % (
        "true" if c["skip_children"] else "false", "true" if c["format_generated"] else "false")]
    cmd = [common.bin_path("rustfmt")]
    inp = None
    if c["mode"] == "stdin":
        cmd += args[1:]
        inp = before[rootrel][0]
    else:
        cmd += args + [os.path.join(d, rootrel) if c["mode"] == "abs" else rootrel]
    tr = os.path.join(d, "strace.out")
    if use_strace:
        cmd = ["strace", "-f", "-e", "trace=openat", "-o", tr] + cmd
    try:
        rc, o, e = common.sh(cmd, cwd=d, env=base_env(home), timeout=180, input=inp)
    except subprocess.TimeoutExpired:
        rc, o, e = "timeout", "", ""
    after = snapshot(d)
    res = {"rc": rc, "stderr": e[-600:] if len(e) < 5000 else e[:200] + " ... " + e[-300:]}
    m = re.search(r"failed to resolve mod `[^`]*`: (.*)", e, re.S)
    res["error"] = None
    if m:
        msg = m.group(1)
        res["error"] = ("NotFound" if "does not exist" in msg else "MultipleCandidates" if "found at both" in msg
                        else "ParseError" if "cannot parse" in msg else "?")
        res["error_len"] = len(msg)
    res["formatting"] = []
    for line in o.splitlines():
        if line.startswith("Formatting "):
            q = line[len("Formatting "):]
            res["formatting"].append(q[len(d) + 1:] if q.startswith(d + "/") else q)
    res["stdout"] = o if c["mode"] == "stdin" else ""
    res["changed"] = sorted(p for p in before if p not in after or after[p][0] != before[p][0])
    res["touched"] = sorted(p for p in before if p in after and after[p][1] != before[p][1])
    res["created"] = sorted(p for p in after if p not in before)
    res["diff"] = {p: {"before": before[p][0], "after": after.get(p, (None,))[0]} for p in res["changed"]}
    res["writes"] = None
    if use_strace and os.path.exists(tr):
        w = set()
        for line in open(tr, errors="replace"):
            mm = re.search(r'openat\([^,]+, "([^"]+)", ([A-Z_|0-9]+)[^)]*\)\s+= (-?\d+)', line)
            if not mm or int(mm.group(3)) < 0:
                continue
            if not re.search(r"O_WRONLY|O_RDWR|O_CREAT", mm.group(2)):
                continue
            p = os.path.realpath(os.path.join(d, mm.group(1)))
            if p.startswith(d + "/") and not p.endswith("strace.out"):
                w.add(os.path.relpath(p, d))
        res["writes"] = sorted(w)
        os.remove(tr)
    return res


def rustc_deps(t, d, home):
    dd = os.path.join(d, "dep.d")
    try:
        rustc = os.path.join(os.path.dirname(common.toolchain_lib()), "bin", "rustc")
        rc, o, e = common.sh([rustc if os.path.exists(rustc) else "rustc", "--edition", "2021", "--crate-type", "lib", "--emit", "dep-info", "-o", dd, pstr(t["root"])],
                             cwd=d, env=base_env(home), timeout=120)
    except (OSError, subprocess.TimeoutExpired):
        return None, "rustc unavailable"
    deps = None
    if os.path.exists(dd):
        first = open(dd).read().splitlines()[0]
        deps = sorted(set(first.split(": ", 1)[1].split())) if ": " in first else []
        os.remove(dd)
    return deps, "\n".join(l for l in e.splitlines() if l.startswith("error"))


# ----------------------------------------------------------------------------------------------
# the property, judged on the implementation's observations


def judge(t, d, r):
    """-> (list of (kind, what)), shapes, nontrivial"""
    c = t["cfg"]
    L = Lang(t, d, fallback=True, prune=True)
    facts = L.facts
    root = tuple(t["root"])
    rootrel = pstr(root)
    dev = []
    recursive = c["mode"] != "stdin" and not c["skip_children"]
    if r["rc"] == "timeout":
        return [("timeout", "rustfmt did not finish in 180 s")], L.shapes, False, "timeout"
    if c["mode"] == "stdin":
        if r["changed"] or r["touched"] or r["created"]:
            dev.append(("stdin_writes", "stdin input wrote files: %r" % (r["changed"] + r["touched"] + r["created"])))
        other = [i for p, i in t["files"] if tuple(p) != root and ("MARK-%d\n" % i) in r["stdout"]]
        if other:
            dev.append(("stdin_children", "stdin output contains the text of files %r" % other))
        if r["rc"] != 0 or "MARK-%d\n" % L.fid[os.path.realpath(os.path.join(d, rootrel))] not in r["stdout"]:
            dev.append(("stdin_output", "stdin run: exit %r, root text missing from stdout" % r["rc"]))
        return dev, L.shapes, False, "stdin"
    real = lambda p: os.path.relpath(os.path.realpath(os.path.join(d, p)), d)
    cyc = "path_cycle_unnormalised_recursion" in L.shapes
    if recursive and (L.errors or cyc):
        kinds = sorted(set(k for k, _ in L.errors)) + (["Circular"] if cyc else [])
        if r["rc"] != 1 or r["error"] is None:
            dev.append(("missing_error", "a reachable non-skipped declaration is %s but rustfmt exits %r without a resolution error" % (kinds, r["rc"])))
        elif r["error"] not in kinds:
            dev.append(("error_kind", "rustfmt reports %s (message of %d chars), the declarations in error are %s" % (r["error"], r.get("error_len", 0), kinds)))
        if r["changed"] or r["touched"] or r["created"]:
            dev.append(("error_but_written", "resolution must fail (%s) but files were written: %r" % (kinds, r["changed"] + r["created"])))
        if r["writes"]:
            dev.append(("error_but_opened_for_writing", "resolution must fail but these files were opened for writing: %r" % r["writes"]))
        return dev, L.shapes, bool(t["decoys"]) and not dev, "error"
    # no error expected
    def excluded(i):
        f = facts[i]
        return f[0] or f[2] or (f[1] and not c["format_generated"])
    reach = [root] + (L.reached if recursive else [])
    exp = set()
    for p in reach:
        rp = real(pstr(p))
        i = L.fid[os.path.join(d, rp)]
        if not excluded(i):
            exp.add(rp)
    if r["error"] is not None or r["rc"] != 0:
        dev.append(("unexpected_error", "no reachable declaration is in error but rustfmt exits %r (%s): %s" % (r["rc"], r["error"], r["stderr"][-300:])))
    fm_real = [real(p) for p in r["formatting"]]
    dup = sorted(set(p for p in fm_real if fm_real.count(p) > 1))
    if dup:
        dev.append(("formatted_twice", "formatted more than once: %r (as %r)" % (dup, r["formatting"])))
    got = set(r["changed"])
    over = sorted(p for p in got - exp if facts[L.fid[os.path.join(d, p)]][0])
    if over:
        dev.append(("skipped_file_overwritten_cfg_attr_path", "files starting with #![rustfmt::skip] were rewritten: %r (`Formatting` lines %r)" % (over, r["formatting"])))
    if got != exp or set(fm_real) != exp:
        dev.append(("formatted_set", "changed files %r, `Formatting` lines %r; reachable minus excluded is %r (missed %r, extra %r)" % (
            sorted(got), r["formatting"], sorted(exp), sorted(exp - got), sorted(got - exp))))
    decoy_touch = sorted((set(r["touched"]) | set(r["created"])) - exp)
    if decoy_touch and not (got - exp):
        dev.append(("decoy_touched", "files outside the formatted set have a new mtime / were created: %r" % decoy_touch))
    if r["writes"] is not None and not set(r["writes"]) <= exp and not (got - exp):
        dev.append(("write_outside_set", "opened for writing outside the formatted set: %r" % sorted(set(r["writes"]) - exp)))
    keyf = lambda p: [x.encode() for x in p.split("/")]
    if r["formatting"] != sorted(r["formatting"], key=keyf):
        dev.append(("emit_order", "files are not formatted in path order: %r" % r["formatting"]))
    nontrivial = bool(t["decoys"]) and bool(t["nondefault"]) and len(exp) > 1
    return dev, L.shapes, nontrivial, "ok"


# ----------------------------------------------------------------------------------------------


def run(tier, seed, replay):
    rep = common.Reporter(PROP, tier, seed, "proof")
    rep.assumptions = TRUSTED
    cr = common.coq_phase(["C13"], "C13/Props.v")
    common.coq_coverage(rep, cr, "cd coq && make C13/Props.vo && coqc -Q . V C13/Props.v (+ hygiene grep, Print Assumptions allow-list)", TRUSTED)
    if not cr.ok:
        log("C13 proof phase failed: %s %s %s\n%s" % (cr.hygiene, cr.bad_assumptions, cr.failed_files, cr.build_log[-1500:]))
    ok, blog, bt = common.build_bins()
    if not ok:
        raise RuntimeError("build of /repo binaries failed:\n" + blog)
    rnd = common.rng(seed, PROP)
    base = os.path.realpath(os.path.join(common.CACHE, "c13"))
    shutil.rmtree(base, ignore_errors=True)
    os.makedirs(base)
    home = os.path.join(base, "home")
    os.makedirs(os.path.join(home, "xdg"))
    if replay:
        cases = [json.load(open(replay))["case"]]
    else:
        n = 150 if tier == "quick" else 3000
        cases = [gen_tree(rnd, rnd.choice([2, 3, 3, 4])) for _ in range(n)]
        for _ in range(2 if tier == "quick" else 12):
            cases += gen_known(rnd)
    # strace available?
    use_strace = False
    try:
        rc, o, e = common.sh(["strace", "-f", "-e", "trace=openat", "-o", os.path.join(base, "probe.out"), "true"], timeout=30)
        use_strace = rc == 0
    except (OSError, subprocess.TimeoutExpired):
        pass
    # model
    model = None
    try:
        model = common.run_coq_cases("From V Require Import Base.Text C13.Model C13.Run.\nOpen Scope N_scope.", "",
                                     [coq_expr(t) for t in cases], "c13", per_file=12)
    except Exception as ex:
        log("C13: model evaluation failed: %s" % str(ex)[-1500:])
    # implementation
    dirs = [os.path.join(base, "t%d" % i) for i in range(len(cases))]

    def one(i):
        materialize(cases[i], dirs[i])
        return run_impl(cases[i], dirs[i], home, use_strace)

    with ThreadPoolExecutor(max_workers=common.NCPU) as ex:
        impl = list(ex.map(one, range(len(cases))))
    disagreements, found = [], 0
    nontrivial = set()
    stats = {"tame": 0, "stdin": 0, "skip_children": 0, "abs_root": 0, "with_strace": 0,
             "rustc_cross_checked": 0, "rustc_disagreements": 0, "classifier_vs_run_tame_disagreements": 0, "known_stream": 0}
    fired = {}
    rustc_budget = 40 if tier == "quick" else 400
    codes = {0: None, 1: "NotFound", 2: "MultipleCandidates", 3: "ParseError", 4: "OutOfFuel", 9: "bad tokens"}
    for i, (t, r) in enumerate(zip(cases, impl)):
        d = dirs[i]
        show = {k: v for k, v in t.items()}
        dev, shapes, nt, expect = judge(t, d, r)
        stats["expect_" + expect] = stats.get("expect_" + expect, 0) + 1
        c = t["cfg"]
        stats["stdin"] += c["mode"] == "stdin"
        stats["abs_root"] += c["mode"] == "abs"
        stats["skip_children"] += bool(c["skip_children"])
        stats["with_strace"] += r.get("writes") is not None
        stats["known_stream"] += t["stream"] != "main"
        if nt and not dev:
            nontrivial.add(common.case_hash(show))
        # ---- the language oracle against rustc (trees without macros / markers / cfg_attr, no error)
        allitems = [a for _, a in t["asts"]]
        plain = (c["mode"] != "stdin" and rustc_budget > 0
                 and not any(has_kind(a, ("cfgif", "cfgmatch")) for a in allitems)
                 and not any(any_attr(a, lambda x: x["cfg"]) for a in allitems)
                 and not any(f[0] for _, f in t["facts"]) and all(a is not None for a in allitems))
        if plain:
            S = Lang(t, d, fallback=False, prune=False)
            if not S.errors and "path_cycle_unnormalised_recursion" not in S.shapes:
                rustc_budget -= 1
                deps, err = rustc_deps(t, d, home)
                if deps is not None and not err:
                    stats["rustc_cross_checked"] += 1
                    mine = sorted(set(pstr(p) for p in S.reached) | {pstr(t["root"])})
                    if mine != deps:
                        stats["rustc_disagreements"] += 1
                        if rep.violation("oracle_vs_rustc", {"case": show, "python_rules": mine, "rustc_dep_info": deps},
                                         "the python transcription of the language's rules loads %r, rustc loads %r" % (mine, deps)):
                            found += 1
                elif deps is not None and err:
                    stats["rustc_disagreements"] += 1
                    if rep.violation("oracle_vs_rustc", {"case": show, "rustc_errors": err},
                                     "the python rules see no error, rustc reports: %s" % err[:300]):
                        found += 1
        # ---- correspondence with the model
        tame = None
        if model is not None:
            code, paths, tm = model[i]
            mpaths = [pstr(p) for p in paths]
            if isinstance(tm, coqterm.Ctor) and tm.name == "Some":
                closed, tame = tm.args[0]
                tame = bool(closed and tame)
            if tame:
                stats["tame"] += 1
            if tame is not None and c["mode"] != "stdin" and not c["skip_children"] and tame != (not (shapes & (set(KNOWN_KEYS + UNRECORDED_SHAPES) - {"formatted_twice_unnormalised_path"}))):
                stats["classifier_vs_run_tame_disagreements"] += 1
            if c["mode"] == "stdin":
                agree = code == 0 and mpaths == [pstr(t["root"])] and not r["changed"] and r["rc"] == 0
            elif code == 4:
                agree = "path_cycle_unnormalised_recursion" in shapes and r["error"] == "NotFound"
            elif code == 0:
                agree = r["error"] is None and r["formatting"] == mpaths and set(r["changed"]) == set(
                    os.path.relpath(os.path.realpath(os.path.join(d, p)), d) for p in mpaths)
            else:
                agree = r["error"] == codes.get(code) and not r["changed"]
            if not agree:
                disagreements.append((show, {"model": [codes.get(code, code), mpaths], "impl": {k: r[k] for k in ("rc", "error", "formatting", "changed")}}))
            stats["model_ok" if code == 0 else "model_err"] = stats.get("model_ok" if code == 0 else "model_err", 0) + 1
        # ---- report
        if dev:
            kind, what = dev[0]
            known = [k for k in KNOWN_KEYS if k in shapes]
            if t["stream"] != "main" and t["stream"] in shapes:
                known = [t["stream"]]
            key = known[0] if known and kind != "skipped_file_overwritten_cfg_attr_path" else kind
            fired.setdefault(key, {"n": 0, "example": None})
            fired[key]["n"] += 1
            if fired[key]["example"] is None:
                fired[key]["example"] = {"root": pstr(t["root"]), "sources": {pstr(p): file_text(t, fi) for p, fi in t["files"]},
                                         "observed": what}
            robj = {"case": show, "deviations": dev, "shapes": sorted(shapes), "impl": r,
                    "sources": {pstr(p): file_text(t, fi) for p, fi in t["files"]}}
            if rep.violation(key, robj, "%s: %s" % (kind, what)):
                found += 1
        elif t["stream"] != "main" and not t["stream"].startswith("repaired:"):
            # a recorded shape that no longer deviates: worth knowing, not a violation
            fired.setdefault("no_longer:" + t["stream"], {"n": 0, "example": None})["n"] += 1
        shutil.rmtree(d, ignore_errors=True)
    shutil.rmtree(base, ignore_errors=True)
    okt, whatt = common.tie_phase(rep, "C13")
    if not okt:
        disagreements.append(({"regenerated_tie": True}, whatt))
    tie_broken = (not cr.ok) or model is None or disagreements
    if tie_broken and found == 0:
        what = []
        if not cr.ok:
            what.append("theorems of coq/C13/Props.v no longer check (%s %s %s)" % (cr.failed_files, cr.hygiene, cr.bad_assumptions))
        if model is None:
            what.append("model could not be evaluated")
        if disagreements:
            what.append("correspondence broken on %d of %d trees, first: %r" % (len(disagreements), len(cases), disagreements[0]))
        rep.violation("tie", {"broken": what, "first_disagreements": disagreements[:3]}, "; ".join(what)[:3000], no_input=True)
    step = max(1, len(cases) // 4)
    rep.coverage.update({
        "evaluations": len(cases),
        "distinct_nontrivial": len(nontrivial),
        "rule": "seeded module trees (file nesting <= 4; name.rs / name/mod.rs / #[path] / cfg_attr(path) / fallback location; inline nesting <= 2 incl. #[path] on inline modules and empty `mod tests {}`; cfg_if!/cfg_match! bodies; skip attributes, #![rustfmt::skip], @generated, ignore; 1-3 decoy files; a few missing / ambiguous / unparsable modules; skip_children, format_generated_files; root relative / absolute / stdin; root at the top or in a sub-directory) materialised with every file unformatted, uniquely marked, mtime in the past; one real `rustfmt --verbose ROOT` run per tree (under strace -e openat when permitted): changed bytes, mtimes, `Formatting` lines in order, error kind, files opened for writing; judged by a python transcription of the language's rules (cross-checked against rustc --emit dep-info) and compared with run_resolve; plus a dedicated stream with one randomised variant of each recorded shape (W1, W3..W8, W12 of coq/C13/Lemmas.v and the skipped-default cfg_attr variant) and of the repaired W2 shape, which is judged like any other tree. non-trivial = at least one decoy, one non-default resolution, more than one file formatted, no deviation",
        "samples": [{"root": pstr(cases[i]["root"]), "cfg": cases[i]["cfg"], "files": [pstr(p) for p, _ in cases[i]["files"]]} for i in range(0, len(cases), step)][:4],
        "correspondence_disagreements": len(disagreements),
        "traces_validated_against_impl": len(cases) if model is not None else 0,
        "strace_used": use_strace,
        "deviation_keys": {k: v["n"] for k, v in fired.items()},
        "deviation_examples": {k: v["example"] for k, v in fired.items() if v["example"]},
        "bins_build_s": round(bt, 1),
    })
    rep.coverage.update(stats)
    return rep.finish()
