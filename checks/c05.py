"""C05 — an input that cannot be processed is left untouched; other roots are still formatted."""
import hashlib
import json
import os
import re
import shutil
import subprocess
from concurrent.futures import ThreadPoolExecutor

from . import common, coqterm
from .common import log

PROP = "C05"
TRUSTED = [
    "Coq 8.16.1 kernel (coqc); vm_compute evaluates the model in cases.v; no native_compute",
    "Print Assumptions of every theorem in coq/C05/Props.v: Closed under the global context (checked each run)",
    "hand-written model coq/C05/Model.v of format_input_inner / format_project / ModResolver / main.rs's loop as an event trace over a rose tree of modules; per-file parse outcomes are inputs of the model (here: the injected fault); files reached twice are not modelled",
    "tie to the code: real rustfmt processes on generated module trees with injected faults; the observed event trace (strace: openat for reading = Parsed, `Formatting PATH` written to fd 1 = Formatted, openat for writing / header / diff written to fd 1 = Emitted; failure class from stderr) is compared with run_main's trace for the same tree, accepted by run_accepts, and the exit status with run_main's",
    "ParseRootErr and ParsePanic are not distinguished in observed traces (both: parsing error, same flags)",
]
MODES = {"files": [], "check": ["--check"], "stdout": ["--emit", "stdout"]}
UNF = "pub fn  %s( ){}\n"
FAULT_TEXT = {"lexer": "pub fn f() { let s = \"abc; }\n", "unclosed": "pub fn f() {\n    let x = (1;\n",
              "blockcomment": "pub fn f() { /* abc\n", "rawstring": "pub fn f() { let s = r#\"abc; }\n",
              # an error the parser recovers from (it still returns a syntax tree): must fail all the same
              "recoverable": "pub fn f() { let x = 1 }\n"}
LEX_FATAL = ("lexer", "blockcomment", "rawstring")     # rustc raises FatalError while creating the parser (caught since the repair of ParserBuilder::build)
A_STYLES = ["file", "moddir", "pathattr", "cfgattr"]
B_STYLES = ["file", "moddir"]


def sha(p):
    return hashlib.sha256(open(p, "rb").read()).hexdigest()


def build_tree(d, a_style, b_style):
    """failing-candidate crate: lib.rs -> a (-> a1), b, cfg_if!{ c }.  Returns {position: relpath}"""
    pos = {"root": "lib.rs"}
    lib = ""
    if a_style == "file":
        pos["first"], pos["grand"] = "a.rs", "a/a1.rs"
        lib += "mod a;\n"
    elif a_style == "moddir":
        pos["first"], pos["grand"] = "a/mod.rs", "a/a1.rs"
        lib += "mod a;\n"
    elif a_style == "cfgattr":
        # the default file a.rs AND an alternative named by cfg_attr(.., path): both are parsed; a fault in the default
        # file must not be forgiven because the alternative parses
        pos["first"], pos["grand"] = "a.rs", "a/a1.rs"
        lib += "#[cfg_attr(unix, path = \"alt/other_a.rs\")]\nmod a;\n"
    else:
        pos["first"], pos["grand"] = "other/aa.rs", "other/a1.rs"
        lib += "#[path = \"other/aa.rs\"]\nmod a;\n"
    pos["last"] = "b.rs" if b_style == "file" else "b/mod.rs"
    pos["cfgif"] = "c.rs"
    lib += "mod b;\n" + UNF % "x" + "cfg_if! {\n    if #[cfg(x)] {\n        mod c;\n    }\n}\n"
    files = {pos["root"]: lib, pos["first"]: UNF % "a" + "mod a1;\n", pos["grand"]: UNF % "a1",
             pos["last"]: UNF % "b", pos["cfgif"]: UNF % "c"}
    if a_style == "cfgattr":
        files["alt/other_a.rs"] = UNF % "alt"
    for rel, t in files.items():
        p = os.path.join(d, rel)
        os.makedirs(os.path.dirname(p), exist_ok=True)
        open(p, "w").write(t)
    return pos, files


def build_ok(d):
    files = {"main.rs": "mod h;\nfn  main( ){}\n", "h.rs": UNF % "h"}
    os.makedirs(d, exist_ok=True)
    for rel, t in files.items():
        open(os.path.join(d, rel), "w").write(t)
    return files


def alt_name(rel):
    """the other candidate file for the same module (x.rs <-> x/mod.rs)"""
    if rel.endswith("/mod.rs"):
        return rel[:-len("/mod.rs")] + ".rs"
    return rel[:-3] + "/mod.rs"


def inject(d, pos, kind, position):
    """returns the command-line name of the failing root"""
    rel = pos.get(position, pos["root"])
    p = os.path.join(d, rel)
    if kind in FAULT_TEXT:
        open(p, "w").write(FAULT_TEXT[kind])
    elif kind == "disabled":
        open(p, "w").write(FAULT_TEXT["lexer"])
        open(os.path.join(d, "rustfmt.toml"), "w").write("disable_all_formatting = true\n")
    elif kind == "ignored_sibling":
        # the file at `position` has a recoverable syntax error; its sibling (first <-> last) has one too but is
        # matched by `ignore`, so its diagnostics are silenced -- the error of the non-ignored file must still count
        other = pos["last" if position == "first" else "first"]
        open(p, "w").write(FAULT_TEXT["recoverable"])
        open(os.path.join(d, other), "w").write("pub fn g() { let y = 2 }\n" + ("mod a1;\n" if position == "last" else ""))
        open(os.path.join(d, "rustfmt.toml"), "w").write("ignore = [\"%s\"]\n" % other)
    elif kind == "missing":
        os.remove(p)
    elif kind == "ambiguous":
        q = os.path.join(d, alt_name(rel))
        os.makedirs(os.path.dirname(q), exist_ok=True)
        open(q, "w").write(UNF % "dup")
    elif kind == "bad_toml":
        open(os.path.join(d, "rustfmt.toml"), "w").write("max_width = \"x\"\n")
    elif kind == "version":
        open(os.path.join(d, "rustfmt.toml"), "w").write("required_version = \"0.0.1\"\n")
    elif kind == "missing_path":
        return os.path.join(d, "nothere.rs")
    elif kind == "directory":
        return d
    return os.path.join(d, "lib.rs")


def tree_files(d):
    out = {}
    for root, _, files in os.walk(d):
        for f in files:
            p = os.path.join(root, f)
            out[os.path.relpath(p, d)] = sha(p)
    return out


def env_for(home):
    e = dict(os.environ)
    e.update(common.rust_env())
    e.pop("CARGO_TARGET_DIR", None)
    e["HOME"] = home
    e["XDG_CONFIG_HOME"] = os.path.join(home, ".config")
    e.pop("RUSTFMT_LOG", None)
    return e


def pkey(p):
    return tuple(p.split("/"))


def observed_trace(strace_text, stderr, roots, faulty_abs, kind, position):
    """per root (in command-line order) the list of events [code, abs path or None]"""
    per = {r: [] for r in roots}

    def root_of(p):
        for r in roots:
            rd = r if not r.endswith(".rs") else os.path.dirname(r)
            if p == r or p.startswith(rd + "/"):
                return r
        return None

    for line in strace_text.split("\n"):
        m = re.search(r'openat\([^,]+, "([^"]+\.rs)", ([A-Z_|]+)[^=]*= (-?\d+)', line)
        if m:
            p, fl, res = m.group(1), m.group(2), int(m.group(3))
            r = root_of(p)
            if r is None or res < 0:
                continue
            if "O_WRONLY" in fl or "O_RDWR" in fl:
                per[r].append([9, p])
            elif p != faulty_abs:
                per[r].append([3, p])
            continue
        m = re.search(r'write\(1, "((?:[^"\\]|\\.)*)"', line)
        if m:
            s = m.group(1)
            for mm in re.finditer(r"Formatting ([^\\]+\.rs)\\n", s):
                r = root_of(mm.group(1))
                if r:
                    per[r].append([8, mm.group(1)])
            for mm in re.finditer(r"(?:^|\\n)(/[^\\:]+\.rs):\\n\\n", s):          # --emit stdout header
                r = root_of(mm.group(1))
                if r:
                    per[r].append([9, mm.group(1)])
            for mm in re.finditer(r"Diff in (/[^\\:]+\.rs):1:", s):                 # --check: first hunk of a file
                r = root_of(mm.group(1))
                if r and [9, mm.group(1)] not in per[r]:
                    per[r].append([9, mm.group(1)])
    return per


def run(tier, seed, replay):
    rep = common.Reporter(PROP, tier, seed, "proof")
    rep.assumptions = TRUSTED
    cr = common.coq_phase(["C12", "C20", "C06", "C05"], "C05/Props.v")
    common.coq_coverage(rep, cr, "cd coq && make C05/Props.vo && coqc -Q . V C05/Props.v (+ hygiene grep, Print Assumptions allow-list)", TRUSTED)
    if not cr.ok:
        log("C05 proof phase failed: %s %s %s\n%s" % (cr.hygiene, cr.bad_assumptions, cr.failed_files, cr.build_log[-1500:]))
    ok, blog, bt = common.build_bins()
    if not ok:
        raise RuntimeError("build of /repo binaries failed:\n" + blog)
    rnd = common.rng(seed, PROP)
    base = os.path.join(common.CACHE, "c05")
    shutil.rmtree(base, ignore_errors=True)
    os.makedirs(base)
    home = os.path.join(base, "home")
    os.makedirs(os.path.join(home, ".config"))
    env = env_for(home)
    exe = common.bin_path("rustfmt")
    have_strace = shutil.which("strace") is not None

    # ---- cases
    kinds = []
    for k in ("lexer", "unclosed", "recoverable"):
        for p in ("root", "first", "last", "grand", "cfgif"):
            kinds.append((k, p))
    kinds += [("ignored_sibling", "first"), ("ignored_sibling", "last")]
    kinds += [("blockcomment", "root"), ("blockcomment", "first"), ("rawstring", "root"), ("rawstring", "grand")]
    for k in ("missing", "ambiguous"):
        for p in ("first", "last", "grand", "cfgif"):
            kinds.append((k, p))
    kinds += [("bad_toml", "root"), ("version", "root"), ("missing_path", "root"), ("directory", "root"), ("disabled", "root"), ("none", "root")]
    cases = []
    for kind, position in kinds:
        styles = [(a, b) for a in A_STYLES for b in B_STYLES] if tier != "quick" else [(rnd.choice(A_STYLES), rnd.choice(B_STYLES))]
        if tier == "quick" and position == "first" and kind in FAULT_TEXT:
            styles = styles + [("cfgattr", rnd.choice(B_STYLES))]
        for a_style, b_style in styles:
            if kind == "ambiguous" and position in ("first", "grand") and a_style in ("pathattr", "cfgattr"):
                a_style = "file"        # a #[path] module has a single candidate
            if kind == "missing" and position == "first" and a_style == "cfgattr":
                a_style = "file"        # with an alternative file named by cfg_attr(path) a missing default file is not a fault
            for mode in MODES:
                orders = ["bad_first", "ok_first"] if kind in ("bad_toml", "lexer", "unclosed", "blockcomment", "recoverable") and position == "root" else ["bad_first"]
                for order in orders:
                    cases.append({"kind": kind, "position": position, "a_style": a_style, "b_style": b_style, "mode": mode, "order": order})
    seen = set()
    cases = [c for c in cases if not (common.case_hash(c) in seen or seen.add(common.case_hash(c)))]
    if replay:
        try:
            rc_case = json.load(open(replay)).get("case")
            if isinstance(rc_case, dict) and "kind" in rc_case:
                cases = [rc_case]
        except Exception:
            pass

    # reference: formatted text of the healthy root's files
    refd = os.path.join(base, "ref", "ok")
    ok_files = build_ok(refd)
    subprocess.run([exe, os.path.join(refd, "main.rs")], env=env, stdout=subprocess.PIPE, stderr=subprocess.PIPE, timeout=60)
    ok_fmt = {rel: open(os.path.join(refd, rel)).read() for rel in ok_files}
    if any(ok_fmt[r] == ok_files[r] for r in ok_files):
        raise RuntimeError("reference formatting of the healthy root did not change its files")

    def run_case(ci_c):
        ci, c = ci_c
        res = {}
        for phase in ("plain", "trace"):
            if phase == "trace" and not have_strace:
                break
            d = os.path.realpath(os.path.join(base, "case%d_%s" % (ci, phase)))
            kd, od = os.path.join(d, "k"), os.path.join(d, "ok")
            pos, files = build_tree(kd, c["a_style"], c["b_style"])
            build_ok(od)
            bad_root = inject(kd, pos, c["kind"], c["position"])
            ok_root = os.path.join(od, "main.rs")
            roots = [bad_root, ok_root] if c["order"] == "bad_first" else [ok_root, bad_root]
            before_k, before_o = tree_files(kd), tree_files(od)
            args = MODES[c["mode"]] + roots
            if phase == "plain":
                p = subprocess.run([exe] + args, cwd=d, env=env, stdout=subprocess.PIPE, stderr=subprocess.PIPE, timeout=60)
                st = ""
            else:
                sf = os.path.join(d, "strace.out")
                p = subprocess.run(["strace", "-f", "-s", "4000", "-o", sf, "-e", "trace=openat,write", exe, "--verbose"] + args,
                                   cwd=d, env=env, stdout=subprocess.PIPE, stderr=subprocess.PIPE, timeout=120)
                st = open(sf, errors="replace").read() if os.path.exists(sf) else ""
                if os.path.exists(sf):
                    os.remove(sf)
            res[phase] = {"rc": p.returncode, "out": p.stdout.decode("utf-8", "replace"), "err": p.stderr.decode("utf-8", "replace"),
                          "before_k": before_k, "after_k": tree_files(kd), "before_o": before_o, "after_o": tree_files(od),
                          "ok_content": {rel: open(os.path.join(od, rel)).read() for rel in ok_files},
                          "strace": st, "roots": roots, "bad_root": bad_root, "ok_root": ok_root, "pos": pos, "dir": d,
                          "faulty_abs": os.path.join(kd, pos.get(c["position"], "lib.rs")) if (c["kind"] in FAULT_TEXT or c["kind"] in ("disabled", "ignored_sibling")) else None}
        return res

    with ThreadPoolExecutor(max_workers=common.NCPU) as ex:
        obs = list(ex.map(run_case, enumerate(cases)))

    found = [0]
    nontrivial = set()

    def viol(key, obj, what):
        if rep.violation(key, obj, what):
            found[0] += 1

    # ---- property oracle (on the plain run; the traced run must agree on exit status and file states)
    for c, o2 in zip(cases, obs):
        o = o2["plain"]
        rp = {"case": c, "args": MODES[c["mode"]] + [os.path.relpath(r, o["dir"]) for r in o["roots"]], "rc": o["rc"], "stderr": o["err"][-600:], "stdout": o["out"][-300:]}
        failing = c["kind"] != "none"
        if failing:
            nontrivial.add(common.case_hash(c))
        for ph in ("plain", "trace"):
            if ph in o2 and o2[ph]["rc"] not in (0, 1):
                viol("exit_status_outside_01", dict(rp, phase=ph, rc=o2[ph]["rc"]), "fault %s at %s: the process ends with status %d" % (c["kind"], c["position"], o2[ph]["rc"]))
        if failing:
            if o["after_k"] != o["before_k"]:
                ch = sorted(k for k in set(o["after_k"]) | set(o["before_k"]) if o["after_k"].get(k) != o["before_k"].get(k))
                viol("failing_root_modified", dict(rp, changed=ch), "files of the failing root changed: %s" % ch)
            if o["rc"] != 1:
                key = "disabled_formatting_hides_syntax_error" if c["kind"] == "disabled" else "failure_exit_status"
                viol(key, rp, "fault %s at %s: exit status %d, expected 1" % (c["kind"], c["position"], o["rc"]))
            if not o["err"].strip():
                key = "disabled_formatting_hides_syntax_error" if c["kind"] == "disabled" else "no_diagnostic"
                viol(key, rp, "fault %s at %s: nothing on stderr" % (c["kind"], c["position"]))
        # the healthy root is processed
        okc = o["ok_content"]
        for rel in ok_files:
            if okc[rel] not in (ok_files[rel], ok_fmt[rel]):
                viol("partial_file", dict(rp, file=rel), "ok/%s holds neither its original nor its formatted text" % rel)
        if c["mode"] == "files":
            done = all(okc[rel] == ok_fmt[rel] for rel in ok_files)
        elif c["mode"] == "check":
            done = all(("Diff in %s" % os.path.join(o["dir"], "ok", rel)) in o["out"] for rel in ok_files)
        else:
            done = all(ok_fmt[rel] in o["out"] for rel in ok_files)
        if c["mode"] != "files" and o["after_o"] != o["before_o"]:
            viol("healthy_root_modified", rp, "--%s modified the healthy root" % c["mode"])
        if not done:
            key = "bad_local_toml_aborts_loop" if (c["kind"] == "bad_toml" and c["order"] == "bad_first") else "healthy_root_not_formatted"
            viol(key, rp, "the healthy root named %s the failing one (%s) was not formatted" % ("after" if c["order"] == "bad_first" else "before", c["kind"]))
        if not failing and o["rc"] != (1 if c["mode"] == "check" else 0):
            viol("healthy_exit_status", rp, "no fault: exit status %d" % o["rc"])
        t = o2.get("trace")
        if t is not None and (t["rc"] != o["rc"] or t["after_k"] != o["after_k"] or t["after_o"] != o["after_o"]):
            viol("verbose_run_differs", dict(rp, rc_verbose=t["rc"]), "the --verbose run differs from the plain run in exit status or file states")

    # ---- a fault in the DEFAULT file of a module that also has a cfg_attr(path) alternative, the module being the last one
    # parsed (an error recorded earlier makes every later module fail anyway, which would hide a forgiven fault)
    pd = os.path.join(base, "cfgattr_last")
    for kname, ktext in FAULT_TEXT.items():
        for mode in MODES:
            shutil.rmtree(pd, ignore_errors=True)
            os.makedirs(pd)
            files = {"lib.rs": "#[cfg_attr(unix, path = \"unix.rs\")]\nmod plat;\n" + UNF % "x", "unix.rs": UNF % "u", "plat.rs": ktext}
            for rel, t in files.items():
                open(os.path.join(pd, rel), "w").write(t)
            before = tree_files(pd)
            pr = subprocess.run([exe] + MODES[mode] + ["lib.rs"], cwd=pd, env=env, stdout=subprocess.PIPE, stderr=subprocess.PIPE, timeout=60)
            after = tree_files(pd)
            rp = {"case": {"kind": "cfgattr_default_" + kname, "mode": mode}, "files": files, "rc": pr.returncode, "stderr": pr.stderr.decode("utf-8", "replace")[-400:]}
            nontrivial.add("cfgattr_default_%s_%s" % (kname, mode))
            if after != before:
                viol("failing_root_modified", dict(rp, changed=sorted(k for k in after if after[k] != before.get(k))), "the default file of `#[cfg_attr(unix, path = ..)] mod plat;` has a fault (%s) but files of the crate were rewritten" % kname)
            if pr.returncode != 1:
                viol("failure_exit_status", rp, "fault %s in the default file of a module with a cfg_attr(path) alternative: exit status %d, expected 1" % (kname, pr.returncode))
            if not pr.stderr.strip():
                viol("no_diagnostic", rp, "fault %s in the default file of a module with a cfg_attr(path) alternative: nothing on stderr" % kname)
    # ---- an AMBIGUOUS module (x.rs and x/mod.rs both there) inside the directory a file owns, with a further file at the location the
    # documented fallback would look at: the ambiguity is a fault all the same (no retry may forgive it)
    pd = os.path.join(base, "ambig_fallback")
    AMB = {
        "root_owns_dir": {"lib.rs": "mod x;\n" + UNF % "root", "lib/x.rs": UNF % "in_lib_x", "lib/x/mod.rs": UNF % "in_lib_x_mod", "x.rs": UNF % "sibling"},
        "child_owns_dir": {"lib.rs": "mod a;\n" + UNF % "root", "a.rs": "mod x;\n" + UNF % "a", "a/x.rs": UNF % "ax", "a/x/mod.rs": UNF % "axm", "x.rs": UNF % "sibling"},
        "child_owns_dir_modrs_fallback": {"lib.rs": "mod a;\n" + UNF % "root", "a.rs": "mod x;\n" + UNF % "a", "a/x.rs": UNF % "ax", "a/x/mod.rs": UNF % "axm", "x/mod.rs": UNF % "sibling"},
        "inline_parent": {"lib.rs": "mod a;\n" + UNF % "root", "a.rs": "mod i {\n    mod x;\n}\n" + UNF % "a", "a/i/x.rs": UNF % "aix", "a/i/x/mod.rs": UNF % "aixm", "i/x.rs": UNF % "sibling", "x.rs": UNF % "sib2"},
    }
    for aname, files in AMB.items():
        for mode in MODES:
            shutil.rmtree(pd, ignore_errors=True)
            for rel, t in files.items():
                os.makedirs(os.path.dirname(os.path.join(pd, rel)), exist_ok=True)
                open(os.path.join(pd, rel), "w").write(t)
            before = tree_files(pd)
            pr = subprocess.run([exe] + MODES[mode] + ["lib.rs"], cwd=pd, env=env, stdout=subprocess.PIPE, stderr=subprocess.PIPE, timeout=60)
            after = tree_files(pd)
            rp = {"case": {"kind": "ambiguous_with_fallback_file:" + aname, "mode": mode}, "files": files, "rc": pr.returncode, "stderr": pr.stderr.decode("utf-8", "replace")[-400:]}
            nontrivial.add("ambig_fallback_%s_%s" % (aname, mode))
            if after != before:
                viol("failing_root_modified", dict(rp, changed=sorted(k for k in after if after[k] != before.get(k))), "module x is found at both x.rs and x/mod.rs (%s) but files of the crate were rewritten" % aname)
            if pr.returncode != 1:
                viol("failure_exit_status", rp, "ambiguous module with a file at the fallback location (%s): exit status %d, expected 1" % (aname, pr.returncode))
            if not pr.stderr.strip():
                viol("no_diagnostic", rp, "ambiguous module with a file at the fallback location (%s): nothing on stderr" % aname)
    # ---- a fault BELOW a module that has two files (default file and a cfg_attr(path) alternative): the result of every branch counts
    pd = os.path.join(base, "below_multi")
    BELOW = {"missing": None, "ambiguous": "both", "unclosed": FAULT_TEXT["unclosed"], "lexer": FAULT_TEXT["lexer"], "recoverable": FAULT_TEXT["recoverable"]}
    for where in ("alt", "default"):
        for kname, ktext in BELOW.items():
            for mode in MODES:
                shutil.rmtree(pd, ignore_errors=True)
                os.makedirs(pd)
                files = {"lib.rs": "#[cfg_attr(unix, path = \"imp_unix.rs\")]\nmod imp;\n" + UNF % "root", "imp.rs": UNF % "generic", "imp_unix.rs": UNF % "unix"}
                holder = "imp_unix.rs" if where == "alt" else "imp.rs"
                files[holder] = "mod below;\n" + files[holder]
                # a file declared by imp.rs lives in imp/, one declared by imp_unix.rs (reached through path =) next to it
                bdir = "imp/" if where == "default" else ""
                if kname == "ambiguous":
                    files[bdir + "below.rs"] = UNF % "b1"
                    files[bdir + "below/mod.rs"] = UNF % "b2"
                elif ktext is not None:
                    files[bdir + "below.rs"] = ktext
                for rel, t in files.items():
                    os.makedirs(os.path.dirname(os.path.join(pd, rel)) or pd, exist_ok=True)
                    open(os.path.join(pd, rel), "w").write(t)
                before = tree_files(pd)
                pr = subprocess.run([exe] + MODES[mode] + ["lib.rs"], cwd=pd, env=env, stdout=subprocess.PIPE, stderr=subprocess.PIPE, timeout=60)
                after = tree_files(pd)
                rp = {"case": {"kind": "below_multi_file_module:%s:%s" % (where, kname), "mode": mode}, "files": files, "rc": pr.returncode, "stderr": pr.stderr.decode("utf-8", "replace")[-400:]}
                nontrivial.add("below_multi_%s_%s_%s" % (where, kname, mode))
                if after != before:
                    viol("failing_root_modified", dict(rp, changed=sorted(k for k in after if after[k] != before.get(k))), "a module below the %s file of `#[cfg_attr(unix, path = ..)] mod imp;` is %s but files of the crate were rewritten" % (where, kname))
                if pr.returncode != 1:
                    viol("failure_exit_status", rp, "fault %s below the %s file of a two-file module: exit status %d, expected 1" % (kname, where, pr.returncode))
                if not pr.stderr.strip():
                    viol("no_diagnostic", rp, "fault %s below the %s file of a two-file module: nothing on stderr" % (kname, where))
    # ---- the same failures with an explicit --config-path (main.rs takes another branch: no per-file configuration lookup)
    pd = os.path.join(base, "config_path")
    CP = {"missing_module": ({"lib.rs": "mod a;\nmod gone;\n" + UNF % "root", "a.rs": UNF % "a"}, ""),
          "unclosed_in_grandchild": ({"lib.rs": "mod a;\n" + UNF % "root", "a.rs": "mod a1;\n" + UNF % "a", "a/a1.rs": FAULT_TEXT["unclosed"]}, ""),
          "lexer_in_child": ({"lib.rs": "mod a;\n" + UNF % "root", "a.rs": FAULT_TEXT["lexer"]}, ""),
          "required_version": ({"lib.rs": "mod a;\n" + UNF % "root", "a.rs": UNF % "a"}, "required_version = \"0.0.1\"\n"),
          "root_syntax": ({"lib.rs": FAULT_TEXT["unclosed"]}, "")}
    for cname, (files, toml) in CP.items():
        for mode in MODES:
            for with_ok in (False, True):
                shutil.rmtree(pd, ignore_errors=True)
                os.makedirs(os.path.join(pd, "k"))
                os.makedirs(os.path.join(pd, "cfg"))
                open(os.path.join(pd, "cfg", "rustfmt.toml"), "w").write(toml)
                for rel, t in files.items():
                    os.makedirs(os.path.dirname(os.path.join(pd, "k", rel)), exist_ok=True)
                    open(os.path.join(pd, "k", rel), "w").write(t)
                okf = build_ok(os.path.join(pd, "ok")) if with_ok else {}
                before = tree_files(os.path.join(pd, "k"))
                args = [exe, "--config-path", os.path.join(pd, "cfg", "rustfmt.toml")] + MODES[mode] + [os.path.join(pd, "k", "lib.rs")] + ([os.path.join(pd, "ok", "main.rs")] if with_ok else [])
                pr = subprocess.run(args, cwd=pd, env=env, stdout=subprocess.PIPE, stderr=subprocess.PIPE, timeout=60)
                after = tree_files(os.path.join(pd, "k"))
                rp = {"case": {"kind": "with_config_path:" + cname, "mode": mode, "healthy_second_root": with_ok}, "files": files, "rc": pr.returncode, "stderr": pr.stderr.decode("utf-8", "replace")[-400:]}
                nontrivial.add("config_path_%s_%s_%s" % (cname, mode, with_ok))
                if after != before:
                    viol("failing_root_modified", rp, "--config-path run, fault %s: files of the failing root were rewritten" % cname)
                if pr.returncode != 1:
                    viol("failure_exit_status", rp, "--config-path run, fault %s: exit status %d, expected 1" % (cname, pr.returncode))
                if not pr.stderr.strip():
                    viol("no_diagnostic", rp, "--config-path run, fault %s: nothing on stderr" % cname)
    # ---- a path that does not exist, named BEFORE a healthy root: whatever is wrong around it (its directory missing too, a
    # malformed rustfmt.toml where it would have been) the healthy root is still formatted and the exit status is 1
    pd = os.path.join(base, "missing_first")
    for mname in ("plain", "missing_parent_dir", "bad_toml_in_its_dir"):
        for mode in MODES:
            shutil.rmtree(pd, ignore_errors=True)
            os.makedirs(os.path.join(pd, "k"))
            if mname == "bad_toml_in_its_dir":
                os.makedirs(os.path.join(pd, "k", "sub"))
                open(os.path.join(pd, "k", "sub", "rustfmt.toml"), "w").write("max_width = \"x\"\n")
            missing = {"plain": "k/nothere.rs", "missing_parent_dir": "k/nodir/nothere.rs", "bad_toml_in_its_dir": "k/sub/nothere.rs"}[mname]
            okf = build_ok(os.path.join(pd, "ok"))
            pr = subprocess.run([exe] + MODES[mode] + [os.path.join(pd, missing), os.path.join(pd, "ok", "main.rs")], cwd=pd, env=env, stdout=subprocess.PIPE, stderr=subprocess.PIPE, timeout=60)
            okc = {rel: open(os.path.join(pd, "ok", rel)).read() for rel in okf}
            out_ = pr.stdout.decode("utf-8", "replace")
            if mode == "files":
                done = all(okc[rel] == ok_fmt[rel] for rel in okf)
            elif mode == "check":
                done = all(("Diff in %s" % os.path.join(pd, "ok", rel)) in out_ for rel in okf)
            else:
                done = all(ok_fmt[rel] in out_ for rel in okf)
            rp = {"case": {"kind": "missing_path_first:" + mname, "mode": mode}, "rc": pr.returncode, "stderr": pr.stderr.decode("utf-8", "replace")[-400:]}
            nontrivial.add("missing_first_%s_%s" % (mname, mode))
            if not done:
                viol("healthy_root_not_formatted", rp, "a path that does not exist (%s) named before a healthy root: the healthy root was not formatted" % mname)
            if pr.returncode != 1:
                viol("failure_exit_status", rp, "a path that does not exist (%s): exit status %d, expected 1" % (mname, pr.returncode))
    # ---- required_version in every spelling: a requirement the running version does not meet aborts the run before anything
    # is parsed or written; one it meets changes nothing
    vout = subprocess.run([exe, "--version"], env=env, stdout=subprocess.PIPE, stderr=subprocess.PIPE, timeout=60).stdout.decode()
    vm = re.search(r"(\d+)\.(\d+)\.(\d+)", vout)
    if vm:
        V = tuple(int(x) for x in vm.groups())
        M, m, pt = V

        def lower(parts):
            return tuple(list(parts) + [0] * (3 - len(parts)))

        def bump(parts):            # the first version above every version that matches the partial version
            q = list(parts)
            q[-1] += 1
            return lower(q)

        def meets(req):
            for comp in req.split(","):
                comp = comp.strip()
                if comp == "*":
                    continue
                mo = re.match(r"^(=|>=|<=|>|<|~|\^)?\s*(\d+)(?:\.(\d+|\*))?(?:\.(\d+|\*))?$", comp)
                op = mo.group(1) or "="          # rustfmt reads a bare version as an exact requirement on the parts given
                parts = [int(x) for x in mo.groups()[1:] if x is not None and x != "*"]
                lo, hi = lower(parts), bump(parts)
                if op == "=":
                    ok = lo <= V < hi
                elif op == ">":
                    ok = V >= hi
                elif op == ">=":
                    ok = V >= lo
                elif op == "<":
                    ok = V < lo
                elif op == "<=":
                    ok = V < hi
                elif op == "~":
                    ok = lo <= V < (bump(parts[:2]) if len(parts) >= 2 else bump(parts))
                else:
                    ok = lo <= V < ((parts[0] + 1, 0, 0) if parts[0] > 0 else bump(parts[:2]) if len(parts) >= 2 else bump(parts))
                if not ok:
                    return False
            return True
        reqs = ["%d.%d.%d" % V, "%d.%d" % (M, m), "%d" % M, "%d.%d" % (M, m - 1), "%d.%d" % (M, m + 1), "%d.%d.%d" % (M, m, pt + 1), "%d.%d.%d" % (M, m - 1, 9), "%d" % (M + 1), "%d" % (M - 1),
                "=%d.%d" % (M, m - 1), ">=%d.%d" % (M, m - 1), ">%d.%d" % (M, m), "<%d.%d" % (M, m), "<=%d.%d" % (M, m), "~%d.%d" % (M, m - 1), "~%d.%d" % (M, m), "^%d.%d" % (M, m - 1), "^%d.%d" % (M, m + 1),
                "^%d" % (M + 1), "%d.*" % M, "%d.%d.*" % (M, m - 1), "*", ">=%d.%d, <%d.%d" % (M, m - 1, M, m), ">=%d.%d, <%d" % (M, m - 1, M + 1), "0.0.1"]
        pd = os.path.join(base, "reqver")
        for req in reqs:
            for mode in ("files", "check"):
                shutil.rmtree(pd, ignore_errors=True)
                os.makedirs(pd)
                files = {"rustfmt.toml": "required_version = \"%s\"\n" % req, "lib.rs": "mod a;\n" + UNF % "root", "a.rs": UNF % "a"}
                for rel, t in files.items():
                    open(os.path.join(pd, rel), "w").write(t)
                before = tree_files(pd)
                pr = subprocess.run([exe] + MODES[mode] + ["lib.rs"], cwd=pd, env=env, stdout=subprocess.PIPE, stderr=subprocess.PIPE, timeout=60)
                after = tree_files(pd)
                want_ok = meets(req)
                rp = {"case": {"kind": "required_version", "requirement": req, "running": list(V), "mode": mode}, "files": files, "rc": pr.returncode, "stderr": pr.stderr.decode("utf-8", "replace")[-400:]}
                nontrivial.add("reqver_%s_%s" % (req, mode))
                if not want_ok:
                    if after != before:
                        viol("failing_root_modified", rp, "required_version = %r is not met by %d.%d.%d but files were rewritten" % ((req,) + V))
                    if pr.returncode != 1:
                        viol("failure_exit_status", rp, "required_version = %r is not met by %d.%d.%d: exit status %d, expected 1" % ((req,) + V + (pr.returncode,)))
                    if not pr.stderr.strip():
                        viol("no_diagnostic", rp, "required_version = %r is not met: nothing on stderr" % req)
                else:
                    changed = after != before
                    if (mode == "files" and (not changed or pr.returncode != 0)) or (mode == "check" and (changed or pr.returncode != 1)):
                        viol("met_requirement_rejected", rp, "required_version = %r is met by %d.%d.%d but the run did not go ahead (exit %d)" % ((req,) + V + (pr.returncode,)))
    # ---- model: run_main on the same trees; observed traces
    exprs = []
    obs_traces = []
    for c, o2 in zip(cases, obs):
        o = o2.get("trace") or o2["plain"]
        kd = os.path.join(o["dir"], "k")
        pos = o["pos"]
        allp = sorted([os.path.join(kd, r) for r in pos.values()] + [os.path.join(o["dir"], "ok", r) for r in ok_files], key=pkey)
        num = {p: i + 1 for i, p in enumerate(allp)}
        hd = coqterm.render(c["mode"] == "check")

        def info(p, outcome="POk", ignored=False):
            return "(MkInfo %d %s false false %s (MkFres flags_zero %s false))" % (num[p], outcome, "true" if ignored else "false", hd)

        oc = {"lexer": "PLexFatal", "blockcomment": "PLexFatal", "rawstring": "PLexFatal", "unclosed": "PFatal", "missing": "PMissing", "ambiguous": "PAmbiguous", "disabled": "PLexFatal", "recoverable": "PRecoverable", "ignored_sibling": "PRecoverable"}
        def out_of(position):
            if c["kind"] == "ignored_sibling" and position in ("first", "last"):
                # the diagnostics of an ignored file are silenced and reset (SilentOnIgnoredFilesEmitter +
                # can_reset_errors): parse_file_as_module returns its recovered tree, i.e. the outcome is POk
                return "PRecoverable" if position == c["position"] else "POk"
            return oc[c["kind"]] if (c["kind"] in oc and c["position"] == position) else "POk"
        def ign(position):
            return c["kind"] == "ignored_sibling" and position in ("first", "last") and position != c["position"]
        P = {k: os.path.join(kd, v) for k, v in pos.items()}
        tree = "(Node %s [Node %s [Node %s []]; Node %s []; Node %s []])" % (
            info(P["root"], out_of("root")), info(P["first"], out_of("first"), ign("first")), info(P["grand"], out_of("grand")),
            info(P["last"], out_of("last"), ign("last")), info(P["cfgif"], out_of("cfgif")))
        okd = os.path.join(o["dir"], "ok")
        oktree = "(Node %s [Node %s []])" % (info(os.path.join(okd, "main.rs")), info(os.path.join(okd, "h.rs")))
        load = {"bad_toml": "LocalErr", "version": "(LocalOk (MkCfg false false true false))",
                "disabled": "(LocalOk (MkCfg true true true false))"}.get(c["kind"], "(LocalOk (MkCfg true false true false))")
        exists = coqterm.render(c["kind"] != "missing_path")
        isdir = coqterm.render(c["kind"] == "directory")
        bad = "(MkRoot %s %s %s %s)" % (exists, isdir, load, tree)
        good = "(MkRoot true false (LocalOk (MkCfg true false true false)) %s)" % oktree
        rs = [bad, good] if c["order"] == "bad_first" else [good, bad]
        exprs.append("(let x := run_main (Some (MkCfg true false true false)) %s [%s] in (map (map enc_ev) (fst x), snd x))" % (coqterm.render(c["mode"] == "check"), "; ".join(rs)))
        if o2.get("trace") is not None:
            t = o2["trace"]
            per = observed_trace(t["strace"], t["err"], t["roots"], t["faulty_abs"], c["kind"], c["position"])
            err = t["err"]
            fail_ev = None
            if c["kind"] == "bad_toml":
                fail_ev = [0, None]
            elif c["kind"] == "version":
                fail_ev = [1, None]
            elif c["kind"] in ("missing_path", "directory"):
                fail_ev = [2, None]
            elif "failed to resolve mod" in err:
                fail_ev = [6, None]
            elif c["kind"] in ("lexer", "unclosed", "blockcomment", "rawstring", "recoverable") and c["position"] == "root" and re.search(r"\berror\b", err):
                fail_ev = [4, None]
            if fail_ev is not None:
                per[t["bad_root"]].append(fail_ev)
            seq = []
            for r in t["roots"]:
                evs = [[code, (num.get(p, 0) if p else 0)] for code, p in per[r]]
                seq.append(evs)
            obs_traces.append(seq)
        else:
            obs_traces.append(None)
    model = None
    try:
        model = common.run_coq_cases("From V Require Import Base.Text C20.Model C06.Model C05.Model C05.Run.\nOpen Scope N_scope.", "", exprs, "c05", per_file=40)
    except Exception as ex:
        log("C05: model evaluation failed: %s" % str(ex)[-1000:])
    disagreements = []
    validated = 0
    acc_exprs = []
    if model is not None:
        for c, o2, m, seq in zip(cases, obs, model, obs_traces):
            if c["a_style"] == "cfgattr":
                continue          # the model's tree has no node for the cfg_attr alternative: judged by the oracle only
            mt, mexit = coqterm.plain(m)
            o = o2["plain"]
            if mexit != o["rc"]:
                disagreements.append({"what": "exit", "case": c, "impl": o["rc"], "model": mexit})
            validated += 1
            if seq is not None:
                canon = lambda trs: [[[4 if e[0] == 5 else e[0], e[1]] for e in tr] for tr in trs if tr]
                if canon(seq) != canon(mt):
                    disagreements.append({"what": "trace", "case": c, "impl": canon(seq), "model": canon(mt)})
                validated += 1
                for tr in seq:
                    acc_exprs.append("(run_accepts %s, run_failure_and_emit %s)" % (coqterm.render([tuple(e) for e in tr]), coqterm.render([tuple(e) for e in tr])))
        try:
            acc = common.run_coq_cases("From V Require Import Base.Text C20.Model C06.Model C05.Model C05.Run.\nOpen Scope N_scope.", "", acc_exprs, "c05acc", per_file=80)
            for e, a in zip(acc_exprs, acc):
                a = coqterm.plain(a)
                if a[0] is not True or a[1] is not False:
                    disagreements.append({"what": "monitor", "trace": e[:300], "accepts": a[0], "failure_and_emit": a[1]})
        except Exception as ex:
            model = None
            log("C05: monitor evaluation failed: %s" % str(ex)[-1000:])
    shutil.rmtree(base, ignore_errors=True)
    for dg in disagreements[:5]:
        log("C05 disagreement: %r" % (dg,))
    tie_broken = (not cr.ok) or model is None or disagreements
    if tie_broken and found[0] == 0:
        what = []
        if not cr.ok:
            what.append("theorems of coq/C05/Props.v no longer check (%s %s %s)" % (cr.failed_files, cr.hygiene, cr.bad_assumptions))
        if model is None:
            what.append("model could not be evaluated")
        if disagreements:
            what.append("correspondence broken on %d of %d comparisons, first: %r" % (len(disagreements), validated, disagreements[0]))
        rep.violation("tie", {"broken": what, "first_disagreements": disagreements[:3]}, "; ".join(what)[:2000], no_input=True)
    rep.coverage.update({
        "evaluations": len(cases) * (2 if have_strace else 1),
        "distinct_nontrivial": len(nontrivial),
        "exhaustive": tier != "quick",
        "rule": "fault kinds {unterminated string, unclosed delimiter, recoverable syntax error} x position {root, first child, last child, grandchild, inside cfg_if!}, unterminated block comment x {root, first child}, unterminated raw string x {root, grandchild}, {missing module file, both x.rs and x/mod.rs} x {first, last, grandchild, cfg_if}, a recoverable syntax error next to an `ignore`d sibling that has one too (both orders), every parse fault in the default file of a module that also has a cfg_attr(path) alternative and is the last module parsed, bad rustfmt.toml, required_version mismatch, missing path, directory as input, disable_all_formatting with a syntax error, no fault; module layouts a in {a.rs, a/mod.rs, #[path], a.rs with a cfg_attr(path) alternative} x b in {b.rs, b/mod.rs} (quick: one random layout per fault, thorough: all); x {files, --check, --emit stdout}; a healthy second root (2 files) on the same command line, named after the failing one (and before it for bad rustfmt.toml / root syntax error); every run twice: plain (oracle: sha256 of every file, exit status, stderr, healthy root formatted, no partial file) and under strace --verbose (event trace). No input known that makes the rustc parser panic: PPanic is not exercised on the implementation. non-trivial = a fault is injected",
        "samples": cases[:2] + cases[len(cases) // 2:len(cases) // 2 + 2] + cases[-1:],
        "correspondence_disagreements": len(disagreements),
        "traces_validated_against_impl": validated,
        "monitor_traces": len(acc_exprs),
        "strace": have_strace,
        "bins_build_s": round(bt, 1),
    })
    return rep.finish()
