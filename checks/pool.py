"""The committed program pool (corpus/pool = copy of /repo/tests/{source,target}/**/*.rs at the pinned
commit) and the configuration grid for the whole-program properties."""
import os
import re

from . import common

POOL = os.path.join(common.VERIF, "corpus", "pool")
_hdr = re.compile(r"^\s*//\s*rustfmt-([^:]+):\s*(\S+)")
_sig = re.compile(r"(^\s*$)|(^\s*//\s*rustfmt-[^:]+:\s*\S+)")

# header keys that are not plain config options or that change what is formatted in ways the
# whole-program oracles do not handle
SKIP_KEYS = {"config", "file_lines", "emit_mode", "ignore", "skip_children", "required_version",
             "disable_all_formatting", "format_generated_files", "show_parse_errors", "error_on_line_overflow",
             "error_on_unformatted", "recursive", "print_misformatted_file_names", "unstable_features", "make_backup", "verbose"}


def header_config(text):
    cfg = []
    for line in text.split("\n"):
        if not _sig.search(line):
            continue
        m = _hdr.match(line)
        if m:
            cfg.append([m.group(1), m.group(2)])
    return cfg


_pool = None


def load():
    """[{id, text, header}] sorted by id; files whose header uses a SKIP_KEYS option are left out"""
    global _pool
    if _pool is not None:
        return _pool
    out = []
    for root, _, files in os.walk(POOL):
        for f in sorted(files):
            if not f.endswith(".rs"):
                continue
            p = os.path.join(root, f)
            rel = os.path.relpath(p, POOL)
            try:
                text = open(p, encoding="utf-8").read()
            except UnicodeDecodeError:
                continue
            hdr = header_config(text)
            if any(k in SKIP_KEYS for k, _ in hdr):
                continue
            out.append({"id": rel, "text": text, "header": hdr})
    out.sort(key=lambda x: x["id"])
    _pool = out
    return out


def merged(header, overrides):
    """header config with overrides applied (later wins); style_edition/version conflicts resolved by dropping
    the header's `version` when style_edition is overridden"""
    d = []
    keys = {k for k, _ in overrides}
    for k, v in header:
        if k in keys:
            continue
        if k == "version" and "style_edition" in keys:
            continue
        d.append([k, v])
    return d + [list(x) for x in overrides]


def shard(items, seed, nshards):
    """the seed picks which shard of the pool a quick run covers"""
    k = seed % nshards
    return [x for i, x in enumerate(items) if i % nshards == k]


def accepted(r):
    """rustfmt reported success: output produced, no error flag, nothing in the report"""
    return (isinstance(r, dict) and r.get("out") is not None and r.get("flags", {}).get("no_errors") is True
            and not r.get("report") and "panic" not in r and "timeout" not in r and "crash" not in r)


# ----------------------------------------------------------------------------
# layouts: re-render a program by rewriting only its existing white-space tokens


def relayout(tokens, mode, rnd=None):
    """tokens: [[kind, text]..] from the lexer.  Only existing `ws` tokens are rewritten (never inserted or
    removed, so token adjacency -- `>>`, `..=`, `'a` -- is preserved); a line comment keeps a newline after it.
    mode: 'lines' (every gap a newline), 'flat' (every gap one space), 'random', 'tabs' (leading blanks -> tabs),
    'crlf' (LF -> CRLF), 'blank' (every newline doubled), 'ffblank' (half of the line breaks become runs of blank lines holding a form feed / vertical tab / U+2028)."""
    out = []
    prev_kind = None
    for kind, text in tokens:
        if kind == "ws":
            after_lc = prev_kind in ("lc", "dlo", "dli")
            if mode == "lines":
                text = "\n"
            elif mode == "flat":
                text = "\n" if (after_lc or "\n\n" in text) else " "
            elif mode == "random":
                k = rnd.random()
                text = "\n" if (k < 0.35 or after_lc) else (" " if k < 0.8 else ("\n\n" if k < 0.9 else "  \t "))
            elif mode == "tabs":
                text = text.replace("    ", "\t")
            elif mode == "crlf":
                text = text.replace("\r\n", "\n").replace("\n", "\r\n")
            elif mode == "blank":
                text = text.replace("\n", "\n\n")
            elif mode == "ffblank":
                # blank runs holding white space other than LF / CR / space / tab: form feed (page break), vertical tab, U+2028
                if "\n" in text and rnd.random() < 0.5:
                    text = text.replace("\n", "\n" + rnd.choice(["\x0c", "\x0b", "\u2028", " \x0c "]) + "\n\n\n", 1)
        out.append(text)
        prev_kind = kind
    return "".join(out)
