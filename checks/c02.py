"""C02 — formatting is idempotent."""
import json

from . import common, pool
from .common import log

import re
PROP = "C02"
TRUSTED = [
    "Coq 8.16.1 kernel; the theorems of coq/C02/Props.v (31) are fixed-point statements about the passes modelled for other properties: stable sort of a sorted list, range normalisation, and the import pipeline of coq/C10 (normalize_idem, regroup_idem_* for Preserve / Item / Module, pipeline_idem_from_regroup, with _refuted witnesses for Crate / One / self chains / repeated imports); the blank-line clamp, trailing-newline cut and newline conversion fixed points are in coq/C08: Closed under the global context",
    "the import model is tied to the code by C10's correspondence run; here the _refuted witnesses are replayed on the implementation on every run",
    "idempotence of the whole formatter is NOT a theorem: it is searched on the committed pool x configuration grid x re-layouts (every accepted output is formatted again, in process)",
    "in-process formatting through Session::format(Input::Text) (hook-free public API)",
]
WIDTHS_QUICK = ["30", "50", "80", "100", "120", "200"]
WIDTHS_ALL = ["20", "25", "30", "37", "40", "50", "60", "72", "80", "100", "120", "160", "200"]
PRESETS = {
    "base": [],
    "se2024": [["style_edition", "2024"]],
    "tabs": [["hard_tabs", "true"], ["tab_spaces", "2"]],
    "compact": [["use_small_heuristics", "Max"], ["fn_params_layout", "Compressed"], ["brace_style", "AlwaysNextLine"]],
    "imports": [["imports_granularity", "Crate"], ["group_imports", "StdExternalCrate"], ["reorder_impl_items", "true"]],
    "comments": [["wrap_comments", "true"], ["normalize_comments", "true"], ["format_code_in_doc_comments", "true"]],
    "vertical": [["use_small_heuristics", "Off"], ["match_block_trailing_comma", "true"], ["trailing_comma", "Always"], ["struct_lit_single_line", "false"]],
}
LAYOUTS = ["orig", "lines", "flat", "random", "crlf", "blank"]
# the registered grid (the larger lists above are for the unregistered soak: VERIF_SOAK=1)
GRID_WIDTHS = ["30", "50", "80", "100", "120", "200"]
GRID_PRESETS = ["base", "se2024", "comments", "imports"]
GRID_LAYOUTS = ["orig", "lines", "random"]


# (theorem of coq/C02/Props.v, imports_granularity, input)
WITNESSES = [
    ("normalize_idem_refuted", "Preserve", "use a::self::self;\n"),
    ("regroup_idem_selfchain_refuted", "Crate", "use a::self::self;\n"),
    ("regroup_idem_item_refuted", "Item", "use a::{b::self::self /*c*/, c};\n"),
    ("regroup_idem_module_refuted", "Module", "use a::b::c;\nuse a::b::d;\nuse a::b::c;\n"),
    ("regroup_idem_crate_refuted", "Crate", "use b;\nuse b::{self, a};\n"),
    ("regroup_idem_crate_bare_self_refuted", "Crate", "use {self, a};\n"),
    ("regroup_idem_one_refuted", "One", "use a::b;\nuse a::b::c;\nuse a;\n"),
    ("regroup_idem_nested_empty", "Crate", "use a::{self, b::{}};\n"),
]


HEAD_PREFIXES = ["", "\n", "  \n", "\t\n", " \n \n", "\n  \n", "\r\n", " \r\n", "\n\n\n"]
HEAD_FIRSTS = ["// leading comment\nfn a() {}\n", "/* block */\nfn a() {}\n", "//! inner doc\nfn a() {}\n", "#![allow(dead_code)]\nfn a() {}\n",
               "fn a() {}\n", "use a::b;\nfn a() {}\n", "mod m {}\n", "/// outer doc\nfn a() {}\n", "#[inline]\nfn a() {}\n", "// only a comment\n"]
HEAD_TAILS = ["", "\n", "  \n", "\n\n", "  ", "\t\n// trailing\n", "\n  \n// trailing\n  \n", "\r\n"]
LIT_OPTIONS = [(), ("float_literal_trailing_zero", "Always"), ("float_literal_trailing_zero", "IfNoPostfix"), ("float_literal_trailing_zero", "Never"),
               ("float_literal_trailing_zero", "Preserve"), ("hex_literal_case", "Upper"), ("hex_literal_case", "Lower"), ("hex_literal_case", "Preserve")]
LIT_SPELLINGS = ["1.", "1.0", "1e3", "1.5e3", "1f32", "1.0f64", "1_000.", "0.", "2.50", "0x1f", "0xAB", "0b1", "1", "1.0e-7", "1.E3", "1.00_f32"]
LIT_CONTEXTS = ["let v = A..B;", "let v = A..=B;", "let v = A..;", "let v = ..A;", "let v = A .. B;", "let v = A.neg();", "let v = A .neg();", "let v = -A;", "let v = A + B;",
                "let v = A as f64;", "let v = (A, B);", "let v = [A; 3];", "let v = f(A, B);", "let v = A.max(B);", "let v = -A..-B;", "let v = x + A..y - B;",
                "if let A..=B = v {}", "for _ in (A..B).step_by(2) {}"]


def cfg_id(over):
    return ",".join("%s=%s" % (k, v) for k, v in over) or "default"


def first_diff(a, b):
    la, lb = a.split("\n"), b.split("\n")
    for i, (x, y) in enumerate(zip(la, lb)):
        if x != y:
            return i + 1, x, y
    return min(len(la), len(lb)) + 1, "", ""


def run(tier, seed, replay):
    rep = common.Reporter(PROP, tier, seed, "proof")
    rep.assumptions = TRUSTED
    import os
    dirs = [d for d in ["C02", "C08", "C10", "C11", "C17"] if os.path.isdir(os.path.join(common.COQ, d))]
    cr = common.coq_phase(dirs, "C02/Props.v")
    common.coq_coverage(rep, cr, "cd coq && make C02/Props.vo && coqc -Q . V C02/Props.v (+ hygiene grep, Print Assumptions allow-list)", TRUSTED)
    if not cr.ok:
        log("C02 proof phase failed: %s %s %s\n%s" % (cr.hygiene, cr.bad_assumptions, cr.failed_files, cr.build_log[-1500:]))
    ok, blog, bt = common.build_harness()
    if not ok:
        raise RuntimeError("harness build failed:\n" + blog)
    P = pool.load()
    widths, presets, layouts = GRID_WIDTHS, GRID_PRESETS, GRID_LAYOUTS
    # the explored space is the fixed grid pool x layouts x presets x widths; `thorough` runs all of it,
    # `quick` the slice selected by the seed (1/MOD of the grid)
    MOD = 12
    want = seed % MOD
    need_lex = set()
    sel = []
    for p in P:
        for lay in layouts:
            for pr in presets:
                for w in widths:
                    if tier == "thorough" or hash_i("%s|%s|%s|%s" % (p["id"], lay, pr, w)) % MOD == want:
                        sel.append((p, lay, pr, w))
                        if lay != "orig":
                            need_lex.add(p["id"])
    if replay:
        rp = json.load(open(replay))
        sel = [(p, lay, pr, w) for (p, lay, pr, w) in
               [(p, rp["layout"], rp["preset"], rp["width"]) for p in P if p["id"] == rp["pool_id"]]]
        need_lex = {rp["pool_id"]}
    lex_in = [p for p in P if p["id"] in need_lex]
    lexed = dict(zip([p["id"] for p in lex_in], common.run_vh_pool("lex", [{"text": p["text"]} for p in lex_in], per_case_timeout=20)))
    import random
    cases, meta = [], []
    texts = {}
    for p, lay, pr, w in sel:
        tk = (p["id"], lay)
        if tk not in texts:
            if lay == "orig":
                texts[tk] = p["text"]
            else:
                toks = lexed.get(p["id"])
                texts[tk] = pool.relayout(toks, lay, random.Random("%s-%s" % (p["id"], lay))) if isinstance(toks, list) else None
        if texts[tk] is None:
            continue
        over = [["max_width", w]] + PRESETS[pr]
        cases.append({"text": texts[tk], "config": pool.merged(p["header"], over), "again": True, "lex": False})
        meta.append((p["id"], lay, pr, w))
    # the synthetic forms of C01 (statement / pattern / expression / item forms x layout presets x every width)
    if not replay or json.load(open(replay)).get("pool_id", "").startswith("synth/"):
        from . import c01
        for name, si, w, text, cfg in c01.synth_cases(tier, seed + 3):
            if replay and ("synth/" + name != rp["pool_id"] or str(rp["width"]) != w or rp["preset"] != "syn%d" % si):
                continue
            cases.append({"text": text, "config": cfg, "again": True, "lex": False})
            meta.append(("synth/" + name, "orig", "syn%d" % si, w))
    # the witnesses of the `_refuted` theorems of coq/C02/Props.v (the import pipeline is not a fixed point of itself on
    # them), replayed on the implementation: each is a recorded finding, keyed by the theorem
    if not replay or json.load(open(replay)).get("pool_id", "").startswith("witness/"):
        for name, gran, text in WITNESSES:
            cases.append({"text": text, "config": [["imports_granularity", gran]], "again": True, "lex": False})
            meta.append(("witness/" + name, "orig", gran, "100"))
    # import runs: C11's generated groups (nested lists with repeated leading segments and entries not yet normalised,
    # large groups with alias-only pairs, plain lists).  The declaration groups of C10's generator are NOT used here:
    # on them the unchanged tree is not idempotent in several ways that belong to C10's recorded classes (duplicate
    # entries of one list are removed only by the second pass, a comment inside a list leaves `{ c,` that the second
    # pass tightens, ...); their instances depend on the random case, so they cannot be listed as known findings
    if not replay or json.load(open(replay)).get("pool_id", "").startswith("imports/"):
        from . import c11
        k = 0
        for c in c11.gen_cases(tier, seed + 5):
            if c.get("form") in ("use_nested", "use_large", "uselist", "use"):
                for t in c["texts"][:3]:
                    k += 1
                    cases.append({"text": t, "config": c["config"], "again": True, "lex": False})
                    meta.append(("imports/c11.%d" % k, "orig", c["form"], "100"))
    # lists whose elements carry trailing comments (of different widths, so that their alignment is in play), with and without a blank
    # line between two commented elements, under both style-edition families; attributes followed by a comment on the same line
    if not replay or json.load(open(replay)).get("pool_id", "").startswith("clist/"):
        from . import c03
        k = 0
        for li, (wrap, pre, elems, suf) in enumerate(c03.LIST_FORMS):
            for blank in (False, True):
                for style in ("line", "block"):
                    rows = []
                    for ei, el in enumerate(elems):
                        cm = ("// note %d %s" % (ei, "x" * (3 * ei))) if style == "line" else ("/* note %d %s */" % (ei, "x" * (3 * ei)))
                        rows.append("    %s, %s" % (el, cm))
                        if blank and ei == 0:
                            rows.append("")
                    inner = pre + "\n" + "\n".join(rows) + "\n" + suf
                    text = (wrap % inner) if wrap else inner + "\n"
                    for se in ("2015", "2024"):
                        for w in ("100", "60", "40"):
                            k += 1
                            if tier != "thorough" and (k + seed) % 2:
                                continue
                            cases.append({"text": text, "config": [["style_edition", se], ["max_width", w]], "again": True, "lex": False})
                            meta.append(("clist/%d.%s.%s" % (li, "blank" if blank else "tight", style), "orig", "se" + se, w))
        ATTR_ITEMS = ["#[cfg(feature = \"some_feature_name\")] /* why this import is conditional */ use some_crate::some_module::SomeItemName;",
                      "#[macro_use] /* the macros of the crate */ extern crate some_long_crate_name_for_macros;",
                      "#[path = \"some/long/path/to/module_file.rs\"] /* lives elsewhere */ mod relocated_module_name;",
                      "#[derive(Debug, Clone)] /* plain data */ struct PlainData { first_field: u32, second_field: u32 }",
                      "#[inline] // hot path\nfn hot_path_function(argument_one: u32) -> u32 { argument_one }"]
        for ai, it in enumerate(ATTR_ITEMS):
            for nest in (0, 1):
                text = it + "\n" if not nest else "mod m {\n    " + it.replace("\n", "\n    ") + "\n}\n"
                for w in range(30, 121):
                    if tier != "thorough" and (w + ai + seed) % 3:
                        continue
                    cases.append({"text": text, "config": [["max_width", str(w)]], "again": True, "lex": False})
                    meta.append(("clist/attr%d.n%d" % (ai, nest), "orig", "base", str(w)))
    # the head and the tail of a file: blank / white-space-only lines (LF and CRLF) before the first thing of each kind and after the last
    if not replay or json.load(open(replay)).get("pool_id", "").startswith("head/"):
        for pi, pre in enumerate(HEAD_PREFIXES):
            for fi, first in enumerate(HEAD_FIRSTS):
                for ti, tail in enumerate(HEAD_TAILS):
                    if tier != "thorough" and ti and (pi + fi + ti + seed) % 3:
                        continue
                    cases.append({"text": pre + first + tail, "config": [], "again": True, "lex": False})
                    meta.append(("head/%d.%d.%d" % (pi, fi, ti), "orig", "base", "100"))
    # every literal spelling in every operator context under every value of the options that rewrite literals
    if not replay or json.load(open(replay)).get("pool_id", "").startswith("lit/"):
        for oi, opt in enumerate(LIT_OPTIONS):
            for ci, ctxt in enumerate(LIT_CONTEXTS):
                for ai, a in enumerate(LIT_SPELLINGS):
                    for b in (LIT_SPELLINGS[0], a):
                        if tier != "thorough" and (oi + ci + ai + seed) % 2 and not (a.endswith(".") and oi in (1, 2, 3, 5)):
                            continue
                        # one statement per file (a spelling that does not lex in a context must not hide the others); `1.` directly
                        # before `..` / `.name` would lex differently, so it gets the space a programmer has to write there
                        st = re.sub(r"(A|B)(?=\.)", lambda m: m.group(1) + " ", ctxt) if (a.endswith(".") or b.endswith(".")) else ctxt
                        st = st.replace("A", a).replace("B", b)
                        cases.append({"text": "fn literals() {\n    " + st + "\n}\n", "config": [list(opt)] if opt else [], "again": True, "lex": False})
                        meta.append(("lit/%d.%d.%d%s" % (oi, ci, ai, "" if b == a else "m"), "orig", "=".join(opt) if opt else "base", "100"))
    res = common.run_vh_pool("pool", cases, per_case_timeout=15)
    n_acc = 0
    nontrivial = set()
    found = 0
    samples = []
    for (pid, lay, pr, w), c, r in zip(meta, cases, res):
        cid = "%s/w%s" % (pr, w)
        if not pool.accepted(r) or r["out"] == "":
            continue
        n_acc += 1
        if r["out"] != c["text"]:
            nontrivial.add((pid, lay, cid))
        base = {"pool_id": pid, "layout": lay, "preset": pr, "width": w, "config": c["config"], "input": c["text"], "out1": r["out"]}
        if r.get("out2") is None or not pool.accepted({"out": r.get("out2"), "flags": r.get("flags2", {}), "report": ""}):
            key = "refmt_rejected:%s" % pid
            base["flags2"] = r.get("flags2")
            if rep.violation(key, base, "rustfmt's own output is not accepted by rustfmt (%s, layout %s, %s)" % (pid, lay, cid)):
                found += 1
            continue
        if r["out2"] != r["out"]:
            ln, x, y = first_diff(r["out"], r["out2"])
            key = "nonidem:%s:%s" % (pid, sig(x, y)) if not pid.startswith("witness/") else "nonidem_" + pid
            base.update({"out2": r["out2"], "first_diff": {"line": ln, "pass1": x, "pass2": y}})
            if rep.violation(key, base, "format(format(x)) != format(x) for %s layout %s config %s: line %d %r -> %r" % (pid, lay, cid, ln, x, y)):
                found += 1
        if len(samples) < 4 and r["out"] != c["text"]:
            samples.append({"pool_id": pid, "layout": lay, "config": cid, "bytes_in": len(c["text"]), "bytes_out": len(r["out"])})
    if not cr.ok and found == 0:
        rep.violation("tie", {"broken": "theorems of coq/C02/Props.v no longer check", "failed": cr.failed_files, "hygiene": cr.hygiene, "assumptions": cr.bad_assumptions},
                      "C02 pass fixed-point theorems no longer check", no_input=True)
    rep.coverage.update({
        "evaluations": len(cases), "accepted_and_reformatted": n_acc, "distinct_nontrivial": len(nontrivial),
        "rule": "fixed grid: committed pool (%d programs) x layouts %s (re-layouts rewrite only existing white-space tokens, deterministically per program) x presets %s x max_width %s; thorough = the whole grid, quick = the 1/%d slice selected by the seed; plus generated import runs (C11's nested lists with repeated leading segments, large groups with alias-only pairs, plain lists), plus the synthetic forms stream of C01 (statement / pattern / expression / item forms x 6 layout presets x every max_width 20..130; quick: one width in six); each accepted output is formatted again under the same configuration and must be byte-identical and accepted; non-trivial = first pass changed the text; distinct by (program, layout, config)" % (len(P), layouts, presets, widths, MOD),
        "samples": samples or [{"note": "no case changed the text"}],
        "programs": len(P),
        "timeouts": sum(1 for r in res if isinstance(r, dict) and "timeout" in r),
        "crashes": sum(1 for r in res if isinstance(r, dict) and ("crash" in r or "panic" in r)),
        "harness_build_s": round(bt, 1),
    })
    return rep.finish()


def sig(x, y):
    """signature of a non-idempotence: the first differing line of the two passes, white space removed"""
    import hashlib
    return hashlib.sha1(("".join(x.split()) + "->" + "".join(y.split())).encode()).hexdigest()[:8]


def hash_i(s):
    import hashlib
    return int(hashlib.sha1(s.encode()).hexdigest()[:8], 16)
