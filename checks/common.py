"""Shared machinery of the /verif checks: Coq build + hygiene gate, harness
build, model evaluation inside Coq (cases.v + vm_compute), evidence files,
known findings, violation reporting."""
import hashlib
import json
import os
import random
import re
import shutil
import subprocess
import sys
import time
from concurrent.futures import ThreadPoolExecutor

from . import coqterm

VERIF = os.path.dirname(os.path.dirname(os.path.abspath(__file__)))
REPO = "/repo"
COQ = os.path.join(VERIF, "coq")
CACHE = os.path.join(VERIF, ".cache")
EVID = os.path.join(VERIF, "evidence")
REPLAY = os.path.join(EVID, "replay")
TARGET = os.path.join(CACHE, "target")
NCPU = os.cpu_count() or 4

FORBIDDEN = re.compile(
    r"\b(Admitted|admit|Axiom|Axioms|Parameter|Parameters|Conjecture|Conjectures|Abort All)\b"
    r"|Unset\s+Guard|Unset\s+Positivity|Unset\s+Universe|bypass_check|type-in-type|impredicative-set"
    r"|Admit\s+Obligations|native_compute"
)
# Variable / Hypothesis are allowed only inside sections; checked separately.

ALLOWED_AXIOMS = set()  # axioms (from the standard library) a theorem may depend on; filled per property


def log(*a):
    print(*a, file=sys.stderr, flush=True)


def sh(cmd, cwd=None, timeout=None, env=None, input=None):
    e = dict(os.environ)
    if env:
        e.update(env)
    p = subprocess.run(cmd, cwd=cwd, timeout=timeout, env=e, input=input,
                       stdout=subprocess.PIPE, stderr=subprocess.PIPE, text=True,
                       shell=isinstance(cmd, str))
    return p.returncode, p.stdout, p.stderr


def toolchain_lib():
    import glob
    g = sorted(glob.glob("/root/.rustup/toolchains/nightly-2025-04-02-*/lib"))
    return g[0] if g else ""


def rust_env():
    # RUSTC_ICE=0: the ICE hook of the rustfmt binary must not drop rustc-ice-*.txt files into the working directory
    e = {"CARGO_NET_OFFLINE": "true", "CARGO_TARGET_DIR": TARGET, "RUST_BACKTRACE": "0", "RUSTC_ICE": "0"}
    ld = toolchain_lib()
    if ld:
        e["LD_LIBRARY_PATH"] = ld + (":" + os.environ["LD_LIBRARY_PATH"] if os.environ.get("LD_LIBRARY_PATH") else "")
    return e


# ----------------------------------------------------------------------------
# Coq


class CoqResult:
    def __init__(self):
        self.built = False
        self.build_log = ""
        self.hygiene = []          # offending lines
        self.theorems = []         # [(name, statement)]
        self.assumptions = {}      # name -> "closed" | [axioms]
        self.bad_assumptions = {}  # name -> [axioms not allowed]
        self.failed_files = []
        self.wall = 0.0

    @property
    def obligations(self):
        return len(self.theorems)

    @property
    def discharged(self):
        if not self.built or self.hygiene:
            return 0
        return sum(1 for (n, _) in self.theorems
                   if n in self.assumptions and n not in self.bad_assumptions)

    @property
    def ok(self):
        return self.built and not self.hygiene and self.obligations > 0 and self.discharged == self.obligations


def coq_project_files():
    out = []
    for root, _, files in os.walk(COQ):
        for f in files:
            if f.endswith(".v"):
                out.append(os.path.relpath(os.path.join(root, f), COQ))
    return sorted(out)


def write_coqproject():
    files = [f for f in coq_project_files() if not f.startswith("cases/")]
    lines = ["-Q . V",
             "-arg -w -arg -notation-overridden,-deprecated-hint-without-locality,-deprecated-instance-without-locality,-ambiguous-paths"]
    lines += files
    p = os.path.join(COQ, "_CoqProject")
    new = "\n".join(lines) + "\n"
    old = open(p).read() if os.path.exists(p) else ""
    if new != old or not os.path.exists(os.path.join(COQ, "Makefile")):
        open(p, "w").write(new)
        rc, o, e = sh(["coq_makefile", "-f", "_CoqProject", "-o", "Makefile"], cwd=COQ, timeout=120)
        if rc != 0:
            raise RuntimeError("coq_makefile failed: " + e)


def hygiene_scan(dirs):
    """forbidden vernacular anywhere in the given coq sub-directories"""
    bad = []
    for f in coq_project_files():
        if not any(f.startswith(d + "/") for d in dirs):
            continue
        src = open(os.path.join(COQ, f)).read()
        stripped = strip_comments(src)
        depth = 0
        for ln, line in enumerate(stripped.split("\n"), 1):
            if FORBIDDEN.search(line):
                bad.append("%s:%d: %s" % (f, ln, line.strip()))
            if re.match(r"\s*Section\b", line):
                depth += 1
            if re.match(r"\s*End\b", line) and depth > 0:
                depth -= 1
            if depth == 0 and re.match(r"\s*(Variable|Variables|Hypothesis|Hypotheses|Context)\b", line):
                bad.append("%s:%d: %s (outside a section)" % (f, ln, line.strip()))
    return bad


def strip_comments(src):
    out = []
    i = 0
    depth = 0
    n = len(src)
    in_str = False
    while i < n:
        c = src[i]
        if depth == 0 and c == '"':
            in_str = not in_str
            out.append(c)
            i += 1
            continue
        if not in_str and src.startswith("(*", i):
            depth += 1
            i += 2
            continue
        if not in_str and depth > 0 and src.startswith("*)", i):
            depth -= 1
            i += 2
            continue
        if depth == 0:
            out.append(c)
        elif c == "\n":
            out.append(c)
        i += 1
    return "".join(out)


_thm = re.compile(r"^\s*Theorem\s+([A-Za-z_0-9']+)", re.M)


def coq_phase(prop_dirs, props_file, timeout=1500):
    """Build the .vo files for prop_dirs (plus Base, Gen), run the hygiene gate, then
    re-check props_file with coqc and read its Print Assumptions output."""
    t0 = time.time()
    r = CoqResult()
    write_coqproject()
    dirs = ["Base"] + list(prop_dirs)      # regenerated files live in Gen/<property>/ and are listed by the check that owns them
    files = [f for f in coq_project_files() if any(f.startswith(d + "/") for d in dirs)]
    targets = [f + "o" for f in files]
    rc, o, e = sh(["make", "-j%d" % NCPU, "-k"] + targets, cwd=COQ, timeout=timeout)
    r.build_log = (o + e)[-6000:]
    r.built = rc == 0
    for m in re.finditer(r'File "\./([^"]+)", line (\d+)', o + e):
        if m.group(1) not in r.failed_files:
            r.failed_files.append(m.group(1))
    r.hygiene = hygiene_scan(dirs)
    psrc = strip_comments(open(os.path.join(COQ, props_file)).read())
    for m in _thm.finditer(psrc):
        r.theorems.append((m.group(1), ""))
    if r.built:
        # re-check the property theorems now and capture Print Assumptions
        rc, o, e = sh(["coqc", "-Q", ".", "V", "-w", "-notation-overridden,-deprecated-hint-without-locality,-deprecated-instance-without-locality,-ambiguous-paths",
                       props_file], cwd=COQ, timeout=timeout)
        if rc != 0:
            r.built = False
            r.build_log += "\n" + (o + e)[-3000:]
        else:
            r.assumptions = parse_assumptions(o, [n for n, _ in r.theorems])
            for n, a in r.assumptions.items():
                if a != "closed":
                    bad = [x for x in a if x.split(":")[0].strip() not in ALLOWED_AXIOMS]
                    if bad:
                        r.bad_assumptions[n] = bad
    r.wall = time.time() - t0
    return r


def parse_assumptions(out, names):
    """Props.v prints, for each theorem in order, the result of Print Assumptions."""
    res = {}
    blocks = re.split(r"(?m)^(?=Closed under the global context|Axioms:|Fetching opaque proofs)", out)
    blocks = [b for b in blocks if b.startswith("Closed under") or b.startswith("Axioms:")]
    for n, b in zip(names, blocks):
        if b.startswith("Closed under"):
            res[n] = "closed"
        else:
            axs = []
            for line in b.split("\n")[1:]:
                if line and not line.startswith(" ") and ":" in line:
                    axs.append(line.strip())
                elif line and not line.startswith(" ") and line.strip():
                    axs.append(line.strip())
            res[n] = axs
    return res


def run_coq_cases(imports, prelude, exprs, tag, per_file=400, timeout=600):
    """Evaluate each Gallina expression with vm_compute inside coqc; returns the
    parsed printed values (coqterm.parse), in order.  Sharded over all cores."""
    d = os.path.join(CACHE, "cases", tag)
    shutil.rmtree(d, ignore_errors=True)
    os.makedirs(d)
    shards = [exprs[i:i + per_file] for i in range(0, len(exprs), per_file)]
    files = []
    for k, sh_exprs in enumerate(shards):
        fn = os.path.join(d, "cases_%d.v" % k)
        with open(fn, "w") as f:
            f.write(imports + "\n")
            f.write("Set Printing Width 100000000.\nSet Printing Depth 100000000.\n")
            f.write(prelude + "\n")
            for e in sh_exprs:
                f.write("Eval vm_compute in (" + e + ").\n")
        files.append(fn)

    def one(fn):
        rc, o, e = sh(["coqc", "-noglob", "-Q", COQ, "V", "-w", "-all", fn], cwd=d, timeout=timeout)
        if rc != 0:
            raise RuntimeError("coqc failed on %s:\n%s" % (fn, (o + e)[-2000:]))
        return o

    with ThreadPoolExecutor(max_workers=NCPU) as ex:
        outs = list(ex.map(one, files))
    vals = []
    for o, sh_exprs in zip(outs, shards):
        got = parse_evals(o)
        if len(got) != len(sh_exprs):
            raise RuntimeError("expected %d results, got %d" % (len(sh_exprs), len(got)))
        vals.extend(got)
    return vals


def parse_evals(out):
    vals = []
    cur = None
    for line in out.split("\n"):
        if line.startswith("     = "):
            cur = [line[7:]]
        elif line.startswith("     : "):
            if cur is not None:
                vals.append(coqterm.parse(" ".join(cur)))
                cur = None
        elif cur is not None:
            cur.append(line)
    return vals


# ----------------------------------------------------------------------------
# Rust side


def build_harness(timeout=1500):
    """cargo build of /verif/harness against /repo's working tree, hooks on."""
    t0 = time.time()
    hd = os.path.join(VERIF, "harness")
    # keep the lock file in step with /repo's
    try:
        shutil.copyfile(os.path.join(REPO, "Cargo.lock"), os.path.join(CACHE, "repo.lock"))
    except OSError:
        pass
    rc, o, e = sh(["cargo", "build", "--offline"], cwd=hd, timeout=timeout, env=rust_env())
    return rc == 0, (o + e)[-4000:], time.time() - t0


FROZEN_EXE = os.path.join(CACHE, "target-frozen", "debug", "vhf")


def build_frozen(timeout=1800):
    """the reference harness: pinned rustfmt sources under /verif/frozen (built once; cargo is a no-op afterwards)"""
    t0 = time.time()
    env = rust_env()
    env["CARGO_TARGET_DIR"] = os.path.join(CACHE, "target-frozen")
    rc, o, e = sh(["cargo", "build", "--offline"], cwd=os.path.join(VERIF, "harness_frozen"), timeout=timeout, env=env)
    if rc == 0:
        # the pinned release's own rustfmt binary (C09: how the style edition is chosen goes through main.rs and config loading)
        rc, o2, e2 = sh(["cargo", "build", "--offline", "--bin", "rustfmt"], cwd=os.path.join(VERIF, "frozen"), timeout=timeout, env=env)
        o, e = o + o2, e + e2
    return rc == 0, (o + e)[-3000:], time.time() - t0


def build_bins(timeout=1500):
    """cargo build of /repo's own binaries (rustfmt, cargo-fmt, rustfmt-format-diff)
    from the working tree, hooks on, into the cache."""
    t0 = time.time()
    env = rust_env()
    env["CARGO_TARGET_DIR"] = os.path.join(CACHE, "target-bins")
    env["RUSTFLAGS"] = "--cfg rustfmt_verif"
    rc, o, e = sh(["cargo", "build", "--offline", "--bins"], cwd=REPO, timeout=timeout, env=env)
    return rc == 0, (o + e)[-4000:], time.time() - t0


def bin_path(name):
    return os.path.join(CACHE, "target-bins", "debug", name)


def run_vh(sub, cases, timeout=900, args=()):
    """feed JSON cases (one per line) to `vh <sub>`; returns parsed JSON results"""
    inp = "\n".join(json.dumps(c) for c in cases) + "\n"
    exe = os.path.join(TARGET, "debug", "vh")
    rc, o, e = sh([exe, sub] + list(args), input=inp, timeout=timeout, env=rust_env())
    if rc != 0:
        raise RuntimeError("vh %s failed rc=%d: %s" % (sub, rc, e[-2000:]))
    res = [json.loads(l) for l in o.split("\n") if l.strip()]
    if len(res) != len(cases):
        raise RuntimeError("vh %s: %d cases, %d results; stderr: %s" % (sub, len(cases), len(res), e[-1000:]))
    return res


# ----------------------------------------------------------------------------
# findings, evidence, reporting


def known_findings(prop):
    """[(key, description)] for `finding:` lines of known_findings.txt for prop"""
    out = []
    paths = [os.path.join(VERIF, "known_findings.txt")]
    d = os.path.join(VERIF, "known_findings.d")
    if os.path.isdir(d):
        paths += [os.path.join(d, f) for f in sorted(os.listdir(d)) if f.endswith(".txt")]
    for p in paths:
        if not os.path.exists(p):
            continue
        for line in open(p):
            line = line.strip()
            m = re.match(r"finding:\s+property=(\S+)\s+key=(\S+)\s+(.*)", line)
            if m and m.group(1) == prop:
                out.append((m.group(2), m.group(3)))
    return out


class Reporter:
    def __init__(self, prop, tier, seed, level):
        self.prop = prop
        self.tier = tier
        self.seed = seed
        self.level = level
        self.t0 = time.time()
        self.violations = 0
        self.known_hit = {}
        self.coverage = {}
        self.assumptions = []
        self.known = dict(known_findings(prop))
        os.makedirs(REPLAY, exist_ok=True)

    def violation(self, key, replay_obj, what="", no_input=False):
        """report a violation unless `key` is a listed known finding"""
        if key in self.known:
            if key not in self.known_hit:
                self.known_hit[key] = 0
                print("KNOWN-FINDING: property=%s %s [%s]" % (self.prop, self.known[key], key), flush=True)
            self.known_hit[key] += 1
            return False
        dump = os.environ.get("VERIF_DUMP_KEYS")      # development aid: collect keys to review by hand
        if dump:
            with open(dump, "a") as f:
                f.write("%s\t%s\t%s\n" % (self.prop, key, what.replace("\n", " ")[:300]))
        h = hashlib.sha1(json.dumps(replay_obj, sort_keys=True, default=str).encode()).hexdigest()[:12]
        path = os.path.join(REPLAY, "%s-%s.json" % (self.prop, h))
        obj = {"property": self.prop, "key": key, "what": what, "seed": self.seed, "tier": self.tier}
        obj.update(replay_obj)
        with open(path, "w") as f:
            json.dump(obj, f, indent=1, default=str)
        self.violations += 1
        tail = " no-failing-input-found" if no_input else ""
        print("VIOLATION property=%s replay=%s%s" % (self.prop, path, tail), flush=True)
        if what:
            log("  " + what)
        return True

    def finish(self):
        ev = {
            "property_id": self.prop,
            "tier": self.tier,
            "seed": self.seed,
            "level": self.level,
            "coverage": self.coverage,
            "assumptions": self.assumptions,
            "wall_s": round(time.time() - self.t0, 2),
            "violations": self.violations,
        }
        ev["coverage"]["known_findings_hit"] = self.known_hit
        os.makedirs(EVID, exist_ok=True)
        with open(os.path.join(EVID, self.prop + ".json"), "w") as f:
            json.dump(ev, f, indent=1, default=str)
        return 1 if self.violations else 0


def coq_coverage(rep, cr, checker_cmd, trusted):
    rep.coverage["obligations"] = cr.obligations
    rep.coverage["discharged"] = cr.discharged
    rep.coverage["checker_cmd"] = checker_cmd
    rep.coverage["trusted_base"] = trusted
    rep.coverage["theorems"] = [n for n, _ in cr.theorems]
    rep.coverage["print_assumptions"] = {n: cr.assumptions.get(n, "not checked") for n, _ in cr.theorems}
    rep.coverage["coq_wall_s"] = round(cr.wall, 1)
    print("COQ %s: obligations=%d discharged=%d built=%s hygiene=%d bad_assumptions=%d failed=%s" % (
        rep.prop, cr.obligations, cr.discharged, cr.built, len(cr.hygiene), len(cr.bad_assumptions), cr.failed_files), flush=True)
    if not cr.ok:
        print("COQ %s build log tail: %s" % (rep.prop, cr.build_log[-1200:].replace("\n", " | ")), flush=True)


def tie_phase(rep, group):
    """regenerate coq/Gen/<group>/*.v from /repo/src (checks/gen_ties.py), build it and read Print Assumptions of its tie
    theorems.  Returns (ok, description); the numbers go into the evidence"""
    from . import gen_ties
    if group in gen_ties.SLOW_GROUPS:
        # a tie theorem too slow for the default build: regenerated and compiled directly (thorough tier)
        rel = gen_ties.SLOW_GROUPS[group]()
        rc, o, e = sh(["coqc", "-Q", ".", "V", "-w", "-notation-overridden,-deprecated-hint-without-locality,-deprecated-instance-without-locality,-ambiguous-paths", rel], cwd=COQ, timeout=7200)
        src = open(os.path.join(COQ, rel)).read()
        names = re.findall(r"(?m)^Theorem (\w+)", src)
        closed = (o + e).count("Closed under the global context")
        hygiene = re.findall(r"\b(Admitted|admit|Axiom|Parameter|Conjecture)\b", src)
        ok = rc == 0 and closed == len(names) and not hygiene
        rep.coverage.setdefault("regenerated_ties", {})[rel] = {"theorems": names, "discharged": closed if rc == 0 else 0, "translation_failed": False,
                                                                "print_assumptions": {n: ("Closed under the global context" if ok else "not checked") for n in names}}
        print("TIE %s: %s theorems=%d discharged=%d (compiled directly)" % (rep.prop, rel, len(names), closed if rc == 0 else 0), flush=True)
        return (True, "") if ok else (False, "%s no longer checks: %s" % (rel, (o + e)[-600:].replace("\n", " | ")))
    rel = gen_ties.GROUPS[group]()
    d = os.path.dirname(rel)
    cr = coq_phase([d], rel)
    src = open(os.path.join(COQ, rel)).read()
    failed = "TRANSLATION FAILED" in src
    rep.coverage.setdefault("regenerated_ties", {})[rel] = {
        "theorems": [n for n, _ in cr.theorems], "discharged": cr.discharged, "translation_failed": failed,
        "print_assumptions": {n: cr.assumptions.get(n, "not checked") for n, _ in cr.theorems}}
    print("TIE %s: %s theorems=%d discharged=%d translation_failed=%s" % (rep.prop, rel, cr.obligations, cr.discharged, failed), flush=True)
    if cr.ok and not failed:
        return True, ""
    m = re.search(r"TRANSLATION FAILED: ([^*]*)", src)
    what = "the definitions regenerated from /repo/src (%s) no longer translate / are no longer proved equal to the model: %s %s" % (
        rel, (m.group(1).strip() if m else ""), (cr.build_log[-600:].replace("\n", " | ") if not cr.ok else ""))
    return False, what


def rng(seed, prop):
    return random.Random("%s-%s" % (prop, seed))


def case_hash(c):
    return hashlib.sha1(json.dumps(c, sort_keys=True, default=str).encode()).hexdigest()


# ----------------------------------------------------------------------------
# the standard shape of a "proof + correspondence" check


def standard_run(prop, tier, seed, replay, *, dirs, props_file, trusted, gen_cases, vh_sub,
                 imports, model_expr, canon_model, canon_impl, oracle, nontrivial, rule,
                 level="proof", extra=None, per_file=400, ties=()):
    """1-2 prove (coq_phase), 3 build harness, 4 correspond (model by vm_compute vs implementation),
    5 evaluate the property oracle on the implementation's results; report.
    oracle(case, impl_result) -> [(key, what)] ; nontrivial(case, impl_result) -> bool."""
    rep = Reporter(prop, tier, seed, level)
    rep.assumptions = trusted
    cr = coq_phase(dirs, props_file)
    coq_coverage(rep, cr, "cd coq && make %s && coqc -Q . V %s  (+ hygiene grep, Print Assumptions allow-list)" % (props_file + "o", props_file), trusted)
    proof_ok = cr.ok
    tie_msgs = []
    for g in ties:
        okt, whatt = tie_phase(rep, g)
        if not okt:
            tie_msgs.append(whatt)
    if not proof_ok:
        log("%s: proof phase failed: built=%s hygiene=%s bad_assumptions=%s failed=%s\n%s" % (
            prop, cr.built, cr.hygiene, cr.bad_assumptions, cr.failed_files, cr.build_log[-1500:]))
    ok, blog, bt = build_harness()
    if not ok:
        raise RuntimeError("harness build failed:\n" + blog)
    if replay:
        cases = [json.load(open(replay))["case"]]
    else:
        cases = gen_cases(tier, seed)
    impl = run_vh(vh_sub, cases)
    model = None
    try:
        exprs = [model_expr(c) for c in cases]
        model = run_coq_cases(imports, "", exprs, prop.lower(), per_file=per_file)
    except Exception as e:
        log("%s: model evaluation failed: %s" % (prop, str(e)[-1500:]))
    disagreements = []
    if model is not None:
        for c, r, m in zip(cases, impl, model):
            if isinstance(r, dict) and "panic" in r:
                disagreements.append((c, "impl panicked", r))
                continue
            cm = canon_model(c, m)
            ci = canon_impl(c, r)
            if cm != ci:
                disagreements.append((c, {"impl": ci, "model": cm}))
    nt = set()
    for c, r in zip(cases, impl):
        if isinstance(r, dict) and "panic" in r:
            continue
        if nontrivial(c, r):
            nt.add(case_hash(c))
    found = 0
    for c, r in zip(cases, impl):
        if isinstance(r, dict) and "panic" in r:
            # the implementation panicked where the model returns a value: a concrete input on which the modelled
            # function does not behave as the property needs
            if rep.violation("impl_panic", {"case": c, "impl": r}, "the implementation panicked on a generated case: %s" % str(r.get("panic"))[:300]):
                found += 1
            continue
        for key, what in oracle(c, r):
            if rep.violation(key, {"case": c, "impl": r}, what):
                found += 1
            break
    if extra is not None:
        found += extra(rep, tier, seed) or 0
    tie_broken = (not proof_ok) or model is None or disagreements or tie_msgs
    if tie_broken and found == 0:
        what = list(tie_msgs)
        if not proof_ok:
            what.append("theorems of coq/%s no longer check (failed files: %s; hygiene: %s; assumptions: %s)" % (
                props_file, cr.failed_files, cr.hygiene, cr.bad_assumptions))
        if model is None:
            what.append("model could not be evaluated")
        if disagreements:
            what.append("correspondence model/implementation broken on %d of %d cases, first: %r" % (
                len(disagreements), len(cases), disagreements[0]))
        rep.violation("tie", {"broken": what, "first_disagreements": disagreements[:3]}, "; ".join(what)[:3000], no_input=True)
    step = max(1, len(cases) // 5)
    rep.coverage.update({
        "evaluations": len(cases),
        "distinct_nontrivial": len(nt),
        "rule": rule,
        "samples": [cases[i] for i in range(0, len(cases), step)][:5],
        "correspondence_disagreements": len(disagreements),
        "traces_validated_against_impl": len(cases) if model is not None else 0,
        "harness_build_s": round(bt, 1),
    })
    return rep.finish()


# ----------------------------------------------------------------------------
# robust parallel runner for whole-program cases (formatting may hang, abort or overflow the stack)


class _Worker:
    def __init__(self, sub, exe=None):
        self.sub = sub
        self.exe = exe
        self.start()

    def start(self):
        r, w = os.pipe()
        env = dict(os.environ)
        env.update(rust_env())
        env["VH_OUT_FD"] = str(w)
        env["RUST_BACKTRACE"] = "0"
        exe = self.exe or os.path.join(TARGET, "debug", "vh")
        argv = [exe] + ([self.sub] if self.sub else [])
        self.p = subprocess.Popen(argv, stdin=subprocess.PIPE, stdout=subprocess.DEVNULL,
                                  stderr=subprocess.PIPE, pass_fds=[w], env=env)
        os.close(w)
        self.r = os.fdopen(r, "rb", buffering=0)
        self.buf = b""
        os.set_blocking(self.p.stderr.fileno(), False)

    def stderr_tail(self):
        try:
            data = self.p.stderr.read() or b""
        except Exception:
            data = b""
        return data[-1500:].decode("utf-8", "replace")

    def kill(self):
        try:
            self.p.kill()
            self.p.wait(timeout=5)
        except Exception:
            pass
        try:
            self.r.close()
        except Exception:
            pass

    def ask(self, case, timeout):
        import select
        try:
            self.p.stdin.write((json.dumps(case) + "\n").encode())
            self.p.stdin.flush()
        except (BrokenPipeError, OSError):
            tail = self.stderr_tail()
            rc = self.p.poll()
            self.kill()
            self.start()
            return {"crash": rc, "stderr": tail}
        deadline = time.time() + timeout
        while b"\n" not in self.buf:
            left = deadline - time.time()
            if left <= 0:
                tail = self.stderr_tail()
                self.kill()
                self.start()
                return {"timeout": timeout, "stderr": tail}
            rl, _, _ = select.select([self.r], [], [], min(left, 1.0))
            if rl:
                chunk = os.read(self.r.fileno(), 1 << 16)
                if not chunk:
                    rc = self.p.wait()
                    tail = self.stderr_tail()
                    self.kill()
                    self.start()
                    return {"crash": rc, "stderr": tail}
                self.buf += chunk
        line, self.buf = self.buf.split(b"\n", 1)
        # drain stderr so the pipe cannot fill up
        err = self.stderr_tail()
        res = json.loads(line)
        if isinstance(res, dict) and err:
            res["stderr"] = err[-600:]
        return res


def run_vh_pool(sub, cases, per_case_timeout=20, workers=None, exe=None):
    """run cases through `vh <sub>` worker processes; a hang / abort / stack overflow of one case is
    recorded as {"timeout":..} / {"crash": returncode} for that case only"""
    workers = workers or NCPU
    results = [None] * len(cases)
    idx = {"i": 0}
    import threading
    lock = threading.Lock()

    def loop():
        w = _Worker(sub, exe)
        try:
            while True:
                with lock:
                    i = idx["i"]
                    if i >= len(cases):
                        return
                    idx["i"] = i + 1
                results[i] = w.ask(cases[i], per_case_timeout)
        finally:
            w.kill()

    ths = [threading.Thread(target=loop) for _ in range(min(workers, max(1, len(cases))))]
    for t in ths:
        t.start()
    for t in ths:
        t.join()
    return results
