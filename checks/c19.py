"""C19 — format-diff turns a patch into exactly the lines it added."""
import json
import os
import re
import shutil
import subprocess

from . import common, coqterm
from .common import log

PROP = "C19"
TRUSTED = [
    "Coq 8.16.1 kernel (coqc); vm_compute evaluates the model in cases.v; no native_compute",
    "Print Assumptions of every theorem in coq/C19/Props.v: Closed under the global context (checked each run)",
    "hand-written model coq/C19/Model.v of scan_diff / run_rustfmt (format-diff/main.rs) with the two regexes as explicit matchers (regex-crate leftmost-first semantics spelled out; \\d = ASCII digit; the user filter is an abstract predicate, instantiated with 'path ends with SUFFIX' for filters of the form .*SUFFIX); tied to the code by running the real rustfmt-format-diff binary with a recording $RUSTFMT stand-in and comparing argv / exit status with the model",
    "the property's expected ranges are recomputed in python from the structured patch (independent of the model)",
    "JSON serialisation of the ranges by serde_json is read back with python's json",
]


def standin(d):
    p = os.path.join(d, "standin.sh")
    with open(p, "w") as f:
        f.write('#!/bin/sh\nfor a in "$@"; do printf "%s\\n" "$a" >> "$C19_LOG"; done\nprintf "%s\\n" "--END--" >> "$C19_LOG"\ncase "$C19_EXIT" in sig*) kill -${C19_EXIT#sig} $$; sleep 5;; first1) if [ ! -e "$C19_LOG.cnt" ]; then : > "$C19_LOG.cnt"; exit 1; fi; exit 0;; esac\nexit ${C19_EXIT:-0}\n')
    os.chmod(p, 0o755)
    return p


NAMES = ["src/lib.rs", "src/main.rs", "a/b/c.rs", "x.rs", "README.md", "src/deep/er/mod.rs", "build.rs", "src/x.txt",
         # the filter is anchored (^F$): a path that only CONTAINS a match must not be selected
         "docs/guide.rst", "src/lib.rs.orig", "src/tpl.rs.in", "a.rs/notes.txt", "old/lib.rs/x"]
SECTIONS = ["", "fn main() {", "impl Foo {", "let y = x +1;", "    a +2,3 b", "x @@ y", "+++ z"]


def gen_patch(rnd):
    files = []
    for _ in range(rnd.randint(1, 4)):
        path = rnd.choice(NAMES)
        # relative, nested, ABSOLUTE (diff -u /abs/old /abs/new: the first component is empty) and doubled-slash spellings
        prefix = rnd.choice(["b/", "b/", "", "new/v2/", "/w/new/", "/", "b//", "./"])
        hunks = []
        line = 1
        for _ in range(rnd.randint(0, 4)):
            o_start = line + rnd.randint(0, 30)
            o_cnt = rnd.choice([0, 1, 1, 2, 3, 7])
            n_start = o_start + rnd.randint(-1, 5) if o_start > 1 else o_start
            n_cnt = rnd.choice([0, 0, 1, 1, 2, 5, 12])
            body = []
            for _ in range(min(o_cnt, n_cnt)):
                body.append(" ctx")
            for _ in range(o_cnt - min(o_cnt, n_cnt)):
                body.append(rnd.choice(["-old", "-- x", "-@@ -1 +9 @@"]))
            for _ in range(n_cnt - min(o_cnt, n_cnt)):
                body.append(rnd.choice(["+new", "+    let z = a + 1;", "++ not a header", "+@@ -1,2 +3,4 @@"]))
            if rnd.random() < 0.1:
                body.append("\\ No newline at end of file")
            hunks.append({"o_start": o_start, "o_cnt": o_cnt, "n_start": n_start, "n_cnt": n_cnt,
                          "omit_o": o_cnt == 1 and rnd.random() < 0.5, "omit_n": n_cnt == 1 and rnd.random() < 0.5,
                          "section": rnd.choice(SECTIONS), "body": body})
            line = o_start + o_cnt + 1
        files.append({"old": "a/" + path, "new": prefix + path, "git": rnd.random() < 0.5,
                      "stamp": rnd.choice(["", "", "\t2024-01-01 10:00:00.000000000 +0000"]), "hunks": hunks})
    return files


def render(files, eol="\n"):
    out = []
    for f in files:
        if f["git"]:
            out.append("diff --git %s %s" % (f["old"], f["new"]))
            out.append("index 83db48f..bf2a1c0 100644")
        out.append("--- " + f["old"] + f["stamp"])
        out.append("+++ " + f["new"] + f["stamp"])
        for h in f["hunks"]:
            o = "%d" % h["o_start"] if h["omit_o"] else "%d,%d" % (h["o_start"], h["o_cnt"])
            n = "%d" % h["n_start"] if h["omit_n"] else "%d,%d" % (h["n_start"], h["n_cnt"])
            out.append("@@ -%s +%s @@%s" % (o, n, (" " + h["section"]) if h["section"] else ""))
            out += h["body"]
    return eol.join(out) + eol


def strip(path, p):
    parts = path.split("/")
    if len(parts) - 1 < p:
        return None
    return "/".join(parts[p:])


def expected(files, p, suffix):
    """the text of C19: post-image ranges of hunks with count > 0 of files whose stripped path matches"""
    out = []
    for f in files:
        s = strip(f["new"], p)
        if s is None or not s.endswith(suffix):
            continue
        for h in f["hunks"]:
            if h["n_cnt"] > 0:
                out.append([s, h["n_start"], h["n_start"] + h["n_cnt"] - 1])
    return out


def gen_real_diff(rnd, d, ctx):
    """two versions of a small file tree, diffed by the real diff(1); returns (text, files-structure)"""
    a, b = os.path.join(d, "a"), os.path.join(d, "b")
    shutil.rmtree(a, ignore_errors=True)
    shutil.rmtree(b, ignore_errors=True)
    names = rnd.sample(["src/lib.rs", "src/m/x.rs", "top.rs", "doc.md"], rnd.randint(1, 3))
    for n in names:
        base = ["line %d" % i for i in range(1, rnd.randint(2, 40))]
        new = list(base)
        for _ in range(rnd.randint(0, 4)):
            k = rnd.random()
            if k < 0.4 and new:
                del new[rnd.randrange(len(new))]
            elif k < 0.8:
                new.insert(rnd.randint(0, len(new)), "added %d +1 @@" % rnd.randint(0, 99))
            elif new:
                new[rnd.randrange(len(new))] = "changed"
        which = rnd.random()
        for root, lines in ((a, base), (b, new)):
            if (root == a and which < 0.15) or (root == b and 0.15 <= which < 0.3):
                continue       # new file / deleted file
            p = os.path.join(root, n)
            os.makedirs(os.path.dirname(p), exist_ok=True)
            open(p, "w").write("\n".join(lines) + ("\n" if lines else ""))
    for root in (a, b):
        os.makedirs(root, exist_ok=True)
    r = subprocess.run(["diff", "-U%d" % ctx, "-rN", "a", "b"], cwd=d, capture_output=True, text=True)
    text = r.stdout
    # independent strict parse of the unified diff
    files = []
    cur = None
    for line in text.split("\n"):
        m = re.match(r"^\+\+\+ (\S+)", line)
        if m and cur is not None and cur.get("_after_minus"):
            cur = {"new": m.group(1), "hunks": []}
            files.append(cur)
            continue
        if line.startswith("--- "):
            cur = {"_after_minus": True}
            continue
        m = re.match(r"^@@ -(\d+)(?:,(\d+))? \+(\d+)(?:,(\d+))? @@", line)
        if m and cur is not None and "hunks" in cur:
            cur["hunks"].append({"n_start": int(m.group(3)), "n_cnt": int(m.group(4)) if m.group(4) is not None else 1})
    return text, files


def run(tier, seed, replay):
    rep = common.Reporter(PROP, tier, seed, "proof")
    rep.assumptions = TRUSTED
    cr = common.coq_phase(["C19"], "C19/Props.v")
    common.coq_coverage(rep, cr, "cd coq && make C19/Props.vo && coqc -Q . V C19/Props.v (+ hygiene grep, Print Assumptions allow-list)", TRUSTED)
    if not cr.ok:
        log("C19 proof phase failed: %s %s %s\n%s" % (cr.hygiene, cr.bad_assumptions, cr.failed_files, cr.build_log[-1500:]))
    ok, blog, bt = common.build_bins()
    if not ok:
        raise RuntimeError("build of /repo binaries failed:\n" + blog)
    rnd = common.rng(seed, PROP)
    d = os.path.join(common.CACHE, "c19")
    shutil.rmtree(d, ignore_errors=True)
    os.makedirs(d)
    sh = standin(d)
    cases = []
    if replay:
        cases = [json.load(open(replay))["case"]]
    else:
        n = 250 if tier == "quick" else 4000
        for _ in range(n):
            files = gen_patch(rnd)
            cases.append({"kind": "patch", "files": files, "text": render(files, rnd.choice(["\n", "\n", "\r\n"])), "p": rnd.randint(0, 3),
                          "suffix": rnd.choice([".rs", ".rs", "", "lib.rs"]), "exit": rnd.choice([0, 0, 0, 1, 3, 101, "sig9", "sig6", "sig11"])})
        # very many files in one patch: however the tool splits its work, every started rustfmt counts (the first one fails here)
        for _ in range(3 if tier == "quick" else 20):
            nf = rnd.randint(65, 140)
            files = [{"old": "a/src/f%03d.rs" % k, "new": "b/src/f%03d.rs" % k, "git": False, "stamp": "",
                      "hunks": [{"o_start": 3, "o_cnt": 1, "n_start": 3, "n_cnt": 2, "omit_o": False, "omit_n": False, "section": "", "body": [" ctx", "+new"]}]} for k in range(nf)]
            cases.append({"kind": "patch", "files": files, "text": render(files), "p": 1, "suffix": ".rs", "exit": rnd.choice(["first1", "first1", 0])})
        m = 60 if tier == "quick" else 600
        for _ in range(m):
            ctx = rnd.randint(0, 3)
            text, files = gen_real_diff(rnd, d, ctx)
            cases.append({"kind": "real", "files": files, "text": text, "p": rnd.randint(0, 2), "suffix": rnd.choice([".rs", ""]), "exit": 0})
    # implementation: the real binary with the recording stand-in
    exe = common.bin_path("rustfmt-format-diff")
    impl = []
    for i, c in enumerate(cases):
        logf = os.path.join(d, "log%d" % i)
        env = dict(os.environ)
        env.update({"RUSTFMT": sh, "C19_LOG": logf, "C19_EXIT": str(c["exit"])})
        flt = ".*" + re.escape(c["suffix"]) if c["suffix"] else ".*"
        p = subprocess.run([exe, "-p", str(c["p"]), "-f", flt], input=c["text"], capture_output=True, text=True, env=env, timeout=60)
        argv = None
        if os.path.exists(logf):
            argv = open(logf).read().split("\n")
            os.remove(logf)
        inv = None
        if os.path.exists(logf + ".cnt"):
            os.remove(logf + ".cnt")
        if argv is not None:
            # every started rustfmt: the files and ranges of all of them together
            fs_, rs_, ex_ = [], [], []
            rest = argv
            while "--END--" in rest:
                args = rest[:rest.index("--END--")]
                rest = rest[rest.index("--END--") + 1:]
                k = args.index("--file-lines")
                fs_ += args[:k]
                rs_ += [[r["file"], r["range"][0], r["range"][1]] for r in json.loads(args[k + 1])]
                ex_ = args[k + 2:]
            inv = {"files": sorted(fs_), "ranges": rs_, "extra": ex_}
        impl.append({"rc": p.returncode, "inv": inv, "stderr": p.stderr[-300:]})
    # model
    model = None
    try:
        exprs = []
        for c in cases:
            lines = c["text"].split("\n")
            if lines and lines[-1] == "":
                lines = lines[:-1]
            lines = [l[:-1] if l.endswith("\r") else l for l in lines]       # BufRead::lines
            exprs.append("(run_invocation %d %s %s, run_exit %d %s %s %s)" % (
                c["p"], coqterm.text(c["suffix"]), coqterm.render(lines), c["p"], coqterm.text(c["suffix"]),
                "true" if c["exit"] == 0 else "false", coqterm.render(lines)))      # killed by a signal / a failing first process = not a success
        model = common.run_coq_cases("From V Require Import Base.Text C19.Model C19.Run.\nOpen Scope N_scope.", "", exprs, "c19", per_file=40)
    except Exception as e:
        log("C19: model evaluation failed: %s" % str(e)[-1500:])
    disagreements, found = [], 0
    nontrivial = set()
    for i, (c, r) in enumerate(zip(cases, impl)):
        show = {k: v for k, v in c.items() if k != "files"}
        # ---- the property on the implementation
        if c["kind"] == "patch":
            exp = expected(c["files"], c["p"], c["suffix"])
        else:
            exp = []
            for f in c["files"]:
                s = strip(f["new"], c["p"])
                if s is None or not s.endswith(c["suffix"]):
                    continue
                for h in f["hunks"]:
                    if h["n_cnt"] > 0:
                        exp.append([s, h["n_start"], h["n_start"] + h["n_cnt"] - 1])
        got = r["inv"]["ranges"] if r["inv"] else []
        cls = classify(c)
        if r["rc"] not in (0, 1):
            if rep.violation("abnormal_exit" + cls, {"case": show, "impl": r}, "rustfmt-format-diff exit status %d: %s" % (r["rc"], r["stderr"])):
                found += 1
        elif got != exp:
            if rep.violation("ranges" + cls, {"case": show, "impl": r, "expected": exp}, "format-diff asked for %r, the patch's post-image ranges are %r (-p%d, filter suffix %r)" % (got, exp, c["p"], c["suffix"])):
                found += 1
        else:
            if exp:
                nontrivial.add(common.case_hash(show))
            if r["inv"] and sorted(set(x[0] for x in exp)) != r["inv"]["files"]:
                if rep.violation("files", {"case": show, "impl": r}, "file arguments %r differ from the files of the ranges" % r["inv"]["files"]):
                    found += 1
            want_rc = 0 if (not exp or c["exit"] == 0) else 1
            if r["rc"] != want_rc:
                if rep.violation("exit", {"case": show, "impl": r}, "exit status %d, expected %d (rustfmt stand-in ends with %s, %d ranges)" % (r["rc"], want_rc, c["exit"], len(exp))):
                    found += 1
        # ---- correspondence
        if model is not None:
            inv, ex = model[i]
            mi = None
            if isinstance(inv, coqterm.Ctor) and inv.name == "Some":
                fs, rs = inv.args[0]
                mi = {"files": sorted(coqterm.untext(x) for x in fs), "ranges": [[coqterm.untext(f), a, b] for (f, a, b) in rs]}
            ii = None if r["inv"] is None else {"files": r["inv"]["files"], "ranges": r["inv"]["ranges"]}
            if mi != ii or ex != r["rc"]:
                disagreements.append((show, {"impl": (ii, r["rc"]), "model": (mi, ex)}))
    shutil.rmtree(d, ignore_errors=True)
    okt, whatt = common.tie_phase(rep, "C19")
    if not okt:
        disagreements.append(({"regenerated_tie": True}, whatt))
    tie_broken = (not cr.ok) or model is None or disagreements
    if tie_broken and found == 0:
        what = []
        if not cr.ok:
            what.append("theorems of coq/C19/Props.v no longer check (%s %s %s)" % (cr.failed_files, cr.hygiene, cr.bad_assumptions))
        if model is None:
            what.append("model could not be evaluated")
        if disagreements:
            what.append("correspondence broken on %d of %d cases, first: %r" % (len(disagreements), len(cases), disagreements[0]))
        rep.violation("tie", {"broken": what, "first_disagreements": disagreements[:3]}, "; ".join(what)[:3000], no_input=True)
    step = max(1, len(cases) // 4)
    rep.coverage.update({
        "evaluations": len(cases), "distinct_nontrivial": len(nontrivial),
        "rule": "(a) seeded structured patches (1..4 files, 0..4 hunks each, both spellings of a count of 1, function-context text containing '+digits' / '@@' / '+++', paths with 0..3 components, git preamble, timestamps, '\\ No newline' lines, CRLF) rendered to unified-diff text; (b) real diff -U0..3 -rN outputs of random file-tree version pairs; each with -p 0..3 and a filter; the real rustfmt-format-diff binary runs a recording $RUSTFMT stand-in with a scripted exit status (0, 1, 3, 101) or death by signal (KILL, ABRT, SEGV); argv and exit compared with the model and with ranges recomputed from the patch. non-trivial = at least one range expected; distinct by hash",
        "samples": [{k: v for k, v in cases[i].items() if k in ("text", "p", "suffix", "exit")} for i in range(0, len(cases), step)][:4],
        "correspondence_disagreements": len(disagreements),
        "traces_validated_against_impl": len(cases) if model is not None else 0,
        "bins_build_s": round(bt, 1),
    })
    return rep.finish()


def classify(c):
    """input shapes outside the property's quantifier or in a recorded class"""
    if c["kind"] != "patch":
        return ""
    for f in c["files"]:
        for h in f["hunks"]:
            for b in h["body"]:
                if re.match(r"^\+\+\+\s", b):
                    return ":body_line_looks_like_header"
    return ""
