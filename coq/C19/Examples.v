(* C19/Examples.v — non-vacuity: concrete values meeting the hypotheses of the theorems of Props.v, and the
   concrete wrong answers behind the _refuted theorems. *)
From V Require Import Base.Text C19.Model C19.Lemmas C19.Run.
From Coq Require Import String Ascii.
Open Scope string_scope.
Open Scope list_scope.
Open Scope N_scope.

Definition TAB_ : string := String (ascii_of_nat 9) "".
Definition rs_files : text -> bool := ends_with (T ".rs").

(* Two files (one filtered out), three hunks; git-style preamble, diff -u stamps, a section text, counts
   left out, an addition at line 1, a pure deletion (count 0), a `\ No newline` line. *)
Definition E1 : patch := Eval vm_compute in
  [ mkFile (map T ["diff --git a/src/x.rs b/src/x.rs"; "index 83db48f..bf2a1c4 100644"])
      (T "a/src/x.rs") (T (TAB_ ++ "2020-01-01 10:00:00.000000000 +0100")%string)
      (T "b/src/x.rs") (T (TAB_ ++ "2020-01-02 10:00:00.000000000 +0100")%string)
      [ mkHunk 0 0 1 1 false true [] (map T ["+// first line"]);
        mkHunk 10 3 12 4 false false (T "fn f(x: u32) -> u32 {")
          (map T [" a"; "-b"; "+c"; "+d"; " e"; "\ No newline at end of file"]);
        mkHunk 30 2 32 0 false false [] (map T ["-gone"; "-gone too"]) ];
    mkFile (map T ["diff --git a/README.md b/README.md"; "new file mode 100644"])
      (T "/dev/null") [] (T "b/README.md") []
      [ mkHunk 0 0 1 2 false false [] (map T ["+hello"; "+world"]) ] ].

Example E1_render : render E1 = map T
  [ "diff --git a/src/x.rs b/src/x.rs"; "index 83db48f..bf2a1c4 100644";
    ("--- a/src/x.rs" ++ TAB_ ++ "2020-01-01 10:00:00.000000000 +0100")%string;
    ("+++ b/src/x.rs" ++ TAB_ ++ "2020-01-02 10:00:00.000000000 +0100")%string;
    "@@ -0,0 +1 @@"; "+// first line";
    "@@ -10,3 +12,4 @@ fn f(x: u32) -> u32 {"; " a"; "-b"; "+c"; "+d"; " e"; "\ No newline at end of file";
    "@@ -30,2 +32,0 @@"; "-gone"; "-gone too";
    "diff --git a/README.md b/README.md"; "new file mode 100644";
    "--- /dev/null"; "+++ b/README.md";
    "@@ -0,0 +1,2 @@"; "+hello"; "+world" ].
Proof. vm_compute. reflexivity. Qed.

(* hypothesis of scan_render / format_diff_render / fixed_needs_less *)
Example E1_well_formed : well_formed 1 E1.
Proof. unfold E1. intros k. destruct k; wf_solve. Qed.

Example E1_expected : expected 1 rs_files E1 = [(T "src/x.rs", 1, 1); (T "src/x.rs", 12, 15)].
Proof. vm_compute. reflexivity. Qed.

(* the conclusion of scan_render on E1, computed *)
Example E1_scan : scan_diff 1 rs_files (render E1) =
  Ok ([T "src/x.rs"], [(T "src/x.rs", 1, 1); (T "src/x.rs", 12, 15)]).
Proof. vm_compute. reflexivity. Qed.

(* with the filter `.*` both files are formatted *)
Example E1_scan_all : scan_diff 1 any_file (render E1) =
  Ok ([T "src/x.rs"; T "README.md"],
      [(T "src/x.rs", 1, 1); (T "src/x.rs", 12, 15); (T "README.md", 1, 2)]).
Proof. vm_compute. reflexivity. Qed.

(* hypothesis of scan_text_render *)
Ltac clean_line :=
  split; [ let H := fresh "H" in
           intros H; vm_compute in H; repeat (destruct H as [H|H]; [discriminate H|]); exact H
         | vm_compute; first [exact I | reflexivity] ].
Example E1_clean : Forall line_clean (render E1).
Proof. rewrite E1_render. unfold map. repeat (apply Forall_cons; [clean_line|]). apply Forall_nil. Qed.

Example E1_scan_text : scan_text 1 rs_files (unlines (render E1)) =
  Ok ([T "src/x.rs"], [(T "src/x.rs", 1, 1); (T "src/x.rs", 12, 15)]).
Proof. vm_compute. reflexivity. Qed.

(* (b), second disjunct: a deleted file, -p3: `+++ /dev/null` has two slashes only, the header does not
   match, but the hunk has no post-image lines *)
Definition E2 : patch := Eval vm_compute in
  [ mkFile [] (T "a/b/c/x.rs") [] (T "a/b/c/x.rs") [] [ mkHunk 1 1 1 1 true true [] (map T ["-a"; "+b"]) ];
    mkFile (map T ["deleted file mode 100644"]) (T "a/b/c/y.rs") [] (T "/dev/null") []
      [ mkHunk 1 2 0 0 false false [] (map T ["-a"; "-b"]) ] ].

Example E2_well_formed : well_formed 3 E2.
Proof. unfold E2. intros k. destruct k; wf_solve. Qed.

Example E2_scan : scan_diff 3 rs_files (render E2) = Ok ([T "x.rs"], [(T "x.rs", 1, 1)]).
Proof. vm_compute. reflexivity. Qed.

(* files_are_range_paths: hypothesis met by E1_scan_all *)

(* nonheader_lines_contribute_nothing / other_lines_are_not_headers: hypotheses met *)
Example nonheader_hyp :
  sc_fh the_scanner 1 (T "index 83db48f..bf2a1c4 100644") = FhNone /\
  sc_hh the_scanner (T "index 83db48f..bf2a1c4 100644") = None /\
  sc_fh the_scanner 1 (T "+++") = FhNone /\ sc_hh the_scanner (T "+++") = None /\
  sc_hh the_scanner (T "@@ no numbers @@") = None.
Proof. vm_compute. repeat split; reflexivity. Qed.

(* zero_count_skipped: hypotheses met by a pure deletion header *)
Example zero_count_hyp :
  sc_hh the_scanner (T "@@ -30,2 +32,0 @@") = Some (T "32", Some (T "0")) /\
  parse_u32 (T "32") = Some 32 /\ parse_u32 (T "0") = Some 0.
Proof. vm_compute. repeat split; reflexivity. Qed.

(* missing_count_is_one: hypotheses met *)
Example missing_count_hyp :
  sc_hh the_scanner (T "@@ -3 +7 @@") = Some (T "7", None) /\ parse_u32 (T "7") = Some 7 /\ 7 + 1 <= U32_MAX /\
  step_diff 0 rs_files (mkState (Some (T "x.rs")) [] []) (T "@@ -3 +7 @@") =
  Ok (mkState (Some (T "x.rs")) [T "x.rs"] [(T "x.rs", 7, 7)]).
Proof. repeat split; try (vm_compute; reflexivity). vm_compute. discriminate. Qed.

(* omitted_count_is_missing: the first hunk of E1 *)
Example omitted_count_hyp :
  let h := mkHunk 0 0 1 1 false true [] [] in
  has_plus_digit (section h) = false /\ omit_n h = true /\ n_cnt h = 1 /\
  render_hunk_header h = T "@@ -0,0 +1 @@".
Proof. vm_compute. repeat split; reflexivity. Qed.

(* empty_runs_nothing: a diff of non-Rust files gives an empty result *)
Example empty_hyp :
  scan_diff 1 rs_files (map T ["--- a/README.md"; "+++ b/README.md"; "@@ -1 +1,2 @@"; " a"; "+b"]) = Ok ([], []).
Proof. vm_compute. reflexivity. Qed.

(* failure_propagates: hypotheses met by E1 and a rustfmt that exits with an error *)
Example failure_hyp :
  let r := ([T "src/x.rs"], [(T "src/x.rs", 1, 1); (T "src/x.rs", 12, 15)]) in
  scan_diff 1 rs_files (render E1) = Ok r /\ invocation r = Some r /\
  (fun _ => Exited false) r <> Exited true /\
  format_diff 1 rs_files (fun _ => Exited false) (render E1) = ExitErr /\
  format_diff 1 rs_files (fun _ => SpawnFailed) (render E1) = ExitErr /\
  format_diff 1 rs_files (fun _ => Exited true) (render E1) = ExitOk.
Proof. repeat split; try (vm_compute; reflexivity). discriminate. Qed.

(* ---- the wrong answers behind the _refuted theorems (scan = the code as it is) ---- *)

(* (a)  @@ -10,3 +12,4 @@ let y = x +1;  *)
Example section_refuted_values :
  render W_section = map T ["--- a/src/x.rs"; "+++ b/src/x.rs"; "@@ -10,3 +12,4 @@ let y = x +1;"; "+foo"] /\
  scan 1 any_file (render W_section) = Ok ([T "src/x.rs"], [(T "src/x.rs", 1, 1)]) /\
  expected 1 any_file W_section = [(T "src/x.rs", 12, 15)].
Proof. vm_compute. repeat split; reflexivity. Qed.

(* (b) -p1 *)
Example slashes_refuted_values :
  render W_slashes = map T ["--- a/x.rs"; "+++ b/x.rs"; "@@ -1,1 +1,2 @@"; "+a";
                            "--- y.rs"; "+++ y.rs"; "@@ -1,1 +7,3 @@"; "+b"] /\
  scan 1 any_file (render W_slashes) = Ok ([T "x.rs"], [(T "x.rs", 1, 2); (T "x.rs", 7, 9)]) /\
  expected 1 any_file W_slashes = [(T "x.rs", 1, 2)].
Proof. vm_compute. repeat split; reflexivity. Qed.

(* (c) *)
Example path_refuted_values :
  scan 1 any_file (render W_path) = Ok ([T "my"], [(T "my", 1, 1)]) /\
  expected 1 any_file W_path = [(T "my file.rs", 1, 1)].
Proof. vm_compute. repeat split; reflexivity. Qed.

(* (d) *)
Example body_refuted_values :
  render W_body = map T ["--- a/x.rs"; "+++ b/x.rs"; "@@ -1,1 +1,2 @@"; "+++ b/other.rs"; "@@ -1,1 +8,1 @@"; "+z"] /\
  scan 1 any_file (render W_body) = Ok ([T "x.rs"; T "other.rs"], [(T "x.rs", 1, 2); (T "other.rs", 8, 8)]) /\
  expected 1 any_file W_body = [(T "x.rs", 1, 2); (T "x.rs", 8, 8)].
Proof. vm_compute. repeat split; reflexivity. Qed.

(* ---- the repaired scanner ---- *)

(* hypothesis of fixed_scan_render met where well_formed fails *)
Example fixed_hyp : well_formed_fixed 1 W_section /\ well_formed_fixed 1 W_slashes.
Proof. split; [unfold W_section|unfold W_slashes]; intros k; destruct k; wf_solve. Qed.

Example fixed_values :
  scan_fixed 1 any_file (render W_section) = Ok ([T "src/x.rs"], [(T "src/x.rs", 12, 15)]) /\
  scan_fixed 1 any_file (render W_slashes) = Ok ([T "x.rs"], [(T "x.rs", 1, 2)]).
Proof. vm_compute. repeat split; reflexivity. Qed.

(* (b') *)
Example fixed_slashes_refuted_values :
  scan_fixed 1 any_file (render W_stamp_slash) = Ok ([T "01/01"], [(T "01/01", 1, 3)]) /\
  expected 1 any_file W_stamp_slash = [].
Proof. vm_compute. repeat split; reflexivity. Qed.
