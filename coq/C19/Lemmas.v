(* C19/Lemmas.v — proofs about the model of rustfmt-format-diff *)
From V Require Import Base.Text C19.Model.
Open Scope N_scope.
Arguments N.add : simpl never.
Arguments N.sub : simpl never.
Arguments N.mul : simpl never.
Arguments N.ltb : simpl never.
Arguments N.leb : simpl never.
Arguments N.eqb : simpl never.
Arguments N.div : simpl never.
Arguments N.modulo : simpl never.
Arguments N.pow : simpl never.

(* ------------------------------------------------------------------ *)
(* take_while / drop_while *)

Definition head_fails (f : char -> bool) (t : text) : Prop :=
  match t with
  | [] => True
  | c :: _ => f c = false
  end.

Lemma take_drop_app f a b :
  Forall (fun c => f c = true) a -> head_fails f b ->
  take_while f (a ++ b) = a /\ drop_while f (a ++ b) = b.
Proof.
  intros Ha Hb. induction Ha as [|c a Hc Ha IH]; cbn [app take_while drop_while].
  - destruct b as [|c b]; cbn [take_while drop_while].
    + split; reflexivity.
    + cbn [head_fails] in Hb. rewrite Hb. split; reflexivity.
  - rewrite Hc. destruct IH as [IH1 IH2]. rewrite IH1, IH2. split; reflexivity.
Qed.

Lemma existsb_false_Forall (f : char -> bool) t :
  existsb f t = false -> Forall (fun c => negb (f c) = true) t.
Proof.
  induction t as [|c t IH]; cbn [existsb]; intros H.
  - constructor.
  - apply orb_false_iff in H. destruct H as [H1 H2]. constructor.
    + rewrite H1. reflexivity.
    + apply IH. exact H2.
Qed.

(* ------------------------------------------------------------------ *)
(* decimal printing and parsing *)

Definition value_le (ds : text) : N := fold_right (fun d a => (d - 48) + 10 * a) 0 ds.

Lemma digits_value_rev ds : digits_value (rev ds) = value_le ds.
Proof.
  unfold digits_value. induction ds as [|d ds IH]; cbn [rev value_le fold_right].
  - reflexivity.
  - rewrite fold_left_app. cbn [fold_left]. rewrite N.add_comm. f_equal. f_equal. exact IH.
Qed.

Lemma le_digits_value fuel : forall n, n < 2 ^ N.of_nat fuel -> value_le (le_digits fuel n) = n.
Proof.
  induction fuel as [|fuel IH]; intros n Hn.
  - cbn in Hn. cbn [le_digits value_le fold_right]. lia.
  - rewrite Nat2N.inj_succ, N.pow_succ_r' in Hn.
    cbn [le_digits value_le fold_right].
    pose proof (N.div_mod n 10 ltac:(lia)) as Hdm.
    pose proof (N.mod_upper_bound n 10 ltac:(lia)) as Hm.
    destruct (N.eqb_spec (n / 10) 0) as [E|E].
    + cbn [fold_right]. clear IH. lia.
    + fold (value_le (le_digits fuel (n / 10))). rewrite IH.
      * clear IH. generalize dependent (n mod 10). generalize dependent (n / 10). intros q Hq r Hr1 Hr2. lia.
      * clear IH. assert (n / 10 <= n / 2) as Hle.
        { apply N.div_le_compat_l. lia. }
        assert (n / 2 < 2 ^ N.of_nat fuel) as Hlt.
        { apply N.div_lt_upper_bound; lia. }
        lia.
Qed.

Lemma size_nat_bound n : n < 2 ^ N.of_nat (N.size_nat n).
Proof.
  destruct n as [|q]; cbn [N.size_nat].
  - cbn. lia.
  - induction q as [q IH|q IH|]; cbn [Pos.size_nat].
    + rewrite Nat2N.inj_succ, N.pow_succ_r'. lia.
    + rewrite Nat2N.inj_succ, N.pow_succ_r'. lia.
    + cbn. lia.
Qed.

Lemma digits_value_num n : digits_value (num n) = n.
Proof.
  unfold num. rewrite digits_value_rev. apply le_digits_value.
  pose proof (size_nat_bound n) as H.
  rewrite Nat2N.inj_succ, N.pow_succ_r'. lia.
Qed.

Definition all_digits (t : text) : Prop := Forall (fun c => is_digit c = true) t.

Lemma le_digits_all fuel : forall n, all_digits (le_digits fuel n).
Proof.
  induction fuel as [|fuel IH]; intros n; cbn [le_digits].
  - constructor.
  - constructor.
    + pose proof (N.mod_upper_bound n 10 ltac:(lia)) as Hm.
      generalize dependent (n mod 10). intros r Hr.
      unfold is_digit. apply andb_true_iff. split; apply N.leb_le; lia.
    + destruct (n / 10 =? 0); [constructor|apply IH].
Qed.

Lemma num_all_digits n : all_digits (num n).
Proof. unfold num, all_digits. apply Forall_rev. apply le_digits_all. Qed.

Lemma num_nonempty n : num n <> [].
Proof.
  unfold num. cbn [le_digits rev]. intros H. apply app_eq_nil in H. destruct H as [_ H]. discriminate H.
Qed.

Lemma starts_digit_num n t : starts_digit (num n ++ t) = true.
Proof.
  pose proof (num_all_digits n) as H. pose proof (num_nonempty n) as Hne.
  destruct (num n) as [|c r]; [contradiction|].
  cbn [app starts_digit]. inversion H; assumption.
Qed.

Lemma parse_u32_num n : n <= U32_MAX -> parse_u32 (num n) = Some n.
Proof.
  intros H. unfold parse_u32. rewrite digits_value_num.
  apply N.leb_le in H. rewrite H. reflexivity.
Qed.

Lemma digit_not_plus c : is_digit c = true -> c <> PLUS.
Proof.
  unfold is_digit, PLUS. intros H. apply andb_true_iff in H. destruct H as [H1 H2].
  apply N.leb_le in H1. lia.
Qed.

Lemma num_no_plus n : Forall (fun c => c <> PLUS) (num n).
Proof.
  pose proof (num_all_digits n) as H. unfold all_digits in H.
  eapply Forall_impl; [|exact H]. intros c Hc. apply digit_not_plus. exact Hc.
Qed.

Lemma digits1_num n rest : head_fails is_digit rest -> digits1 (num n ++ rest) = Some (num n, rest).
Proof.
  intros Hr. unfold digits1.
  destruct (take_drop_app is_digit (num n) rest (num_all_digits n) Hr) as [H1 H2].
  rewrite H1, H2. pose proof (num_nonempty n) as Hne.
  destruct (num n); [contradiction|reflexivity].
Qed.

(* what the count capture of a printed header is *)
Definition cnt_capture (omit : bool) (c : N) : option text :=
  if omit && (c =? 1) then None else Some (num c).

Lemma show_cnt_head omit c rest : head_fails is_digit (show_cnt omit c ++ SP :: rest).
Proof. unfold show_cnt. destruct (omit && (c =? 1)); reflexivity. Qed.

Lemma opt_count_show omit c rest :
  opt_count (show_cnt omit c ++ SP :: rest) = (cnt_capture omit c, SP :: rest).
Proof.
  unfold show_cnt, cnt_capture. destruct (omit && (c =? 1)).
  - reflexivity.
  - cbn [app opt_count]. change (COMMA =? COMMA) with true. cbv iota.
    rewrite digits1_num by reflexivity. reflexivity.
Qed.

Lemma show_cnt_no_plus omit c : Forall (fun x => x <> PLUS) (show_cnt omit c).
Proof.
  unfold show_cnt. destruct (omit && (c =? 1)).
  - constructor.
  - constructor; [discriminate|apply num_no_plus].
Qed.

(* ------------------------------------------------------------------ *)
(* the last '+' that is followed by a digit *)

Lemma lpd_none t : has_plus_digit t = false -> last_plus_digits t = None.
Proof.
  induction t as [|c t IH]; cbn [has_plus_digit last_plus_digits]; intros H.
  - reflexivity.
  - apply orb_false_iff in H. destruct H as [H1 H2]. rewrite (IH H2), H1. reflexivity.
Qed.

Lemma hpd_app_noplus a b : Forall (fun c => c <> PLUS) a -> has_plus_digit (a ++ b) = has_plus_digit b.
Proof.
  intros Ha. induction Ha as [|c a Hc Ha IH]; cbn [app has_plus_digit].
  - reflexivity.
  - apply N.eqb_neq in Hc. rewrite Hc, IH. reflexivity.
Qed.

Lemma lpd_found pre r :
  starts_digit r = true -> last_plus_digits r = None -> last_plus_digits (pre ++ PLUS :: r) = Some r.
Proof.
  intros Hd Hn. induction pre as [|c pre IH]; cbn [app last_plus_digits].
  - rewrite Hn, Hd. reflexivity.
  - rewrite IH. reflexivity.
Qed.

(* ------------------------------------------------------------------ *)
(* the printed hunk header against the two lines_patterns *)

Definition sec_tail (h : hunk) : text := match section h with [] => [] | s => SP :: s end.
Definition hdr_tail (h : hunk) : text :=
  num (n_start h) ++ show_cnt (omit_n h) (n_cnt h) ++ SP :: AT :: AT :: sec_tail h.

Lemma render_hunk_header_split h :
  render_hunk_header h =
  AT :: AT :: (SP :: MINUS :: num (o_start h) ++ show_cnt (omit_o h) (o_cnt h) ++ [SP]) ++ PLUS :: hdr_tail h.
Proof.
  unfold render_hunk_header, hdr_tail, sec_tail. cbn [app].
  repeat rewrite <- app_assoc. cbn [app]. reflexivity.
Qed.

Lemma captures_tail h :
  take_while is_digit (hdr_tail h) = num (n_start h) /\
  fst (opt_count (drop_while is_digit (hdr_tail h))) = cnt_capture (omit_n h) (n_cnt h).
Proof.
  unfold hdr_tail.
  destruct (take_drop_app is_digit (num (n_start h))
              (show_cnt (omit_n h) (n_cnt h) ++ SP :: AT :: AT :: sec_tail h)
              (num_all_digits _) (show_cnt_head _ _ _)) as [H1 H2].
  rewrite H1, H2, opt_count_show. split; reflexivity.
Qed.

Lemma hunk_header_cur_render h :
  has_plus_digit (section h) = false ->
  hunk_header_cur (render_hunk_header h) = Some (num (n_start h), cnt_capture (omit_n h) (n_cnt h)).
Proof.
  intros Hs. rewrite render_hunk_header_split. unfold hunk_header_cur.
  change (at2 (AT :: AT :: ?x)) with true. cbv iota. cbn [skipn].
  rewrite lpd_found.
  - destruct (captures_tail h) as [H1 H2]. rewrite H1, H2. reflexivity.
  - unfold hdr_tail. apply starts_digit_num.
  - apply lpd_none. unfold hdr_tail.
    rewrite hpd_app_noplus by apply num_no_plus.
    rewrite hpd_app_noplus by apply show_cnt_no_plus.
    change (SP :: AT :: AT :: sec_tail h) with ([SP; AT; AT] ++ sec_tail h).
    rewrite hpd_app_noplus by (repeat constructor; discriminate).
    unfold sec_tail. destruct (section h) as [|c s] eqn:E.
    + reflexivity.
    + change (SP :: c :: s) with ([SP] ++ c :: s).
      rewrite hpd_app_noplus by (repeat constructor; discriminate). exact Hs.
Qed.

Lemma expect_hit c t : expect c (c :: t) = Some t.
Proof. cbn [expect]. rewrite N.eqb_refl. reflexivity. Qed.

Lemma hunk_header_fixed_render h :
  hunk_header_fixed (render_hunk_header h) = Some (num (n_start h), cnt_capture (omit_n h) (n_cnt h)).
Proof.
  rewrite render_hunk_header_split. unfold hunk_header_fixed.
  change (at2 (AT :: AT :: ?x)) with true. cbv iota. cbn [skipn app].
  rewrite !expect_hit.
  rewrite <- !app_assoc. cbn [app].
  rewrite digits1_num by apply show_cnt_head.
  rewrite opt_count_show. cbn [snd].
  rewrite !expect_hit.
  unfold hdr_tail. rewrite digits1_num by apply show_cnt_head.
  rewrite opt_count_show. reflexivity.
Qed.

(* ------------------------------------------------------------------ *)
(* the printed file header against diff_pattern *)

Lemma drop_component_after_slash t : drop_component t = after_slash t.
Proof. induction t as [|c t IH]; cbn [drop_component after_slash]; [reflexivity|rewrite IH; reflexivity]. Qed.

Lemma strip_skip_groups p : forall t, strip p t = skip_groups p t.
Proof.
  induction p as [|p IH]; intros t; cbn [strip skip_groups].
  - reflexivity.
  - rewrite drop_component_after_slash. destruct (after_slash t); [apply IH|reflexivity].
Qed.

Lemma after_slash_app a b s : after_slash a = Some s -> after_slash (a ++ b) = Some (s ++ b).
Proof.
  induction a as [|c a IH]; cbn [app after_slash]; intros H.
  - discriminate H.
  - destruct (c =? SLASH).
    + injection H as <-. reflexivity.
    + apply IH. exact H.
Qed.

Lemma after_slash_none_app a b :
  after_slash a = None -> no_slash b -> after_slash (a ++ b) = None.
Proof.
  unfold no_slash. intros Ha Hb. induction a as [|c a IH]; cbn [app after_slash] in *.
  - induction b as [|c b IHb]; cbn [after_slash existsb] in *.
    + reflexivity.
    + apply orb_false_iff in Hb. destruct Hb as [H1 H2]. rewrite H1. apply IHb. exact H2.
  - destruct (c =? SLASH); [discriminate Ha|apply IH; exact Ha].
Qed.

Lemma skip_groups_app p : forall a b s, skip_groups p a = Some s -> skip_groups p (a ++ b) = Some (s ++ b).
Proof.
  induction p as [|p IH]; intros a b s H; cbn [skip_groups] in *.
  - injection H as <-. reflexivity.
  - destruct (after_slash a) as [a'|] eqn:E; [|discriminate H].
    rewrite (after_slash_app a b a' E). apply IH. exact H.
Qed.

Lemma skip_groups_none_app p : forall a b,
  skip_groups p a = None -> no_slash b -> skip_groups p (a ++ b) = None.
Proof.
  induction p as [|p IH]; intros a b H Hb; cbn [skip_groups] in *.
  - discriminate H.
  - destruct (after_slash a) as [a'|] eqn:E.
    + rewrite (after_slash_app a b a' E). apply IH; assumption.
    + rewrite after_slash_none_app by assumption. reflexivity.
Qed.

Lemma take_nonws_app s stamp : no_ws s -> stamp_ok stamp -> take_nonws (s ++ stamp) = s.
Proof.
  intros Hs Hst. unfold take_nonws.
  apply (take_drop_app (fun c => negb (is_whitespace c)) s stamp).
  - apply existsb_false_Forall. exact Hs.
  - destruct stamp as [|c r]; cbn [head_fails stamp_ok] in *; [exact I|rewrite Hst; reflexivity].
Qed.

Lemma plus3ws_new_header f : plus3ws (render_new_header f) = true.
Proof. reflexivity. Qed.

Lemma match_file_header_render p f s :
  strip p (new_path f) = Some s -> no_ws s -> stamp_ok (new_stamp f) ->
  match_file_header p (render_new_header f) = Some s.
Proof.
  intros Hs Hws Hst. unfold match_file_header. rewrite plus3ws_new_header.
  unfold render_new_header. cbn [app skipn].
  rewrite strip_skip_groups in Hs. rewrite (skip_groups_app p _ _ _ Hs).
  rewrite take_nonws_app by assumption. reflexivity.
Qed.

Lemma match_file_header_render_none p f :
  strip p (new_path f) = None -> no_slash (new_stamp f) ->
  match_file_header p (render_new_header f) = None.
Proof.
  intros Hs Hst. unfold match_file_header. rewrite plus3ws_new_header.
  unfold render_new_header. cbn [app skipn].
  rewrite strip_skip_groups in Hs. rewrite skip_groups_none_app by assumption. reflexivity.
Qed.

(* lines that cannot be headers *)
Lemma at2_not_plus3ws l : at2 l = true -> plus3ws l = false.
Proof.
  destruct l as [|a [|b [|c [|w l]]]]; cbn [at2 plus3ws]; try reflexivity.
  intros H. apply andb_true_iff in H. destruct H as [H _]. apply N.eqb_eq in H. subst a. reflexivity.
Qed.

Lemma match_file_header_none p l : plus3ws l = false -> match_file_header p l = None.
Proof. intros H. unfold match_file_header. rewrite H. reflexivity. Qed.

Lemma file_header_cur_none p l : plus3ws l = false -> file_header_cur p l = FhNone.
Proof. intros H. unfold file_header_cur. rewrite match_file_header_none by exact H. reflexivity. Qed.

Lemma file_header_fixed_none p l : plus3ws l = false -> file_header_fixed p l = FhNone.
Proof. intros H. unfold file_header_fixed. rewrite match_file_header_none by exact H. rewrite H. reflexivity. Qed.

Lemma hunk_header_cur_none l : at2 l = false -> hunk_header_cur l = None.
Proof. intros H. unfold hunk_header_cur. rewrite H. reflexivity. Qed.

Lemma hunk_header_fixed_none l : at2 l = false -> hunk_header_fixed l = None.
Proof. intros H. unfold hunk_header_fixed. rewrite H. reflexivity. Qed.

Lemma body_shape_not_at l : body_shape l -> at2 l = false.
Proof.
  destruct l as [|c [|c2 l]]; cbn [body_shape at2]; intros H; try reflexivity.
  destruct H as [ -> | [ -> | [ -> | -> ]]]; reflexivity.
Qed.

(* ------------------------------------------------------------------ *)
(* the loop *)

Definition push (s : state) (out : list range) : state :=
  mkState (st_cur s) (add_files out (st_files s)) (st_ranges s ++ out).
Definition set_cur (c : option text) (s : state) : state := mkState c (st_files s) (st_ranges s).

Lemma add_files_app a b fs : add_files (a ++ b) fs = add_files b (add_files a fs).
Proof. unfold add_files. apply fold_left_app. Qed.

Lemma push_nil s : push s [] = s.
Proof. destruct s as [c fs rs]. unfold push. cbn. rewrite app_nil_r. reflexivity. Qed.

Lemma push_push s a b : push (push s a) b = push s (a ++ b).
Proof. unfold push. cbn [st_cur st_files st_ranges]. rewrite add_files_app, app_assoc. reflexivity. Qed.

Lemma push_set_cur c s o : push (set_cur c s) o = set_cur c (push s o).
Proof. reflexivity. Qed.

Lemma set_cur_set_cur c c' s : set_cur c' (set_cur c s) = set_cur c' s.
Proof. reflexivity. Qed.

Lemma set_cur_same s : set_cur (st_cur s) s = s.
Proof. destruct s; reflexivity. Qed.

Section Loop.
Variable fh : text -> fh_event.
Variable hh : text -> option hunk_captures.
Variable filt : text -> bool.

Let step := step fh hh filt.
Let scan_lines := scan_lines fh hh filt.

Definition cur_after (s : state) (l : text) : option text :=
  match fh l with
  | FhFile f => Some f
  | FhReset => None
  | FhNone => st_cur s
  end.

Lemma scan_lines_app a : forall s b,
  scan_lines s (a ++ b) = match scan_lines s a with Ok s' => scan_lines s' b | Panic => Panic end.
Proof.
  unfold scan_lines. induction a as [|l a IH]; intros s b; cbn [app Model.scan_lines].
  - reflexivity.
  - destruct (Model.step fh hh filt s l) as [s'|]; [apply IH|reflexivity].
Qed.

(* a line on which lines_pattern fails only moves current_file *)
Lemma step_nohh s l : hh l = None -> step s l = Ok (set_cur (cur_after s l) s).
Proof.
  intros H. unfold step, Model.step, cur_after, set_cur. rewrite H.
  destruct (fh l) as [|f|]; cbn [st_cur].
  - destruct (st_cur s) as [file|]; [destruct (negb (filt file))|]; reflexivity.
  - destruct (negb (filt f)); reflexivity.
  - reflexivity.
Qed.

(* a line on which both patterns fail does nothing *)
Lemma step_inert s l : fh l = FhNone -> hh l = None -> step s l = Ok s.
Proof.
  intros H1 H2. rewrite step_nohh by exact H2. unfold cur_after. rewrite H1.
  rewrite set_cur_same. reflexivity.
Qed.

Lemma scan_inert_lines ls : forall s,
  Forall (fun l => fh l = FhNone /\ hh l = None) ls -> scan_lines s ls = Ok s.
Proof.
  unfold scan_lines. induction ls as [|l ls IH]; intros s H; cbn [Model.scan_lines].
  - reflexivity.
  - inversion H as [|l' ls' [H1 H2] Hls]; subst.
    fold step. rewrite step_inert by assumption. apply IH. exact Hls.
Qed.

Lemma scan_nohh_lines ls : forall s,
  Forall (fun l => hh l = None) ls -> exists c, scan_lines s ls = Ok (set_cur c s).
Proof.
  unfold scan_lines. induction ls as [|l ls IH]; intros s H; cbn [Model.scan_lines].
  - exists (st_cur s). rewrite set_cur_same. reflexivity.
  - inversion H as [|l' ls' H1 Hls]; subst.
    fold step. rewrite step_nohh by assumption.
    destruct (IH (set_cur (cur_after s l) s) Hls) as [c Hc]. exists c. rewrite Hc.
    rewrite set_cur_set_cur. reflexivity.
Qed.

(* what a header line with the given captures pushes *)
Definition header_out (cur : option text) (a c : N) : list range :=
  match cur with
  | Some file => if filt file then (if c =? 0 then [] else [(file, a, a + c - 1)]) else []
  | None => []
  end.

Lemma step_header s l a om c :
  fh l = FhNone -> hh l = Some (num a, cnt_capture om c) ->
  a <= U32_MAX -> c <= U32_MAX -> (c <> 0 -> a + c <= U32_MAX) ->
  step s l = Ok (push s (header_out (st_cur s) a c)).
Proof.
  intros Hfh Hhh Ha Hc Hac. unfold step, Model.step, header_out. rewrite Hfh, Hhh.
  destruct s as [cur fs rs]. cbn [st_cur st_files st_ranges].
  destruct cur as [file|].
  2:{ unfold push. cbn. rewrite app_nil_r. reflexivity. }
  destruct (filt file); cbn [negb].
  2:{ unfold push. cbn. rewrite app_nil_r. reflexivity. }
  rewrite parse_u32_num by exact Ha.
  assert ((match cnt_capture om c with Some cs => parse_u32 cs | None => Some 1 end) = Some c) as Hcnt.
  { unfold cnt_capture. destruct (om && (c =? 1)) eqn:E.
    - apply andb_true_iff in E. destruct E as [_ E]. apply N.eqb_eq in E. subst c. reflexivity.
    - apply parse_u32_num. exact Hc. }
  rewrite Hcnt.
  destruct (N.eqb_spec c 0) as [E|E].
  - unfold push. cbn. rewrite app_nil_r. reflexivity.
  - specialize (Hac E). apply N.ltb_ge in Hac. rewrite Hac. reflexivity.
Qed.
End Loop.

(* ------------------------------------------------------------------ *)
(* scanning a printed patch, for any pair of patterns with the five properties G1..G5 *)

Lemma forall_Forall {K A : Type} (P : K -> A -> Prop) (d : list A) :
  (forall k, Forall (P k) d) -> Forall (fun x => forall k, P k x) d.
Proof.
  induction d as [|x d IH]; intros H.
  - constructor.
  - constructor.
    + intros k. specialize (H k). inversion H; assumption.
    + apply IH. intros k. specialize (H k). inversion H; assumption.
Qed.

Lemma all_zero_expected file hs : Forall (fun h => n_cnt h = 0) hs -> flat_map (hunk_expected file) hs = [].
Proof.
  induction 1 as [|h hs Hh Hhs IH]; cbn [flat_map].
  - reflexivity.
  - unfold hunk_expected at 1. rewrite Hh. rewrite IH. reflexivity.
Qed.

Section Generic.
Variable p : nat.
Variable fh : text -> fh_event.
Variable hh : text -> option hunk_captures.
Variable filt : text -> bool.
Variable sec_ok : text -> Prop.
Variable nostrip_ok : file_diff -> Prop.
Hypothesis G1 : forall l, plus3ws l = false -> fh l = FhNone.
Hypothesis G2 : forall l, at2 l = false -> hh l = None.
Hypothesis G3 : forall h, sec_ok (section h) ->
  hh (render_hunk_header h) = Some (num (n_start h), cnt_capture (omit_n h) (n_cnt h)).
Hypothesis G4 : forall f s, strip p (new_path f) = Some s -> no_ws s -> stamp_ok (new_stamp f) ->
  fh (render_new_header f) = FhFile s.
Hypothesis G5 : forall f, strip p (new_path f) = None -> nostrip_ok f ->
  all_zero f \/ fh (render_new_header f) = FhReset.

Let scan_lines := scan_lines fh hh filt.

Definition hunk_good (h : hunk) : Prop :=
  Forall body_shape (body h) /\ Forall (fun l => plus3ws l = false) (body h) /\ fits_u32 h /\ sec_ok (section h).

Definition hunks_out (cur : option text) (hs : list hunk) : list range :=
  match cur with
  | Some file => if filt file then flat_map (hunk_expected file) hs else []
  | None => []
  end.

Lemma hunks_out_cons cur h hs : hunks_out cur (h :: hs) = hunks_out cur [h] ++ hunks_out cur hs.
Proof.
  unfold hunks_out. destruct cur as [file|]; [|reflexivity].
  destruct (filt file); [|reflexivity]. cbn [flat_map]. rewrite app_nil_r. reflexivity.
Qed.

Lemma header_out_hunk cur h : header_out filt cur (n_start h) (n_cnt h) = hunks_out cur [h].
Proof.
  unfold header_out, hunks_out, hunk_expected. destruct cur as [file|]; [|reflexivity].
  destruct (filt file); [|reflexivity]. cbn [flat_map]. rewrite app_nil_r. reflexivity.
Qed.

Lemma scan_hunk s h : hunk_good h ->
  scan_lines s (render_hunk h) = Ok (push s (hunks_out (st_cur s) [h])).
Proof.
  intros (Hshape & Hbody & (Ha & Hc & Hac) & Hsec).
  unfold scan_lines, render_hunk. cbn [Model.scan_lines].
  rewrite (step_header fh hh filt s (render_hunk_header h) (n_start h) (omit_n h) (n_cnt h)).
  - rewrite header_out_hunk. apply scan_inert_lines.
    apply Forall_forall. intros l Hl.
    rewrite Forall_forall in Hshape, Hbody. split.
    + apply G1. apply Hbody. exact Hl.
    + apply G2. apply body_shape_not_at. apply Hshape. exact Hl.
  - apply G1. reflexivity.
  - apply G3. exact Hsec.
  - exact Ha.
  - exact Hc.
  - exact Hac.
Qed.

Lemma scan_hunks hs : forall s, Forall hunk_good hs ->
  scan_lines s (flat_map render_hunk hs) = Ok (push s (hunks_out (st_cur s) hs)).
Proof.
  induction hs as [|h hs IH]; intros s H.
  - cbn [flat_map]. unfold scan_lines. cbn [Model.scan_lines].
    replace (hunks_out (st_cur s) []) with (@nil range).
    + rewrite push_nil. reflexivity.
    + unfold hunks_out. destruct (st_cur s) as [file|]; [destruct (filt file)|]; reflexivity.
  - inversion H as [|h' hs' Hh Hhs]; subst.
    cbn [flat_map]. unfold scan_lines. rewrite scan_lines_app. fold scan_lines.
    rewrite scan_hunk by exact Hh. rewrite IH by exact Hhs.
    rewrite push_push. change (st_cur (push s (hunks_out (st_cur s) [h]))) with (st_cur s).
    rewrite <- hunks_out_cons. reflexivity.
Qed.

(* the conditions on one file, in the form the proof uses *)
Definition file_good (f : file_diff) : Prop :=
  Forall (fun l => at2 l = false) (preamble f)
  /\ stamp_ok (new_stamp f)
  /\ (forall s, strip p (new_path f) = Some s -> no_ws s)
  /\ Forall hunk_good (hunks f)
  /\ (strip p (new_path f) = None -> nostrip_ok f).

Lemma scan_file f s : file_good f ->
  exists c, scan_lines s (render_file f) = Ok (set_cur c (push s (file_expected p filt f))).
Proof.
  intros (Hpre & Hstamp & Hpath & Hhunks & Hnostrip).
  unfold render_file.
  change (preamble f ++ [render_old_header f; render_new_header f] ++ flat_map render_hunk (hunks f))
    with (preamble f ++ [render_old_header f] ++ [render_new_header f] ++ flat_map render_hunk (hunks f)).
  rewrite app_assoc. unfold scan_lines. rewrite scan_lines_app.
  destruct (scan_nohh_lines fh hh filt (preamble f ++ [render_old_header f]) s) as [c1 Hc1].
  { apply Forall_app. split.
    - eapply Forall_impl; [|exact Hpre]. intros l Hl. apply G2. exact Hl.
    - constructor; [|constructor]. apply G2. reflexivity. }
  rewrite Hc1. cbn [app Model.scan_lines].
  rewrite step_nohh by (apply G2; reflexivity).
  rewrite set_cur_set_cur. fold scan_lines.
  destruct (strip p (new_path f)) as [sp|] eqn:Es.
  - (* the header matches *)
    unfold cur_after. rewrite (G4 f sp Es (Hpath sp eq_refl) Hstamp).
    rewrite scan_hunks by exact Hhunks. exists (Some sp).
    unfold file_expected. rewrite Es. reflexivity.
  - (* fewer than p slashes *)
    unfold file_expected. rewrite Es.
    destruct (G5 f Es (Hnostrip eq_refl)) as [Hz|Hreset].
    + rewrite scan_hunks by exact Hhunks. cbn [st_cur set_cur].
      exists (cur_after fh (set_cur c1 s) (render_new_header f)).
      replace (hunks_out (cur_after fh (set_cur c1 s) (render_new_header f)) (hunks f)) with (@nil range).
      * reflexivity.
      * unfold hunks_out. destruct (cur_after fh (set_cur c1 s) (render_new_header f)) as [file|]; [|reflexivity].
        destruct (filt file); [|reflexivity]. symmetry. apply all_zero_expected. exact Hz.
    + unfold cur_after. rewrite Hreset. rewrite scan_hunks by exact Hhunks. exists None. reflexivity.
Qed.

Lemma scan_patch d : forall s, Forall file_good d ->
  exists c, scan_lines s (render d) = Ok (set_cur c (push s (expected p filt d))).
Proof.
  induction d as [|f d IH]; intros s H.
  - exists (st_cur s). cbn. rewrite push_nil, set_cur_same. reflexivity.
  - inversion H as [|f' d' Hf Hd]; subst.
    unfold render, expected. cbn [flat_map]. fold (render d). fold (expected p filt d).
    unfold scan_lines. rewrite scan_lines_app. fold scan_lines.
    destruct (scan_file f s Hf) as [c1 Hc1]. rewrite Hc1.
    destruct (IH (set_cur c1 (push s (file_expected p filt f))) Hd) as [c2 Hc2].
    exists c2. rewrite Hc2. rewrite push_set_cur, set_cur_set_cur, push_push. reflexivity.
Qed.

Lemma scan_with_patch d : Forall file_good d ->
  scan_with fh hh filt (render d) = Ok (file_set (expected p filt d), expected p filt d).
Proof.
  intros H. unfold scan_with.
  destruct (scan_patch d (mkState None [] []) H) as [c Hc].
  unfold scan_lines in Hc. rewrite Hc. reflexivity.
Qed.
End Generic.

(* ------------------------------------------------------------------ *)
(* the two scanners *)

Lemma the_scanner_cases : the_scanner = current_code \/ the_scanner = repaired.
Proof. first [left; reflexivity | right; reflexivity]. Qed.

Lemma hunks_good (sec_ok : text -> Prop) hs :
  Forall (fun h => Forall body_shape (body h)) hs ->
  Forall (fun h => Forall (fun l => plus3ws l = false) (body h)) hs ->
  Forall fits_u32 hs ->
  Forall (fun h => sec_ok (section h)) hs ->
  Forall (hunk_good sec_ok) hs.
Proof.
  intros H1 H2 H3 H4. rewrite Forall_forall in *. intros h Hh.
  unfold hunk_good. repeat split; auto.
  - apply (H3 h Hh).
  - apply (H3 h Hh).
  - apply (H3 h Hh).
Qed.

Lemma file_good_cur p f : (forall k, holds p k f) ->
  file_good p (fun t => has_plus_digit t = false) all_zero f.
Proof.
  intros H. unfold file_good. repeat split.
  - exact (H CPre).
  - exact (H CStamp).
  - exact (H CPath).
  - apply hunks_good; [exact (H CShape)|exact (H CBody)|exact (H CU32)|exact (H CSection)].
  - intros Hn. destruct (H CSlashes) as [Hs|Hz]; [contradiction|exact Hz].
Qed.

Lemma file_good_fixed p f : (forall k, holds_fixed p k f) ->
  file_good p (fun _ => True) (fun f => no_slash (new_stamp f) \/ all_zero f) f.
Proof.
  intros H. unfold file_good. repeat split.
  - exact (H CPre).
  - exact (H CStamp).
  - exact (H CPath).
  - apply hunks_good; [exact (H CShape)|exact (H CBody)|exact (H CU32)|].
    apply Forall_forall. intros h _. exact I.
  - exact (H CSlashes).
Qed.

Lemma scan_render_cur p filt d : well_formed p d ->
  scan p filt (render d) = Ok (file_set (expected p filt d), expected p filt d).
Proof.
  intros H. unfold scan, scan_of, current_code. cbn [sc_fh sc_hh].
  apply (scan_with_patch p (file_header_cur p) hunk_header_cur filt
           (fun t => has_plus_digit t = false) all_zero).
  - apply file_header_cur_none.
  - apply hunk_header_cur_none.
  - intros h Hs. apply hunk_header_cur_render. exact Hs.
  - intros f s Hs Hws Hst. unfold file_header_cur.
    rewrite (match_file_header_render p f s Hs Hws Hst). reflexivity.
  - intros f _ Hz. left. exact Hz.
  - apply forall_Forall in H. eapply Forall_impl; [|exact H]. intros f Hf. apply file_good_cur. exact Hf.
Qed.

Lemma scan_render_fixed p filt d : well_formed_fixed p d ->
  scan_fixed p filt (render d) = Ok (file_set (expected p filt d), expected p filt d).
Proof.
  intros H. unfold scan_fixed, scan_of, repaired. cbn [sc_fh sc_hh].
  apply (scan_with_patch p (file_header_fixed p) hunk_header_fixed filt
           (fun _ => True) (fun f => no_slash (new_stamp f) \/ all_zero f)).
  - apply file_header_fixed_none.
  - apply hunk_header_fixed_none.
  - intros h _. apply hunk_header_fixed_render.
  - intros f s Hs Hws Hst. unfold file_header_fixed.
    rewrite (match_file_header_render p f s Hs Hws Hst). reflexivity.
  - intros f Hs [Hn|Hz]; [right|left; exact Hz].
    unfold file_header_fixed. rewrite (match_file_header_render_none p f Hs Hn).
    rewrite plus3ws_new_header. reflexivity.
  - apply forall_Forall in H. eapply Forall_impl; [|exact H]. intros f Hf. apply file_good_fixed. exact Hf.
Qed.

Lemma holds_weaken p k f : holds p k f -> holds p CSlashes f -> holds_fixed p k f.
Proof.
  intros Hk Hb. destruct k; try exact Hk.
  - exact I.
  - cbn [holds holds_fixed] in *. intros Hn. right. destruct Hb as [Hs|Hz]; [contradiction|exact Hz].
Qed.

Lemma well_formed_weaken p d : well_formed p d -> well_formed_fixed p d.
Proof.
  intros H k. pose proof (H k) as Hk. pose proof (H CSlashes) as Hb.
  rewrite Forall_forall in *. intros f Hf. apply holds_weaken; auto.
Qed.

Lemma scan_diff_render p filt d : well_formed p d ->
  scan_diff p filt (render d) = Ok (file_set (expected p filt d), expected p filt d).
Proof.
  intros H. unfold scan_diff. destruct the_scanner_cases as [E|E]; rewrite E.
  - apply scan_render_cur. exact H.
  - apply scan_render_fixed. apply well_formed_weaken. exact H.
Qed.

(* ------------------------------------------------------------------ *)
(* files is always the set of the paths of the ranges *)

Lemma existsb_eqb_text_In f fs : existsb (eqb_text f) fs = true <-> In f fs.
Proof.
  rewrite existsb_exists. split.
  - intros (x & Hx & He). apply eqb_text_spec in He. subst x. exact Hx.
  - intros H. exists f. split; [exact H|]. apply eqb_text_spec. reflexivity.
Qed.

Lemma set_insert_In f g fs : In g (set_insert f fs) <-> g = f \/ In g fs.
Proof.
  unfold set_insert. destruct (existsb (eqb_text f) fs) eqn:E.
  - apply existsb_eqb_text_In in E. split; [auto|]. intros [->|H]; assumption.
  - rewrite in_app_iff. cbn [In]. split.
    + intros [H|[H|[]]]; [right; exact H|left; symmetry; exact H].
    + intros [H|H]; [right; left; symmetry; exact H|left; exact H].
Qed.

Lemma NoDup_snoc (f : text) fs : NoDup fs -> ~ In f fs -> NoDup (fs ++ [f]).
Proof.
  induction 1 as [|x fs Hx Hfs IH]; intros Hf; cbn [app].
  - constructor; [intros []|constructor].
  - constructor.
    + rewrite in_app_iff. cbn [In]. intros [H|[H|[]]]; [exact (Hx H)|].
      apply Hf. left. symmetry. exact H.
    + apply IH. intros H. apply Hf. right. exact H.
Qed.

Lemma set_insert_NoDup f fs : NoDup fs -> NoDup (set_insert f fs).
Proof.
  intros H. unfold set_insert. destruct (existsb (eqb_text f) fs) eqn:E.
  - exact H.
  - apply NoDup_snoc; [exact H|].
    intros Hx. apply existsb_eqb_text_In in Hx. rewrite Hx in E. discriminate E.
Qed.

Lemma add_files_In rs : forall fs g, In g (add_files rs fs) <-> In g fs \/ In g (map rpath rs).
Proof.
  unfold add_files. induction rs as [|r rs IH]; intros fs g; cbn [fold_left map In].
  - tauto.
  - rewrite IH, set_insert_In. split.
    + intros [[H|H]|H]; auto.
    + intros [H|[H|H]]; auto.
Qed.

Lemma add_files_NoDup rs : forall fs, NoDup fs -> NoDup (add_files rs fs).
Proof.
  unfold add_files. induction rs as [|r rs IH]; intros fs H; cbn [fold_left].
  - exact H.
  - apply IH. apply set_insert_NoDup. exact H.
Qed.

Lemma file_set_spec rs : NoDup (file_set rs) /\ forall f, In f (file_set rs) <-> In f (map rpath rs).
Proof.
  unfold file_set. split.
  - apply add_files_NoDup. constructor.
  - intros f. rewrite add_files_In. cbn [In]. tauto.
Qed.

Lemma set_insert_nonempty f fs : set_insert f fs <> [].
Proof.
  unfold set_insert. destruct (existsb (eqb_text f) fs) eqn:E.
  - destruct fs; [discriminate E|discriminate].
  - intros H. apply app_eq_nil in H. destruct H as [_ H]. discriminate H.
Qed.

Lemma add_files_nonempty rs : forall fs, fs <> [] -> add_files rs fs <> [].
Proof.
  unfold add_files. induction rs as [|r rs IH]; intros fs H; cbn [fold_left].
  - exact H.
  - apply IH. apply set_insert_nonempty.
Qed.

Lemma file_set_nonempty r rs : file_set (r :: rs) <> [].
Proof. unfold file_set, add_files. cbn [fold_left]. apply add_files_nonempty. apply set_insert_nonempty. Qed.

Lemma step_files_inv fh hh filt s l s' :
  st_files s = file_set (st_ranges s) -> step fh hh filt s l = Ok s' -> st_files s' = file_set (st_ranges s').
Proof.
  intros Hinv. unfold step.
  set (cur' := match fh l with FhFile f => Some f | FhReset => None | FhNone => st_cur s end).
  destruct cur' as [file|]; [|intros H; injection H as <-; exact Hinv].
  destruct (negb (filt file)); [intros H; injection H as <-; exact Hinv|].
  destruct (hh l) as [[ds oc]|]; [|intros H; injection H as <-; exact Hinv].
  destruct (parse_u32 ds) as [a|]; [|discriminate].
  destruct (match oc with Some cs => parse_u32 cs | None => Some 1 end) as [c|]; [|discriminate].
  destruct (c =? 0); [intros H; injection H as <-; exact Hinv|].
  destruct (U32_MAX <? a + c); [discriminate|].
  intros H. injection H as <-. cbn [st_files st_ranges].
  unfold file_set. rewrite add_files_app. fold (file_set (st_ranges s)). rewrite <- Hinv. reflexivity.
Qed.

Lemma scan_lines_files_inv fh hh filt ls : forall s s',
  st_files s = file_set (st_ranges s) -> scan_lines fh hh filt s ls = Ok s' ->
  st_files s' = file_set (st_ranges s').
Proof.
  induction ls as [|l ls IH]; intros s s' Hinv; cbn [scan_lines].
  - intros H. injection H as <-. exact Hinv.
  - destruct (step fh hh filt s l) as [s1|] eqn:E; [|discriminate].
    apply IH. eapply step_files_inv; eassumption.
Qed.

Lemma scan_of_files sc p filt ls fs rs : scan_of sc p filt ls = Ok (fs, rs) -> fs = file_set rs.
Proof.
  unfold scan_of, scan_with.
  destruct (scan_lines (sc_fh sc p) (sc_hh sc) filt (mkState None [] []) ls) as [s|] eqn:E; [|discriminate].
  intros H. injection H as <- <-.
  eapply scan_lines_files_inv; [|exact E]. reflexivity.
Qed.

(* ------------------------------------------------------------------ *)
(* lines that are not headers *)

Lemma scan_of_insert_inert sc p filt l pre post :
  sc_fh sc p l = FhNone -> sc_hh sc l = None ->
  scan_of sc p filt (pre ++ l :: post) = scan_of sc p filt (pre ++ post).
Proof.
  intros H1 H2. unfold scan_of, scan_with. rewrite !scan_lines_app.
  destruct (scan_lines (sc_fh sc p) (sc_hh sc) filt (mkState None [] []) pre) as [s|]; [|reflexivity].
  cbn [scan_lines]. rewrite step_inert by assumption. reflexivity.
Qed.

(* a line matched by lines_pattern is not matched by diff_pattern *)
Lemma hh_some_at2 sc l x : sc = current_code \/ sc = repaired -> sc_hh sc l = Some x -> at2 l = true.
Proof.
  intros [->| ->]; cbn [sc_hh current_code repaired]; unfold hunk_header_cur, hunk_header_fixed;
    destruct (at2 l); intros H; [reflexivity|discriminate H|reflexivity|discriminate H].
Qed.

Lemma hh_some_fh_none sc p l x :
  sc = current_code \/ sc = repaired -> sc_hh sc l = Some x -> sc_fh sc p l = FhNone.
Proof.
  intros Hsc H. pose proof (hh_some_at2 sc l x Hsc H) as Hat. apply at2_not_plus3ws in Hat.
  destruct Hsc as [->| ->]; cbn [sc_fh current_code repaired].
  - apply file_header_cur_none. exact Hat.
  - apply file_header_fixed_none. exact Hat.
Qed.

Lemma zero_count_skipped_lemma p filt s l ds cs :
  sc_hh the_scanner l = Some (ds, Some cs) -> parse_u32 ds <> None -> parse_u32 cs = Some 0 ->
  step_diff p filt s l = Ok s.
Proof.
  intros Hhh Hds Hcs. unfold step_diff, step.
  rewrite (hh_some_fh_none the_scanner p l _ the_scanner_cases Hhh), Hhh.
  destruct s as [cur fs rs]. cbn [st_cur st_files st_ranges].
  destruct cur as [file|]; [|reflexivity].
  destruct (negb (filt file)); [reflexivity|].
  destruct (parse_u32 ds) as [a|]; [|contradiction].
  rewrite Hcs. reflexivity.
Qed.

Lemma missing_count_is_one_lemma p filt s l ds a file :
  sc_hh the_scanner l = Some (ds, None) -> parse_u32 ds = Some a -> a + 1 <= U32_MAX ->
  st_cur s = Some file -> filt file = true ->
  step_diff p filt s l =
  Ok (mkState (Some file) (set_insert file (st_files s)) (st_ranges s ++ [(file, a, a)])).
Proof.
  intros Hhh Hds Ha Hcur Hf. unfold step_diff, step.
  rewrite (hh_some_fh_none the_scanner p l _ the_scanner_cases Hhh), Hhh, Hcur, Hf, Hds.
  cbn [negb]. change (1 =? 0) with false. cbv iota.
  apply N.ltb_ge in Ha. rewrite Ha. rewrite N.add_sub. reflexivity.
Qed.

(* the printed header with the count left out is read as a count of one *)
Lemma omitted_count_capture h :
  has_plus_digit (section h) = false -> omit_n h = true -> n_cnt h = 1 ->
  sc_hh the_scanner (render_hunk_header h) = Some (num (n_start h), None).
Proof.
  intros Hs Ho Hc.
  assert (cnt_capture (omit_n h) (n_cnt h) = None) as E.
  { unfold cnt_capture. rewrite Ho, Hc. reflexivity. }
  destruct the_scanner_cases as [-> | ->]; cbn [sc_hh current_code repaired].
  - rewrite hunk_header_cur_render by exact Hs. rewrite E. reflexivity.
  - rewrite hunk_header_fixed_render. rewrite E. reflexivity.
Qed.

(* ------------------------------------------------------------------ *)
(* run_rustfmt and main *)

Lemma empty_runs_nothing_lemma r exec :
  fst r = [] \/ snd r = [] -> invocation r = None /\ run_rustfmt exec r = true.
Proof.
  intros H. assert (invocation r = None) as E.
  { unfold invocation. destruct H as [H|H]; rewrite H.
    - reflexivity.
    - destruct (fst r); reflexivity. }
  split; [exact E|]. unfold run_rustfmt. rewrite E. reflexivity.
Qed.

Lemma failure_propagates_lemma exec r inv :
  invocation r = Some inv -> exec inv <> Exited true -> run_rustfmt exec r = false.
Proof.
  intros Hi He. unfold run_rustfmt. rewrite Hi.
  destruct (exec inv) as [|[|]]; try reflexivity. exfalso. apply He. reflexivity.
Qed.

Lemma invocation_nonempty r : fst r <> [] -> snd r <> [] -> invocation r = Some r.
Proof.
  unfold invocation. destruct (fst r); [contradiction|]. destruct (snd r); [contradiction|]. reflexivity.
Qed.

Lemma format_diff_render_lemma p filt exec d : well_formed p d ->
  format_diff p filt exec (render d) =
  match expected p filt d with
  | [] => ExitOk
  | e => match exec (file_set e, e) with
         | Exited true => ExitOk
         | _ => ExitErr
         end
  end.
Proof.
  intros H. unfold format_diff. rewrite scan_diff_render by exact H.
  destruct (expected p filt d) as [|r rs] eqn:E.
  - reflexivity.
  - unfold run_rustfmt. rewrite invocation_nonempty.
    + destruct (exec (file_set (r :: rs), r :: rs)) as [|[|]]; reflexivity.
    + cbn [fst]. apply file_set_nonempty.
    + cbn [snd]. discriminate.
Qed.

(* ------------------------------------------------------------------ *)
(* from the input text to the lines *)

Lemma split_aux_line l : forall cur rest, ~ In LF l ->
  split_incl_aux cur (l ++ LF :: rest) = rev (LF :: rev l ++ cur) :: split_incl_aux [] rest.
Proof.
  induction l as [|c l IH]; intros cur rest Hl; cbn [app split_incl_aux].
  - change (is_lf LF) with true. cbv iota. reflexivity.
  - assert (is_lf c = false) as Hc.
    { unfold is_lf. apply N.eqb_neq. intros E. apply Hl. left. exact E. }
    rewrite Hc. rewrite IH.
    + cbn [rev]. rewrite <- app_assoc. reflexivity.
    + intros H. apply Hl. right. exact H.
Qed.

Lemma split_unlines ls : Forall (fun l => ~ In LF l) ls ->
  split_inclusive (unlines ls) = map (fun l => l ++ [LF]) ls.
Proof.
  unfold split_inclusive, unlines. induction 1 as [|l ls Hl Hls IH]; cbn [map concat].
  - reflexivity.
  - rewrite <- app_assoc. cbn [app]. rewrite split_aux_line by exact Hl.
    rewrite IH. rewrite app_nil_r. cbn [rev]. rewrite rev_involutive. reflexivity.
Qed.

Lemma strip_line_clean l : line_clean l -> strip_line (l ++ [LF]) = l.
Proof.
  intros [_ H]. unfold strip_line. rewrite rev_app_distr. cbn [rev app strip_line_rev].
  change (is_lf LF) with true. cbv iota.
  destruct (rev l) as [|d r] eqn:E.
  - apply (f_equal (@rev char)) in E. rewrite rev_involutive in E. subst l. reflexivity.
  - rewrite H. rewrite <- E. apply rev_involutive.
Qed.

Lemma str_lines_unlines ls : Forall line_clean ls -> str_lines (unlines ls) = ls.
Proof.
  intros H. unfold str_lines. rewrite split_unlines.
  - rewrite map_map. induction H as [|l ls Hl Hls IH]; cbn [map].
    + reflexivity.
    + rewrite strip_line_clean by exact Hl. rewrite IH. reflexivity.
  - eapply Forall_impl; [|exact H]. intros l [Hl _]. exact Hl.
Qed.

Lemma scan_text_render_lemma p filt d : well_formed p d -> Forall line_clean (render d) ->
  scan_text p filt (unlines (render d)) = expected_result p filt d.
Proof.
  intros H Hc. unfold scan_text. rewrite str_lines_unlines by exact Hc.
  apply scan_diff_render. exact H.
Qed.

(* BufRead::lines never yields a line with LF inside: the precondition of the regex models *)
Lemma split_aux_no_lf t : forall cur, ~ In LF cur ->
  Forall (fun l => ~ In LF (strip_line l)) (split_incl_aux cur t).
Proof.
  induction t as [|c t IH]; intros cur Hcur; cbn [split_incl_aux].
  - destruct cur as [|x cur']; constructor; [|constructor].
    unfold strip_line. rewrite rev_involutive.
    cbn [strip_line_rev]. destruct (is_lf x) eqn:Ex.
    + exfalso. apply Hcur. left. unfold is_lf in Ex. apply N.eqb_eq in Ex. exact Ex.
    + rewrite <- in_rev. exact Hcur.
  - destruct (is_lf c) eqn:Ec.
    + constructor; [|apply IH; intros []].
      unfold strip_line. rewrite rev_involutive. cbn [strip_line_rev]. rewrite Ec.
      rewrite <- in_rev. destruct cur as [|d r]; [intros []|].
      destruct (is_cr d); [|exact Hcur]. intros Hin. apply Hcur. right. exact Hin.
    + apply IH. intros [E|Hin]; [|exact (Hcur Hin)].
      subst c. discriminate Ec.
Qed.

Lemma str_lines_no_lf t : Forall (fun l => ~ In LF l) (str_lines t).
Proof.
  unfold str_lines, split_inclusive. apply Forall_map. apply split_aux_no_lf. intros [].
Qed.

(* ------------------------------------------------------------------ *)
(* witnesses: each condition of well_formed is needed *)
From Coq Require Import String Ascii.
Open Scope string_scope.
Open Scope list_scope.

Definition T (s : string) : text := map N_of_ascii (list_ascii_of_string s).

Definition any_file : text -> bool := fun _ => true.

(* a hunk with an unremarkable pre-image *)
Definition hk (ns nc : N) (sec : string) (bd : list string) : hunk :=
  mkHunk 1 1 ns nc false false (T sec) (map T bd).
Definition fl (pre : list string) (oldp newp stamp : string) (hs : list hunk) : file_diff :=
  mkFile (map T pre) (T oldp) [] (T newp) (T stamp) hs.

Ltac wf_solve :=
  cbv beta iota delta [holds holds_fixed all_zero fits_u32 hunks body preamble new_stamp new_path section
       n_cnt n_start stamp_ok body_shape no_slash];
  lazymatch goal with
  | |- Forall _ [] => apply Forall_nil
  | |- Forall _ (_ :: _) => apply Forall_cons; wf_solve
  | |- True => exact I
  | |- _ /\ _ => split; wf_solve
  | |- forall s, _ = Some s -> _ =>
      let s := fresh "s" in let H := fresh "H" in
      intros s H; vm_compute in H; first [discriminate H | injection H as <-; reflexivity]
  | |- _ = None -> _ =>
      let H := fresh "H" in
      intros H; first [ vm_compute in H; discriminate H | wf_solve ]
  | |- _ <> 0%N -> _ =>
      let H := fresh "H" in
      intros H; first [ exfalso; apply H; reflexivity | vm_compute; discriminate ]
  | |- _ \/ _ => first [ left; wf_solve | right; wf_solve ]
  | |- (_ <= _)%N => vm_compute; discriminate
  | |- _ <> None => vm_compute; discriminate
  | |- _ = _ => reflexivity
  end.

Ltac wf_except_solve :=
  let k := fresh "k" in let Hk := fresh "Hk" in
  intros k Hk; destruct k; try (exfalso; apply Hk; reflexivity); wf_solve.

Ltac differs := let H := fresh "H" in intros H; vm_compute in H; discriminate H.

(* (a)  @@ -10,3 +12,4 @@ let y = x +1;   is read as line 1 *)
Definition W_section : patch := Eval vm_compute in
  [fl [] "a/src/x.rs" "b/src/x.rs" "" [mkHunk 10 3 12 4 false false (T "let y = x +1;") [T "+foo"]]].

Lemma section_condition_witness :
  well_formed_except CSection 1 W_section /\
  scan 1 any_file (render W_section) <> expected_result 1 any_file W_section.
Proof. split; [unfold W_section; wf_except_solve|differs]. Qed.

(* (b)  -p1 and a path without slash: the hunk is charged to the previous file *)
Definition W_slashes : patch := Eval vm_compute in
  [fl [] "a/x.rs" "b/x.rs" "" [hk 1 2 "" ["+a"]];
   fl [] "y.rs" "y.rs" "" [hk 7 3 "" ["+b"]]].

Lemma slashes_condition_witness :
  well_formed_except CSlashes 1 W_slashes /\
  scan 1 any_file (render W_slashes) <> expected_result 1 any_file W_slashes.
Proof. split; [unfold W_slashes; wf_except_solve|differs]. Qed.

(* (c) a path with a space is cut at the space *)
Definition W_path : patch := Eval vm_compute in [fl [] "a/my file.rs" "b/my file.rs" "" [hk 1 1 "" ["+a"]]].

Lemma path_condition_witness :
  well_formed_except CPath 1 W_path /\
  scan 1 any_file (render W_path) <> expected_result 1 any_file W_path /\
  scan_fixed 1 any_file (render W_path) <> expected_result 1 any_file W_path /\
  well_formed_fixed_except CPath 1 W_path.
Proof. split; [unfold W_path; wf_except_solve|]. split; [differs|]. split; [differs|unfold W_path; wf_except_solve]. Qed.

(* something glued to the path *)
Definition W_stamp : patch := Eval vm_compute in [fl [] "x.rs" "x.rs" "~" [hk 1 1 "" ["+a"]]].

Lemma stamp_condition_witness :
  well_formed_except CStamp 0 W_stamp /\
  scan 0 any_file (render W_stamp) <> expected_result 0 any_file W_stamp /\
  scan_fixed 0 any_file (render W_stamp) <> expected_result 0 any_file W_stamp /\
  well_formed_fixed_except CStamp 0 W_stamp.
Proof. split; [unfold W_stamp; wf_except_solve|]. split; [differs|]. split; [differs|unfold W_stamp; wf_except_solve]. Qed.

(* an extended header line that looks like a hunk header *)
Definition W_pre : patch := Eval vm_compute in
  [fl [] "a.rs" "a.rs" "" [hk 1 1 "" ["+a"]];
   fl ["@@ -0 +99 @@"] "b.rs" "b.rs" "" [hk 1 1 "" ["+b"]]].

Lemma pre_condition_witness :
  well_formed_except CPre 0 W_pre /\
  scan 0 any_file (render W_pre) <> expected_result 0 any_file W_pre /\
  scan_fixed 0 any_file (render W_pre) <> expected_result 0 any_file W_pre /\
  well_formed_fixed_except CPre 0 W_pre.
Proof. split; [unfold W_pre; wf_except_solve|]. split; [differs|]. split; [differs|unfold W_pre; wf_except_solve]. Qed.

(* a body line that is not one *)
Definition W_shape : patch := Eval vm_compute in [fl [] "a.rs" "a.rs" "" [hk 1 1 "" ["@@ -1 +99 @@"]]].

Lemma shape_condition_witness :
  well_formed_except CShape 0 W_shape /\
  scan 0 any_file (render W_shape) <> expected_result 0 any_file W_shape /\
  scan_fixed 0 any_file (render W_shape) <> expected_result 0 any_file W_shape /\
  well_formed_fixed_except CShape 0 W_shape.
Proof. split; [unfold W_shape; wf_except_solve|]. split; [differs|]. split; [differs|unfold W_shape; wf_except_solve]. Qed.

(* (d) an added line with the text  ++ b/other.rs  : the next hunk goes to other.rs *)
Definition W_body : patch := Eval vm_compute in
  [fl [] "a/x.rs" "b/x.rs" "" [hk 1 2 "" ["+++ b/other.rs"]; hk 8 1 "" ["+z"]]].

Lemma body_condition_witness :
  well_formed_except CBody 1 W_body /\
  scan 1 any_file (render W_body) <> expected_result 1 any_file W_body /\
  scan_fixed 1 any_file (render W_body) <> expected_result 1 any_file W_body /\
  well_formed_fixed_except CBody 1 W_body.
Proof. split; [unfold W_body; wf_except_solve|]. split; [differs|]. split; [differs|unfold W_body; wf_except_solve]. Qed.

(* (e) 4294967295 + 2 overflows: panic *)
Definition W_u32 : patch := Eval vm_compute in [fl [] "x.rs" "x.rs" "" [hk 4294967295 2 "" ["+a"; "+b"]]].

Lemma u32_condition_witness :
  well_formed_except CU32 0 W_u32 /\
  scan 0 any_file (render W_u32) = Panic /\
  scan_fixed 0 any_file (render W_u32) = Panic /\
  well_formed_fixed_except CU32 0 W_u32.
Proof.
  split; [unfold W_u32; wf_except_solve|]. split; [vm_compute; reflexivity|].
  split; [vm_compute; reflexivity|unfold W_u32; wf_except_solve].
Qed.

(* (b') with the repairs:  +++ x.rs TAB 2020/01/01  and -p1: the slash is found in the stamp *)
Definition W_stamp_slash : patch := Eval vm_compute in
  [fl [] "x.rs" "x.rs" (String (ascii_of_nat 9) "2020/01/01") [hk 1 3 "" ["+a"]]].

Lemma fixed_slashes_condition_witness :
  well_formed_fixed_except CSlashes 1 W_stamp_slash /\
  scan_fixed 1 any_file (render W_stamp_slash) <> expected_result 1 any_file W_stamp_slash.
Proof. split; [unfold W_stamp_slash; wf_except_solve|differs]. Qed.

(* the two repairs repair the two witnesses *)
Lemma fixed_repairs_witness :
  scan_fixed 1 any_file (render W_section) = expected_result 1 any_file W_section /\
  scan_fixed 1 any_file (render W_slashes) = expected_result 1 any_file W_slashes.
Proof. split; vm_compute; reflexivity. Qed.

(* (f) a line whose first character is neither '+' nor '@' matches neither pattern:
   `--- old`, `diff --git ...`, `index ...`, `rename from ...`, context, removed lines, ... *)
Lemma first_char_inert p c l : c <> PLUS -> c <> AT ->
  sc_fh the_scanner p (c :: l) = FhNone /\ sc_hh the_scanner (c :: l) = None.
Proof.
  intros Hp Ha.
  assert (plus3ws (c :: l) = false) as H1.
  { destruct l as [|b [|c' [|w l]]]; cbn [plus3ws]; try reflexivity.
    apply N.eqb_neq in Hp. rewrite Hp. reflexivity. }
  assert (at2 (c :: l) = false) as H2.
  { destruct l as [|b l]; cbn [at2]; try reflexivity.
    apply N.eqb_neq in Ha. rewrite Ha. reflexivity. }
  destruct the_scanner_cases as [-> | ->]; cbn [sc_fh sc_hh current_code repaired]; split.
  - apply file_header_cur_none. exact H1.
  - apply hunk_header_cur_none. exact H2.
  - apply file_header_fixed_none. exact H1.
  - apply hunk_header_fixed_none. exact H2.
Qed.

Lemma scan_diff_files p filt ls fs rs : scan_diff p filt ls = Ok (fs, rs) ->
  fs = file_set rs /\ NoDup fs /\ forall f, In f fs <-> In f (map rpath rs).
Proof.
  intros H. apply scan_of_files in H. subst fs. destruct (file_set_spec rs) as [H1 H2].
  split; [reflexivity|]. split; assumption.
Qed.

Lemma format_diff_failure p filt exec ls r inv :
  scan_diff p filt ls = Ok r -> invocation r = Some inv -> exec inv <> Exited true ->
  format_diff p filt exec ls = ExitErr.
Proof.
  intros Hs Hi He. unfold format_diff. rewrite Hs.
  rewrite (failure_propagates_lemma exec r inv Hi He). reflexivity.
Qed.

Lemma scan_diff_insert_inert p filt l pre post :
  sc_fh the_scanner p l = FhNone -> sc_hh the_scanner l = None ->
  scan_diff p filt (pre ++ l :: post) = scan_diff p filt (pre ++ post).
Proof. exact (scan_of_insert_inert the_scanner p filt l pre post). Qed.

Lemma failure_propagates_both p filt exec ls r inv :
  scan_diff p filt ls = Ok r -> invocation r = Some inv -> exec inv <> Exited true ->
  run_rustfmt exec r = false /\ format_diff p filt exec ls = ExitErr.
Proof.
  intros Hs Hi He. split.
  - exact (failure_propagates_lemma exec r inv Hi He).
  - exact (format_diff_failure p filt exec ls r inv Hs Hi He).
Qed.
