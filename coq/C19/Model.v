(* C19/Model.v — executable model of rustfmt-format-diff.
   Sources modelled:
     src/format-diff/main.rs:122-188  scan_diff    (file_header_*, hunk_header_*, step, scan_lines, scan_with)
     src/format-diff/main.rs:89-118   run_rustfmt  (invocation, run_rustfmt)
     src/format-diff/main.rs:64-87    main, run    (format_diff)
   and, as the specification side, an abstract unified diff with its printer (patch, render, expected).
   Definitions only; proofs are in Lemmas.v.

   Modelling restrictions (all documented where they apply):
   * a line is what BufRead::lines yields: no LF inside (so `.` of the regex crate, which excludes LF, is
     `any character`); [scan_text] goes through Base.Text.str_lines, which guarantees it.  Input that is not
     UTF-8 makes `line.unwrap()` panic and is outside the model (texts are sequences of scalar values).
   * `\d` of the regex crate is Unicode Nd; the model uses ASCII digits.  On a line where the last `+` that is
     followed by an Nd character is followed by a non-ASCII one, the code panics in `parse::<u32>().unwrap()`;
     the model is only claimed for lines without non-ASCII Nd characters.
   * the user's filter regex `^filter$` is an abstract function [filt : text -> bool]; a filter that does not
     compile (Err(IncorrectFilter) before anything is read) is outside the model.
   * u32 overflow of `start_line + line_count` is the debug-build behaviour (panic); a release build wraps. *)
From V Require Import Base.Text.
Open Scope N_scope.

Definition PLUS : char := 43.
Definition MINUS : char := 45.
Definition AT : char := 64.
Definition SLASH : char := 47.
Definition COMMA : char := 44.
Definition BACKSLASH : char := 92.

Definition is_digit (c : char) : bool := (48 <=? c) && (c <=? 57).

Fixpoint take_while (f : char -> bool) (t : text) : text :=
  match t with
  | c :: t' => if f c then c :: take_while f t' else []
  | [] => []
  end.
Fixpoint drop_while (f : char -> bool) (t : text) : text :=
  match t with
  | c :: t' => if f c then drop_while f t' else t
  | [] => []
  end.

(* ------------------------------------------------------------------ *)
(* Result of code that may panic *)
Inductive res (A : Type) : Type :=
| Ok (x : A)
| Panic.
Arguments Ok {A} x.
Arguments Panic {A}.

(* ------------------------------------------------------------------ *)
(* main.rs:130  diff_pattern = ^\+\+\+\s(?:.*?/){skip_prefix}( \S* ) *)

(* ^\+\+\+\s *)
Definition plus3ws (l : text) : bool :=
  match l with
  | a :: b :: c :: w :: _ => (a =? PLUS) && (b =? PLUS) && (c =? PLUS) && is_whitespace w
  | _ => false
  end.

(* one group `.*?/` : lazy, so it ends at the first '/' *)
Fixpoint after_slash (t : text) : option text :=
  match t with
  | [] => None
  | c :: t' => if c =? SLASH then Some t' else after_slash t'
  end.
(* (?:.*?/){p} ; no backtracking into the groups ever happens because the rest of the pattern, ( \S* ),
   cannot fail *)
Fixpoint skip_groups (p : nat) (t : text) : option text :=
  match p with
  | O => Some t
  | S p' => match after_slash t with
            | None => None
            | Some t' => skip_groups p' t'
            end
  end.
(* ( \S* ) greedy *)
Definition take_nonws (t : text) : text := take_while (fun c => negb (is_whitespace c)) t.

(* diff_pattern.captures(&line) : capture 1 *)
Definition match_file_header (p : nat) (l : text) : option text :=
  if plus3ws l then
    match skip_groups p (skipn 4 l) with
    | Some r => Some (take_nonws r)
    | None => None
    end
  else None.

(* what a line does to `current_file` *)
Inductive fh_event : Type :=
| FhNone                (* current_file untouched *)
| FhFile (f : text)     (* current_file = Some(f) *)
| FhReset.              (* current_file = None   (only in the repaired scanner) *)

(* main.rs:144-146 as it is *)
Definition file_header_cur (p : nat) (l : text) : fh_event :=
  match match_file_header p l with
  | Some f => FhFile f
  | None => FhNone
  end.

(* repair (b): a `+++\s` line on which diff_pattern fails resets current_file *)
Definition file_header_fixed (p : nat) (l : text) : fh_event :=
  match match_file_header p l with
  | Some f => FhFile f
  | None => if plus3ws l then FhReset else FhNone
  end.

(* ------------------------------------------------------------------ *)
(* main.rs:133  lines_pattern = ^@@.*\+(\d+)(,(\d+))? *)

Definition at2 (l : text) : bool :=
  match l with
  | a :: b :: _ => (a =? AT) && (b =? AT)
  | _ => false
  end.

Definition starts_digit (t : text) : bool :=
  match t with
  | c :: _ => is_digit c
  | [] => false
  end.

(* `.*\+` followed by `\d` : greedy, so the LAST '+' that is followed by a digit; result is the text after
   that '+' *)
Fixpoint last_plus_digits (t : text) : option text :=
  match t with
  | [] => None
  | c :: t' =>
      match last_plus_digits t' with
      | Some r => Some r
      | None => if (c =? PLUS) && starts_digit t' then Some t' else None
      end
  end.

(* \d+ : the digits and the rest *)
Definition digits1 (t : text) : option (text * text) :=
  match take_while is_digit t with
  | [] => None
  | ds => Some (ds, drop_while is_digit t)
  end.

(* (,(\d+))? : capture and rest; the group is skipped when the comma is not followed by a digit *)
Definition opt_count (t : text) : option text * text :=
  match t with
  | c :: t' =>
      if c =? COMMA then
        match digits1 t' with
        | Some (ds, r) => (Some ds, r)
        | None => (None, t)
        end
      else (None, t)
  | [] => (None, t)
  end.

(* captures 1 and 3 as digit strings *)
Definition hunk_captures := (text * option text)%type.

(* lines_pattern.captures(&line) as it is *)
Definition hunk_header_cur (l : text) : option hunk_captures :=
  if at2 l then
    match last_plus_digits (skipn 2 l) with
    | Some r => Some (take_while is_digit r, fst (opt_count (drop_while is_digit r)))
    | None => None
    end
  else None.

(* repair (a): ^@@ -\d+(?:,\d+)? \+(\d+)(?:,(\d+))?   (literal spaces) *)
Definition expect (c : char) (t : text) : option text :=
  match t with
  | x :: t' => if x =? c then Some t' else None
  | [] => None
  end.

Definition hunk_header_fixed (l : text) : option hunk_captures :=
  if at2 l then
    match expect SP (skipn 2 l) with None => None | Some t1 =>
    match expect MINUS t1 with None => None | Some t2 =>
    match digits1 t2 with None => None | Some (_, t3) =>
    match expect SP (snd (opt_count t3)) with None => None | Some t5 =>
    match expect PLUS t5 with None => None | Some t6 =>
    match digits1 t6 with None => None | Some (ds, t7) =>
      Some (ds, fst (opt_count t7))
    end end end end end end
  else None.

(* ------------------------------------------------------------------ *)
(* str::parse::<u32>() on a non-empty string of ASCII digits: None = Err (the code unwraps: panic) *)
Definition U32_MAX : N := 4294967295.
Definition digits_value (ds : text) : N := fold_left (fun a d => 10 * a + (d - 48)) ds 0.
Definition parse_u32 (ds : text) : option N :=
  let v := digits_value ds in if v <=? U32_MAX then Some v else None.

(* ------------------------------------------------------------------ *)
(* main.rs:137-187 the loop of scan_diff *)
Definition range := (text * N * N)%type.        (* Range { file, range: [start, end] } *)
Definition rpath (r : range) : text := fst (fst r).

Record state : Type := mkState {
  st_cur : option text;        (* current_file *)
  st_files : list text;        (* files : HashSet<String>, in order of first insertion *)
  st_ranges : list range       (* ranges : Vec<Range>, in push order *)
}.

(* HashSet::insert *)
Definition set_insert (f : text) (fs : list text) : list text :=
  if existsb (eqb_text f) fs then fs else fs ++ [f].

Section Scan.
Variable fh : text -> fh_event.                     (* lines 144-146 *)
Variable hh : text -> option hunk_captures.         (* line 159 *)
Variable filt : text -> bool.                       (* file_filter.is_match *)

(* one iteration of the `for line in ...lines()` loop *)
Definition step (s : state) (line : text) : res state :=
  let cur' := match fh line with                                  (* 144-146 *)
              | FhFile f => Some f
              | FhReset => None
              | FhNone => st_cur s
              end in
  let s' := mkState cur' (st_files s) (st_ranges s) in
  match cur' with
  | None => Ok s'                                                 (* 148-151 *)
  | Some file =>
      if negb (filt file) then Ok s'                              (* 155-157 *)
      else
        match hh line with
        | None => Ok s'                                           (* 159-162 *)
        | Some (ds, oc) =>
            match parse_u32 ds with                               (* 164-169 *)
            | None => Panic
            | Some start =>
                match (match oc with                              (* 170-173 *)
                       | Some cs => parse_u32 cs
                       | None => Some 1
                       end) with
                | None => Panic
                | Some cnt =>
                    if cnt =? 0 then Ok s'                        (* 175-177 *)
                    else if U32_MAX <? start + cnt then Panic     (* 179: overflow check of the addition *)
                    else Ok (mkState cur' (set_insert file (st_files s))            (* 180 *)
                                     (st_ranges s ++ [(file, start, start + cnt - 1)]))  (* 181-184 *)
                end
            end
        end
  end.

Fixpoint scan_lines (s : state) (lines : list text) : res state :=
  match lines with
  | [] => Ok s
  | l :: ls => match step s l with
               | Ok s' => scan_lines s' ls
               | Panic => Panic
               end
  end.

(* scan_diff: Ok((files, ranges)) *)
Definition scan_with (lines : list text) : res (list text * list range) :=
  match scan_lines (mkState None [] []) lines with
  | Ok s => Ok (st_files s, st_ranges s)
  | Panic => Panic
  end.
End Scan.

(* the two regexes of a scanner *)
Record scanner : Type := mkScanner {
  sc_fh : nat -> text -> fh_event;
  sc_hh : text -> option hunk_captures
}.
Definition current_code : scanner := mkScanner file_header_cur hunk_header_cur.
Definition repaired : scanner := mkScanner file_header_fixed hunk_header_fixed.

Definition scan_of (sc : scanner) (p : nat) (filt : text -> bool) (lines : list text) :=
  scan_with (sc_fh sc p) (sc_hh sc) filt lines.

Definition scan := scan_of current_code.          (* the code as it is *)
Definition scan_fixed := scan_of repaired.        (* with repairs (a) and (b) *)

(* THE SWITCH: the scanner that Run.v and the main theorems are about.
   current_code = rustfmt as it is; repaired = after the two repairs. *)
Definition the_scanner : scanner := repaired.

Definition scan_diff := scan_of the_scanner.
Definition step_diff (p : nat) (filt : text -> bool) := step (sc_fh the_scanner p) (sc_hh the_scanner) filt.

(* io::BufReader::new(from).lines() *)
Definition scan_text (p : nat) (filt : text -> bool) (input : text) := scan_diff p filt (str_lines input).

(* ------------------------------------------------------------------ *)
(* main.rs:89-118 run_rustfmt *)

(* the command line, if a process is started: rustfmt FILES... --file-lines JSON(ranges).
   FILES come in HashSet iteration order: only the set is meaningful. *)
Definition invocation (r : list text * list range) : option (list text * list range) :=
  match fst r, snd r with
  | [], _ => None
  | _, [] => None
  | _, _ => Some r
  end.

Inductive exec_result : Type :=
| SpawnFailed                 (* .status() returned Err *)
| Exited (success : bool).

(* true = Ok(()), false = Err(IoError) *)
Definition run_rustfmt (exec : list text * list range -> exec_result) (r : list text * list range) : bool :=
  match invocation r with
  | None => true
  | Some inv => match exec inv with
                | Exited true => true
                | _ => false
                end
  end.

(* main: exit status of the tool *)
Inductive exit : Type := ExitOk | ExitErr (* exit(1) *) | ExitPanic (* 101 *).
Definition format_diff (p : nat) (filt : text -> bool) (exec : list text * list range -> exec_result)
           (lines : list text) : exit :=
  match scan_diff p filt lines with
  | Panic => ExitPanic
  | Ok r => if run_rustfmt exec r then ExitOk else ExitErr
  end.

(* ================================================================== *)
(* Specification side: an abstract unified diff and what should be formatted *)

Record hunk : Type := mkHunk {
  o_start : N; o_cnt : N;          (* pre-image range *)
  n_start : N; n_cnt : N;          (* post-image range *)
  omit_o : bool; omit_n : bool;    (* print a count of 1 as nothing (both spellings exist) *)
  section : text;                  (* function context after the second @@, may be empty *)
  body : list text                 (* the ' ', '+', '-' and '\' lines *)
}.

Record file_diff : Type := mkFile {
  preamble : list text;            (* diff --git, index, new file mode, rename from/to, ... *)
  old_path : text; old_stamp : text;
  new_path : text; new_stamp : text;   (* stamp: what diff -u prints after the path: TAB and a time; or nothing *)
  hunks : list hunk
}.

Definition patch := list file_diff.

(* decimal printing *)
Fixpoint le_digits (fuel : nat) (n : N) : text :=
  match fuel with
  | O => []
  | S f => (48 + n mod 10) :: (if n / 10 =? 0 then [] else le_digits f (n / 10))
  end.
Definition num (n : N) : text := rev (le_digits (S (N.size_nat n)) n).

Definition show_cnt (omit : bool) (c : N) : text :=
  if omit && (c =? 1) then [] else COMMA :: num c.

Definition render_hunk_header (h : hunk) : text :=
  [AT; AT; SP; MINUS] ++ num (o_start h) ++ show_cnt (omit_o h) (o_cnt h)
  ++ [SP; PLUS] ++ num (n_start h) ++ show_cnt (omit_n h) (n_cnt h)
  ++ [SP; AT; AT] ++ (match section h with [] => [] | s => SP :: s end).

Definition render_hunk (h : hunk) : list text := render_hunk_header h :: body h.

Definition render_new_header (f : file_diff) : text := [PLUS; PLUS; PLUS; SP] ++ new_path f ++ new_stamp f.
Definition render_old_header (f : file_diff) : text := [MINUS; MINUS; MINUS; SP] ++ old_path f ++ old_stamp f.

Definition render_file (f : file_diff) : list text :=
  preamble f ++ [render_old_header f; render_new_header f] ++ flat_map render_hunk (hunks f).

Definition render (d : patch) : list text := flat_map render_file d.

(* drop the first p '/'-terminated components of a path; None if there are fewer *)
Fixpoint drop_component (t : text) : option text :=
  match t with
  | [] => None
  | c :: t' => if c =? SLASH then Some t' else drop_component t'
  end.
Fixpoint strip (p : nat) (path : text) : option text :=
  match p with
  | O => Some path
  | S p' => match drop_component path with
            | None => None
            | Some t => strip p' t
            end
  end.

Definition hunk_expected (file : text) (h : hunk) : list range :=
  if n_cnt h =? 0 then [] else [(file, n_start h, n_start h + n_cnt h - 1)].

Definition file_expected (p : nat) (filt : text -> bool) (f : file_diff) : list range :=
  match strip p (new_path f) with
  | None => []
  | Some s => if filt s then flat_map (hunk_expected s) (hunks f) else []
  end.

Definition expected (p : nat) (filt : text -> bool) (d : patch) : list range :=
  flat_map (file_expected p filt) d.

(* the set of files named by a list of ranges, in order of first occurrence *)
Definition add_files (rs : list range) (fs : list text) : list text :=
  fold_left (fun acc r => set_insert (rpath r) acc) rs fs.
Definition file_set (rs : list range) : list text := add_files rs [].

(* what scan_diff should return on the printed patch *)
Definition expected_result (p : nat) (filt : text -> bool) (d : patch) : res (list text * list range) :=
  Ok (file_set (expected p filt d), expected p filt d).

(* the printed patch as one text, and the lines for which BufRead::lines gives back the line itself *)
Definition line_clean (l : text) : Prop :=
  ~ In LF l /\ match rev l with c :: _ => is_cr c = false | [] => True end.

(* ------------------------------------------------------------------ *)
(* Well-formedness: what the theorems need; every conjunct has a counterexample in Props.v *)

Fixpoint has_plus_digit (t : text) : bool :=
  match t with
  | c :: t' => ((c =? PLUS) && starts_digit t') || has_plus_digit t'
  | [] => false
  end.

Definition no_ws (t : text) : Prop := existsb is_whitespace t = false.
Definition no_slash (t : text) : Prop := existsb (fun c => c =? SLASH) t = false.

(* a stamp is empty or starts with a whitespace character *)
Definition stamp_ok (t : text) : Prop :=
  match t with
  | [] => True
  | c :: _ => is_whitespace c = true
  end.

(* shape of a body line: empty (some tools strip the trailing blank of an empty context line), or it
   starts with ' ', '+', '-' or '\' *)
Definition body_shape (l : text) : Prop :=
  match l with
  | [] => True
  | c :: _ => c = SP \/ c = PLUS \/ c = MINUS \/ c = BACKSLASH
  end.

(* (e) the numbers of the post-image fit u32, and so does their sum when it is computed *)
Definition fits_u32 (h : hunk) : Prop :=
  n_start h <= U32_MAX /\ n_cnt h <= U32_MAX /\ (n_cnt h <> 0 -> n_start h + n_cnt h <= U32_MAX).

Definition all_zero (f : file_diff) : Prop := Forall (fun h => n_cnt h = 0) (hunks f).

(* the conditions, one by one; each is a predicate on one file of the patch *)
Inductive cond : Type :=
| CPre        (* extended header lines (diff --git, index, ...) do not start with @@ *)
| CStamp      (* what follows the post-image path is nothing or starts with a whitespace character *)
| CPath       (* (c) the stripped post-image path contains no whitespace *)
| CShape      (* body lines are empty or start with ' ', '+', '-', '\' *)
| CBody       (* (d) no body line starts with `+++` and a whitespace character *)
| CU32        (* (e) post-image numbers fit u32 *)
| CSection    (* (a) the section text contains no '+' followed by a digit *)
| CSlashes.   (* (b) the post-image path has at least p slashes (or the file has no post-image lines) *)

Definition holds (p : nat) (k : cond) (f : file_diff) : Prop :=
  match k with
  | CPre => Forall (fun l => at2 l = false) (preamble f)
  | CStamp => stamp_ok (new_stamp f)
  | CPath => forall s, strip p (new_path f) = Some s -> no_ws s
  | CShape => Forall (fun h => Forall body_shape (body h)) (hunks f)
  | CBody => Forall (fun h => Forall (fun l => plus3ws l = false) (body h)) (hunks f)
  | CU32 => Forall fits_u32 (hunks f)
  | CSection => Forall (fun h => has_plus_digit (section h) = false) (hunks f)
  | CSlashes => strip p (new_path f) <> None \/ all_zero f
  end.

(* for the repaired scanner: (a) is gone; of (b) there remains the case where the stamp supplies the
   missing slashes *)
Definition holds_fixed (p : nat) (k : cond) (f : file_diff) : Prop :=
  match k with
  | CSection => True
  | CSlashes => strip p (new_path f) = None -> no_slash (new_stamp f) \/ all_zero f
  | _ => holds p k f
  end.

(* for the code as it is *)
Definition well_formed (p : nat) (d : patch) : Prop := forall k, Forall (holds p k) d.
(* for the repaired scanner *)
Definition well_formed_fixed (p : nat) (d : patch) : Prop := forall k, Forall (holds_fixed p k) d.
(* everything but one condition: used to show that each condition is needed *)
Definition well_formed_except (x : cond) (p : nat) (d : patch) : Prop :=
  forall k, k <> x -> Forall (holds p k) d.
Definition well_formed_fixed_except (x : cond) (p : nat) (d : patch) : Prop :=
  forall k, k <> x -> Forall (holds_fixed p k) d.
