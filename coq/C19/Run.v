(* C19/Run.v — entry points for the correspondence run (results: N, bool, list, tuples, option only).

   The filter: the real tool takes a regex F and tests `^F$` on the stripped path.  The model's filter is an
   abstract function; here it is instantiated with `the path ends with filter_suffix`, which is what a filter
   of the form  .*SUFFIX  (SUFFIX regex-quoted, e.g. the default  .*\.rs ) computes: the stripped path is a
   run of non-whitespace characters, so it contains no LF and `.*` spans all of it.
   An empty suffix is the filter `.*` (everything). *)
From V Require Import Base.Text C19.Model.
Open Scope N_scope.

Definition ends_with (suffix t : text) : bool :=
  Nat.leb (length suffix) (length t) && eqb_text (skipn (length t - length suffix) t) suffix.

(* scan_diff on the lines of the input: Some ranges in push order; None = panic (u32 parse or overflow) *)
Definition run_scan (p : N) (filter_suffix : text) (lines : list text) : option (list (text * N * N)) :=
  match scan_diff (N.to_nat p) (ends_with filter_suffix) lines with
  | Ok r => Some (snd r)
  | Panic => None
  end.

(* the same from the raw input text (BufRead::lines) *)
Definition run_scan_text (p : N) (filter_suffix : text) (input : text) : option (list (text * N * N)) :=
  run_scan p filter_suffix (str_lines input).

(* the `files` set, in order of first insertion (compare as a set) *)
Definition run_files (p : N) (filter_suffix : text) (lines : list text) : option (list text) :=
  match scan_diff (N.to_nat p) (ends_with filter_suffix) lines with
  | Ok r => Some (fst r)
  | Panic => None
  end.

(* the command line: None = nothing is run (or panic: see run_scan); Some (files, ranges) *)
Definition run_invocation (p : N) (filter_suffix : text) (lines : list text)
  : option (list text * list (text * N * N)) :=
  match scan_diff (N.to_nat p) (ends_with filter_suffix) lines with
  | Ok r => invocation r
  | Panic => None
  end.

(* exit status of the tool: 0 ok, 1 error, 101 panic; rustfmt_ok = the started rustfmt exits with success *)
Definition run_exit (p : N) (filter_suffix : text) (rustfmt_ok : bool) (lines : list text) : N :=
  match format_diff (N.to_nat p) (ends_with filter_suffix) (fun _ => Exited rustfmt_ok) lines with
  | ExitOk => 0
  | ExitErr => 1
  | ExitPanic => 101
  end.

(* diff_pattern on one line: capture 1 *)
Definition run_file_header (p : N) (line : text) : option text :=
  match sc_fh the_scanner (N.to_nat p) line with
  | FhFile f => Some f
  | _ => None
  end.

(* lines_pattern on one line: numeric values of captures 1 and 3 (not yet limited to u32) *)
Definition run_hunk_header (line : text) : option (N * option N) :=
  match sc_hh the_scanner line with
  | Some (ds, oc) => Some (digits_value ds, option_map digits_value oc)
  | None => None
  end.
