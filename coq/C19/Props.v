(* C19/Props.v — the property theorems of C19 (statements only; proofs in Lemmas.v).
   C19: "rustfmt-format-diff, given a unified diff, asks rustfmt to format precisely the files whose post-image
   path (after stripping the requested number of prefix components) matches the filter, and for each of them
   precisely the post-image line range announced by each hunk header (start and count, a missing count meaning
   one line); hunks whose post-image is empty, files that do not match and lines that are not headers
   contribute nothing, an empty result runs nothing, and a failing rustfmt makes the tool fail."
   All statements are for every patch (any number of files, hunks, lines), every -p value and every filter
   function: no bound.

   scan_diff is Model.the_scanner's scan: the code as it is (current_code) or with the two repairs (repaired);
   `scan` / `scan_fixed` name the two explicitly.  The theorems about scan_diff hold for either setting of
   the switch; the `_refuted` theorems are about `scan`, the `fixed_` theorems about `scan_fixed`.

   Modelling restrictions: see the head of Model.v (ASCII \d, abstract filter, debug-build overflow check). *)
From V Require Import Base.Text C19.Model C19.Lemmas.
Open Scope N_scope.

(* main clause: on the printed form of any well-formed patch the scan yields exactly the expected ranges,
   in order, and the files named by them *)
Theorem scan_render : forall p filt d, well_formed p d ->
  scan_diff p filt (render d) = Ok (file_set (expected p filt d), expected p filt d).
Proof. exact scan_diff_render. Qed.
Print Assumptions scan_render.

(* the same from the input text, through BufRead::lines *)
Theorem scan_text_render : forall p filt d, well_formed p d -> Forall line_clean (render d) ->
  scan_text p filt (unlines (render d)) = expected_result p filt d.
Proof. exact scan_text_render_lemma. Qed.
Print Assumptions scan_text_render.

(* the lines the scanner sees never contain LF (so `.` of the regexes is `any character`) *)
Theorem lines_have_no_lf : forall input, Forall (fun l => ~ In LF l) (str_lines input).
Proof. exact str_lines_no_lf. Qed.
Print Assumptions lines_have_no_lf.

(* `precisely the files`: for ANY input, the files passed to rustfmt are the set of the paths of the ranges *)
Theorem files_are_range_paths : forall p filt lines fs rs, scan_diff p filt lines = Ok (fs, rs) ->
  fs = file_set rs /\ NoDup fs /\ forall f, In f fs <-> In f (map rpath rs).
Proof. exact scan_diff_files. Qed.
Print Assumptions files_are_range_paths.

(* `lines that are not headers contribute nothing`: a line on which both patterns fail can be inserted
   (or removed) anywhere in any input *)
Theorem nonheader_lines_contribute_nothing : forall p filt l pre post,
  sc_fh the_scanner p l = FhNone -> sc_hh the_scanner l = None ->
  scan_diff p filt (pre ++ l :: post) = scan_diff p filt (pre ++ post).
Proof. exact scan_diff_insert_inert. Qed.
Print Assumptions nonheader_lines_contribute_nothing.

(* ... (f) and every line whose first character is neither '+' nor '@' is such a line:
   `--- old`, `diff --git`, `index`, `rename from`, context and removed lines *)
Theorem other_lines_are_not_headers : forall p c l, c <> PLUS -> c <> AT ->
  sc_fh the_scanner p (c :: l) = FhNone /\ sc_hh the_scanner (c :: l) = None.
Proof. exact first_char_inert. Qed.
Print Assumptions other_lines_are_not_headers.

(* (d, first half) a body line of the right shape never looks like a hunk header: proved, not assumed *)
Theorem body_line_is_no_hunk_header : forall l, body_shape l -> at2 l = false.
Proof. exact body_shape_not_at. Qed.
Print Assumptions body_line_is_no_hunk_header.

(* `hunks whose post-image is empty contribute nothing`: a header with count 0 leaves the state as it is *)
Theorem zero_count_skipped : forall p filt s l ds cs,
  sc_hh the_scanner l = Some (ds, Some cs) -> parse_u32 ds <> None -> parse_u32 cs = Some 0 ->
  step_diff p filt s l = Ok s.
Proof. exact zero_count_skipped_lemma. Qed.
Print Assumptions zero_count_skipped.

(* `a missing count meaning one line`: a header without count pushes [start, start] *)
Theorem missing_count_is_one : forall p filt s l ds a file,
  sc_hh the_scanner l = Some (ds, None) -> parse_u32 ds = Some a -> a + 1 <= U32_MAX ->
  st_cur s = Some file -> filt file = true ->
  step_diff p filt s l =
  Ok (mkState (Some file) (set_insert file (st_files s)) (st_ranges s ++ [(file, a, a)])).
Proof. exact missing_count_is_one_lemma. Qed.
Print Assumptions missing_count_is_one.

(* ... and the printed header of a one-line hunk with the count left out is read as such *)
Theorem omitted_count_is_missing : forall h,
  has_plus_digit (section h) = false -> omit_n h = true -> n_cnt h = 1 ->
  sc_hh the_scanner (render_hunk_header h) = Some (num (n_start h), None).
Proof. exact omitted_count_capture. Qed.
Print Assumptions omitted_count_is_missing.

(* `an empty result runs nothing` (and the tool succeeds whatever rustfmt would do) *)
Theorem empty_runs_nothing : forall r exec, fst r = [] \/ snd r = [] ->
  invocation r = None /\ run_rustfmt exec r = true.
Proof. exact empty_runs_nothing_lemma. Qed.
Print Assumptions empty_runs_nothing.

(* `a failing rustfmt makes the tool fail`: rustfmt not started or not exiting with success => Err, exit 1 *)
Theorem failure_propagates : forall p filt exec lines r inv,
  scan_diff p filt lines = Ok r -> invocation r = Some inv -> exec inv <> Exited true ->
  run_rustfmt exec r = false /\ format_diff p filt exec lines = ExitErr.
Proof. exact failure_propagates_both. Qed.
Print Assumptions failure_propagates.

(* the whole tool on a well-formed patch: one rustfmt process with exactly the expected files and ranges,
   none if there is nothing to format; the exit status follows rustfmt's *)
Theorem format_diff_render : forall p filt exec d, well_formed p d ->
  format_diff p filt exec (render d) =
  match expected p filt d with
  | [] => ExitOk
  | e => match exec (file_set e, e) with
         | Exited true => ExitOk
         | _ => ExitErr
         end
  end.
Proof. exact format_diff_render_lemma. Qed.
Print Assumptions format_diff_render.

(* ---- each condition of well_formed is needed by the code as it is ---- *)

(* (a) REFUTED [known defect]: a section text with '+' digit: the range is read from the section *)
Theorem section_condition_refuted : exists p filt d,
  well_formed_except CSection p d /\ scan p filt (render d) <> expected_result p filt d.
Proof. exists 1%nat, any_file, W_section. exact section_condition_witness. Qed.
Print Assumptions section_condition_refuted.

(* (b) REFUTED [known defect]: a post-image path with fewer than p slashes: its hunks go to the previous file *)
Theorem slashes_condition_refuted : exists p filt d,
  well_formed_except CSlashes p d /\ scan p filt (render d) <> expected_result p filt d.
Proof. exists 1%nat, any_file, W_slashes. exact slashes_condition_witness. Qed.
Print Assumptions slashes_condition_refuted.

(* (c) refuted (excluded by the property): whitespace in the stripped path; also with the repairs *)
Theorem path_condition_refuted : exists p filt d,
  well_formed_except CPath p d /\ scan p filt (render d) <> expected_result p filt d /\
  scan_fixed p filt (render d) <> expected_result p filt d /\ well_formed_fixed_except CPath p d.
Proof. exists 1%nat, any_file, W_path. exact path_condition_witness. Qed.
Print Assumptions path_condition_refuted.

(* refuted: text glued to the post-image path (a stamp that does not start with whitespace) *)
Theorem stamp_condition_refuted : exists p filt d,
  well_formed_except CStamp p d /\ scan p filt (render d) <> expected_result p filt d /\
  scan_fixed p filt (render d) <> expected_result p filt d /\ well_formed_fixed_except CStamp p d.
Proof. exists 0%nat, any_file, W_stamp. exact stamp_condition_witness. Qed.
Print Assumptions stamp_condition_refuted.

(* refuted: an extended header line that starts with @@ *)
Theorem pre_condition_refuted : exists p filt d,
  well_formed_except CPre p d /\ scan p filt (render d) <> expected_result p filt d /\
  scan_fixed p filt (render d) <> expected_result p filt d /\ well_formed_fixed_except CPre p d.
Proof. exists 0%nat, any_file, W_pre. exact pre_condition_witness. Qed.
Print Assumptions pre_condition_refuted.

(* refuted: a body line that does not start with ' ', '+', '-', '\' *)
Theorem shape_condition_refuted : exists p filt d,
  well_formed_except CShape p d /\ scan p filt (render d) <> expected_result p filt d /\
  scan_fixed p filt (render d) <> expected_result p filt d /\ well_formed_fixed_except CShape p d.
Proof. exists 0%nat, any_file, W_shape. exact shape_condition_witness. Qed.
Print Assumptions shape_condition_refuted.

(* (d) REFUTED: an added line whose text starts with `++ `: it is taken for a file header; also with the repairs *)
Theorem body_condition_refuted : exists p filt d,
  well_formed_except CBody p d /\ scan p filt (render d) <> expected_result p filt d /\
  scan_fixed p filt (render d) <> expected_result p filt d /\ well_formed_fixed_except CBody p d.
Proof. exists 1%nat, any_file, W_body. exact body_condition_witness. Qed.
Print Assumptions body_condition_refuted.

(* (e) REFUTED: start + count beyond u32: panic (debug build); also with the repairs *)
Theorem u32_condition_refuted : exists p filt d,
  well_formed_except CU32 p d /\ scan p filt (render d) = Panic /\
  scan_fixed p filt (render d) = Panic /\ well_formed_fixed_except CU32 p d.
Proof. exists 0%nat, any_file, W_u32. exact u32_condition_witness. Qed.
Print Assumptions u32_condition_refuted.

(* ---- the repaired scanner ---- *)

(* main clause for the repaired scanner, without (a) and with the rest (b') of (b) *)
Theorem fixed_scan_render : forall p filt d, well_formed_fixed p d ->
  scan_fixed p filt (render d) = Ok (file_set (expected p filt d), expected p filt d).
Proof. exact scan_render_fixed. Qed.
Print Assumptions fixed_scan_render.

(* the repaired scanner needs less *)
Theorem fixed_needs_less : forall p d, well_formed p d -> well_formed_fixed p d.
Proof. exact well_formed_weaken. Qed.
Print Assumptions fixed_needs_less.

(* the two repairs repair the witnesses of (a) and (b) *)
Theorem fixed_repairs_witnesses :
  scan_fixed 1 any_file (render W_section) = expected_result 1 any_file W_section /\
  scan_fixed 1 any_file (render W_slashes) = expected_result 1 any_file W_slashes.
Proof. exact fixed_repairs_witness. Qed.
Print Assumptions fixed_repairs_witnesses.

(* (b') refuted for the repaired scanner: fewer than p slashes in the path, but the stamp has slashes *)
Theorem fixed_slashes_condition_refuted : exists p filt d,
  well_formed_fixed_except CSlashes p d /\ scan_fixed p filt (render d) <> expected_result p filt d.
Proof. exists 1%nat, any_file, W_stamp_slash. exact fixed_slashes_condition_witness. Qed.
Print Assumptions fixed_slashes_condition_refuted.
